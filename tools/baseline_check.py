#!/usr/bin/env python3
"""Runs the repository's pinned test command (guard off) and compares with BASELINE.json:
every stable_pass test must still pass.  usage: tools/baseline_check.py [repo_dir]"""
import json, os, subprocess, sys, tempfile, xml.etree.ElementTree as ET
repo = sys.argv[1] if len(sys.argv) > 1 else "/repo"
base = json.load(open("/root/.vp/BASELINE.json"))
out = tempfile.mktemp(suffix=".xml")
cmd = "cd %s && /venv/bin/python -m pytest -ra -q -p no:cacheprovider --timeout=900 " \
      "--continue-on-collection-errors --junitxml=%s" % (repo, out)
p = subprocess.run(cmd, shell=True, capture_output=True, text=True)
passed = set()
for tc in ET.parse(out).getroot().iter("testcase"):
  if not any(ch.tag in ("failure", "error", "skipped") for ch in tc):
    passed.add("%s::%s" % (tc.get("classname"), tc.get("name")))
os.unlink(out)
missing = [t for t in base["stable_pass"] if t not in passed]
print("passed %d, baseline %d, baseline tests no longer passing: %d" % (
  len(passed), len(base["stable_pass"]), len(missing)))
for t in missing: print("  LOST", t)
sys.exit(1 if missing else 0)
