#!/usr/bin/env python3
"""Writes proved_baseline.json: for every contract of every contracts/*.py module, the hash of the
code its obligations are generated from (target + inlined callees, AST dumps) and the obligations
that were discharged (all instances `unsat`).  Run on the UNCHANGED tree after any change to /repo,
to the contracts or to pysym; commit the result.  A check never writes this file.
usage: .venv/bin/python tools/gen_proved_baseline.py [timeout_ms]"""
import glob, importlib, json, os, sys
VERIF = os.path.dirname(os.path.dirname(os.path.abspath(__file__)))
sys.path.insert(0, VERIF)
from vlib import common
common.setup_grist_path()
from vlib import pysym

def main():
  timeout = int(sys.argv[1]) if len(sys.argv) > 1 else 60000
  out = {}
  for path in sorted(glob.glob(os.path.join(VERIF, "contracts", "*.py"))):
    name = os.path.basename(path)[:-3]
    if name == "__init__": continue
    mod = importlib.import_module("contracts." + name)
    if not hasattr(mod, "CONTRACTS"): continue       # helper modules of agent-built checks
    reg = {k.qualname: k for k in mod.CONTRACTS}
    for c in mod.CONTRACTS:
      run = pysym.verify_contract(c, reg, timeout)
      status = {}
      for r in run.results:
        k = "%s|%s" % (r.ob.name, r.ob.kind.split(":")[0])
        status.setdefault(k, True)
        if r.res.status != "unsat": status[k] = False
      out[c.prefix] = {"target": c.target, "code_sha": run.code_sha,
                       "proved": sorted(k for k, ok in status.items() if ok),
                       "not_proved": sorted(k for k, ok in status.items() if not ok),
                       "unsupported": len(run.unsupported)}
      print("%-40s proved %3d  open %d  unsupported %d" % (c.prefix, len(out[c.prefix]["proved"]),
            len(out[c.prefix]["not_proved"]), len(run.unsupported)))
  with open(os.path.join(VERIF, "proved_baseline.json"), "w") as f:
    json.dump(out, f, indent=1, sort_keys=True)

if __name__ == "__main__":
  main()
