#!/bin/bash
# usage: tools/collect_classes.sh <ID> <seed_from> <seed_to> [tier]   -> prints "count class" lines
ID=$1; A=$2; B=$3; T=${4:-quick}
cd "$(dirname "$0")/.."
./setup.sh >/dev/null 2>&1
OUT=$(mktemp -d /tmp/verif-classes-XXXX)
for s in $(seq $A $B); do
  VERIF_SEED=$s VERIF_TIER=$T VERIF_REPLAY_DIR=$OUT/$s VERIF_EVIDENCE_DIR=$OUT/ev ./check $ID >/dev/null 2>&1
done
.venv/bin/python - "$OUT" <<'PY'
import json, glob, collections, sys
c = collections.Counter(); ex = {}
for f in glob.glob(sys.argv[1] + "/*/*.json"):
  if "/ev/" in f: continue
  d = json.load(open(f))
  k = (d.get("obligation"), d.get("class"))
  c[k] += 1
  ex.setdefault(k, json.dumps(d.get("history") or d.get("failing_input"))[:600])
for k, v in sorted(c.items(), key=lambda kv: str(kv[0])):
  print(v, k[0], "||", k[1], "||", ex[k])
PY
rm -rf "$OUT"
