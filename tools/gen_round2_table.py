#!/usr/bin/env python3
"""Rewrites the round-2 seeded-change table of DESIGN.md (between the ROUND2 markers) from
seeded/*-r2-*/meta.json."""
import glob, json, os, re
V = os.path.dirname(os.path.dirname(os.path.abspath(__file__)))
rows = []
for d in sorted(glob.glob(os.path.join(V, "seeded", "*-r2-*", "")) + glob.glob(os.path.join(V, "seeded", "*-r3-*", ""))):
  n = os.path.basename(d.rstrip("/"))
  m = json.load(open(os.path.join(d, "meta.json")))
  rows.append("| %s | %s | %s | %s |" % (n, m["needs_to_manifest"],
              "caught" if m["check_result"] == "yes" else "**missed**", m["caught_by"]))
p = os.path.join(V, "DESIGN.md")
s = open(p).read()
head = "| seeded change (seeded/…) | needs | first run | caught by / strengthening |\n|---|---|---|---|\n"
block = "<!-- ROUND2-BEGIN -->\n" + head + "\n".join(rows) + "\n<!-- ROUND2-END -->"
if "<!-- ROUND2-BEGIN -->" in s:
  s = re.sub(r"<!-- ROUND2-BEGIN -->.*?<!-- ROUND2-END -->", lambda m: block, s, flags=re.S)
else:
  i = s.index(head, s.index("### 14.4"))
  j = s.index("\n\n", i)
  s = s[:i] + block + s[j:]
open(p, "w").write(s)
n_missed = sum(1 for r in rows if "**missed**" in r)
print("round-2/3 rows: %d (%d missed at first)" % (len(rows), n_missed))
