#!/usr/bin/env python3
"""Copies a confirmed seeded change into /verif/seeded/<name>/ with meta.json.
usage: tools/keep_seeded.py <name> <property> <demo_dir> <caught:yes|no|after-strengthening> "<what it needs>" "<which clause caught it>" """
import json, os, shutil, sys
name, prop, src, caught, needs, by = sys.argv[1:7]
dst = os.path.join(os.path.dirname(os.path.dirname(os.path.abspath(__file__))), "seeded", name)
os.makedirs(dst, exist_ok=True)
for f in ("patch.diff", "demo.py", "notes.md"):
  if os.path.exists(os.path.join(src, f)): shutil.copy(os.path.join(src, f), dst)
stub = os.path.join(src, "friendly_traceback")
if os.path.isdir(stub):
  shutil.copytree(stub, os.path.join(dst, "friendly_traceback"), dirs_exist_ok=True,
                  ignore=shutil.ignore_patterns("__pycache__"))
meta = {
  "property": prop, "source": "independent sub-agent given only the property text and a scratch worktree",
  "needs_to_manifest": needs,
  "confirmed_by_lead": {
    "demo": "demo.py exits 0 on a clean copy of /repo and non-zero with patch.diff applied "
            "(tools/try_seeded.py --demo)",
    "pinned_tests": "tools/baseline_check.py on the patched worktree: all 158 baseline tests still pass",
  },
  "check_result": caught, "caught_by": by,
  "how_to_rerun": "python3 tools/try_seeded.py %s seeded/%s/patch.diff --demo seeded/%s/demo.py" % (prop, name, name),
}
json.dump(meta, open(os.path.join(dst, "meta.json"), "w"), indent=1)
print("kept", dst)
