#!/bin/bash
# usage: tools/sweep.sh "<ids>" "<seeds>" [tier]  -> one line per run, then the unmatched classes
cd "$(dirname "$0")/.."
./setup.sh >/dev/null 2>&1
IDS=${1:-$(ls checks/C*.py | sed 's#checks/##; s#\.py##')}
SEEDS=${2:-"0 1 2 3"}
T=${3:-quick}
OUT=$(mktemp -d /tmp/verif-sweep-XXXX)
for s in $SEEDS; do
  for id in $IDS; do
    t0=$(date +%s)
    VERIF_SEED=$s VERIF_TIER=$T VERIF_REPLAY_DIR=$OUT/$id-$s VERIF_EVIDENCE_DIR=$OUT/ev ./check $id > $OUT/$id-$s.log 2>&1
    rc=$?
    echo "RUN $id seed=$s exit=$rc $(( $(date +%s) - t0 ))s viol=$(grep -c '^VIOLATION' $OUT/$id-$s.log) known=$(grep -c '^KNOWN' $OUT/$id-$s.log) other=$(grep -c '^UNDECIDED\|^CHECKER' $OUT/$id-$s.log)"
    if [ $rc -ne 0 ]; then grep '^VIOLATION\|^UNDECIDED\|^CHECKER' $OUT/$id-$s.log | cut -c1-300 | head -5; fi
  done
done
.venv/bin/python - "$OUT" <<'PY'
import json, glob, collections, sys
c = collections.Counter(); ex = {}
for f in glob.glob(sys.argv[1] + "/C*-*/*.json"):
  try: d = json.load(open(f))
  except Exception: continue
  k = (d.get("property"), d.get("obligation"), d.get("class"))
  c[k] += 1
  ex.setdefault(k, json.dumps(d.get("history") or d.get("failing_input") or d.get("model_args"))[:500])
print("UNMATCHED CLASSES:")
for k, v in sorted(c.items(), key=lambda kv: str(kv[0])):
  print(v, k, "||", ex[k])
PY
echo "SWEEP DIR $OUT"
