#!/usr/bin/env python3
"""Runs a property's check against a scratch copy of the repository with a seeded change applied.
usage: tools/try_seeded.py <Cxx> <patch.diff> [--tier quick|thorough] [--demo demo.py]
Exit 0 if the check reported a violation (exit 1 + VIOLATION line), 1 otherwise."""
import os, shutil, subprocess, sys, tempfile, time
VERIF = os.path.dirname(os.path.dirname(os.path.abspath(__file__)))

def main():
  pid, patch = sys.argv[1], os.path.abspath(sys.argv[2])
  tier = sys.argv[sys.argv.index("--tier") + 1] if "--tier" in sys.argv else "quick"
  demo = os.path.abspath(sys.argv[sys.argv.index("--demo") + 1]) if "--demo" in sys.argv else None
  scratch = tempfile.mkdtemp(prefix="verif-seeded-")
  try:
    os.makedirs(os.path.join(scratch, "app"))
    shutil.copytree("/repo/sandbox", os.path.join(scratch, "sandbox"),
                    ignore=shutil.ignore_patterns("__pycache__", "pyodide", "gvisor", "docker"))
    shutil.copytree("/repo/app/common", os.path.join(scratch, "app/common"))
    if demo:
      p = subprocess.run(["/venv/bin/python", demo, scratch], capture_output=True, text=True,
                         env=dict(os.environ, PYTHONPATH=os.path.dirname(demo)))
      print("demo on clean copy: exit", p.returncode)
    p = subprocess.run(["patch", "-p1", "-s", "-i", patch], cwd=scratch, capture_output=True, text=True)
    if p.returncode != 0:
      print("PATCH FAILED", p.stdout, p.stderr); return 2
    if demo:
      p = subprocess.run(["/venv/bin/python", demo, scratch], capture_output=True, text=True,
                         env=dict(os.environ, PYTHONPATH=os.path.dirname(demo)))
      print("demo on changed copy: exit", p.returncode)
    env = dict(os.environ, VERIF_REPO=scratch, VERIF_TIER=tier,
               VERIF_EVIDENCE_DIR=os.path.join(scratch, "evidence"),
               VERIF_REPLAY_DIR=os.path.join(scratch, "replays"))
    t0 = time.time()
    p = subprocess.run([os.path.join(VERIF, "check"), pid], env=env, capture_output=True, text=True)
    lines = [l for l in p.stdout.splitlines() if l.startswith(("VIOLATION", "UNDECIDED", "CHECKER", "KNOWN"))]
    caught = p.returncode == 1 and any(l.startswith("VIOLATION") for l in lines)
    print("%s on seeded change: exit=%d %.0fs %s" % (pid, p.returncode, time.time() - t0,
                                                      "CAUGHT" if caught else "MISSED"))
    for l in lines[:6]: print("  ", l[:200])
    return 0 if caught else 1
  finally:
    shutil.rmtree(scratch, ignore_errors=True)

if __name__ == "__main__":
  sys.exit(main())
