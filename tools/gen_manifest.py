#!/usr/bin/env python3
import json, os, sys
HERE = os.path.dirname(os.path.abspath(__file__))
sys.path.insert(0, HERE)
import registry

props = [json.loads(l)["id"] for l in open(os.path.join(HERE, "..", "properties.jsonl"))]
checks = []
for pid in props:
  c = registry.CHECKS.get(pid)
  if not c: continue
  checks.append({
    "property_id": pid,
    "quick_cmd": "./check %s --tier quick" % pid,
    "thorough_cmd": "./check %s --tier thorough" % pid,
    "evidence_file": "evidence/%s.json" % pid,
    "replay_cmd_template": "./check %s --replay {path}" % pid,
    "engine": c.get("engine", "pysym+rtc"),
    "level_claimed": {"category": c["level"], "text": c["text"], "design_ref": c["design_ref"]},
    "level_note": c["note"],
    "technique": c["technique"],
  })
na = [{"property_id": p, "reason": r} for p, r in registry.NOT_APPLICABLE.items()]
for pid in props:
  if pid not in registry.CHECKS and pid not in registry.NOT_APPLICABLE:
    na.append({"property_id": pid, "reason": "not yet built in this round (planned, DESIGN.md 5); "
               "no check is claimed"})
man = {
  "version": 1,
  "setup_cmd": "./setup.sh",
  "hooks": {"guard": "GRIST_CORE_VERIF", "enable": "no source hooks: checks wrap the real functions "
            "at import time (guard reserved, unused)", "baseline_off_cmd":
            "cd /repo && /venv/bin/python -m pytest -ra -q -p no:cacheprovider --timeout=900 "
            "--continue-on-collection-errors", "source_commits": [], "add_only": True},
  "engines": [
    {"name": "pysym", "path": "vlib/pysym", "kind_free_text": "deductive: AST of /repo sources -> "
     "symbolic execution with sidecar contracts/loop invariants -> VCs -> z3 / cvc5",
     "serves_properties": sorted(p for p, c in registry.CHECKS.items() if "pysym" in c.get("engine", "pysym+rtc"))},
    {"name": "rtc", "path": "vlib/rtc", "kind_free_text": "bounded: run-time contracts on the real "
     "functions/engine, exhaustive small-scope + seeded histories (never counted as proved)",
     "serves_properties": sorted(p for p, c in registry.CHECKS.items() if "rtc" in c.get("engine", "pysym+rtc"))},
  ],
  "checks": checks,
  "not_applicable": na,
  "notes": "See DESIGN.md. Exit codes: 0 held, 1 violation, 2 undecided, 3 checker error.",
}
json.dump(man, open(os.path.join(HERE, "..", "MANIFEST.json"), "w"), indent=1)
import jsonschema
jsonschema.validate(man, json.load(open("/root/.vp/MANIFEST.schema.json")))
print("MANIFEST.json: %d checks, %d not_applicable" % (len(checks), len(na)))
