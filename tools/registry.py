"""Single table of what MANIFEST.json claims; tools/gen_manifest.py turns it into the manifest."""

# id -> dict(level, text, note, technique, design_ref)
CHECKS = {
  "C36": dict(
    level="proof",
    text="Every obligation generated from the real source of treeview.fix_indents (loop "
         "invariant initially / preserved on every path, 7 postconditions taken from the statement) "
         "is discharged by z3 for all page lists and removal sets; a bounded exhaustive twin of the "
         "same clauses runs on the real function and supplies failing inputs.",
    note="pysym VC generator and its Python semantics, z3; argument shapes (int ids/levels >= 0, "
         "distinct ids); reading of 'changes only pages that would otherwise violate' recorded "
         "in DESIGN.md 5/C36.",
    technique="contract-based deductive verification (own AST->SMT VC generator, z3/cvc5), "
              "bounded run-time contract twin",
    design_ref="5/C36"),
}

NOT_APPLICABLE = {
  "C30": "quantifies over interpreter configurations (PYTHONHASHSEED) and relates two separate "
         "processes; no pre/postcondition on a call inside one process can mention the hash seed "
         "(DESIGN.md 7)",
}
