"""Single table of what MANIFEST.json claims; tools/gen_manifest.py turns it into the manifest."""

# id -> dict(level, text, note, technique, design_ref)
CHECKS = {
  "C36": dict(
    level="proof",
    text="Every obligation generated from the real source of treeview.fix_indents (loop "
         "invariant initially / preserved on every path, 7 postconditions taken from the statement) "
         "is discharged by z3 for all page lists and removal sets; a bounded exhaustive twin of the "
         "same clauses runs on the real function and supplies failing inputs.",
    note="pysym VC generator and its Python semantics, z3; argument shapes (int ids/levels >= 0, "
         "distinct ids); reading of 'changes only pages that would otherwise violate' recorded "
         "in DESIGN.md 5/C36.",
    technique="contract-based deductive verification (own AST->SMT VC generator, z3/cvc5), "
              "bounded run-time contract twin",
    design_ref="5/C36"),
}

CHECKS["C14"] = dict(
    level="proof",
    text="find.lt/le/gt/ge/eq, previous, next and rank (real source of records.FindOps.* with "
         "RecordSet._bisect_find/_bisect_index/_find_eq/_at inlined) are proved equal to the "
         "linear-scan definition for every sorted record set and every probe, under the sort-key "
         "contract; counter-models are replayed on the real classes.",
    note="assumed contracts: SortKey ordering (C13 lemma), bisect partition point, table.Record; "
         "sortedness of the record set is a precondition (established by sorted() in lookup code, "
         "checked at run time in C13's bounded tier); PREVIOUS/NEXT/RANK wrappers not re-verified.",
    technique="contract-based deductive verification (own AST->SMT VC generator, z3/cvc5)",
    design_ref="5/C14")

CHECKS["C41"] = dict(
    level="proof",
    text="Every obligation from the real source of Engine.fetch_table (4 loops with inductive "
         "invariants, nested for/else/break/try; symbolic number of rows, query columns and values) "
         "is discharged: result rows are exactly the matching rows in row-id order, columns are "
         "exactly those selected by the formulas/private flags, values aligned. A bounded twin "
         "runs the real engine against a linear-scan specification.",
    note="environment model: RowIDs iterates increasing ids, pure column reads, set()/in semantics "
         "incl. TypeError on unhashables, 'unhashable never equals hashable' (DESIGN.md 5/C41); "
         "pysym + z3 trusted.",
    technique="contract-based deductive verification (own AST->SMT VC generator, z3/cvc5) + "
              "bounded run-time contract on the real engine",
    design_ref="5/C41")

CHECKS["C26"] = dict(
    level="exploration",
    text="Deductive: update_new_rows_map / translate_new_row_ids and their composition (last "
         "mapping wins, non-negative and unmapped ids are identities, frame) and "
         "_reject_unresolved_temp_ids (raises iff a negative id survives) are proved for all "
         "inputs. Bounded: whole bundles using temporary ids through the real engine are compared "
         "with the same actions applied with the allocated ids substituted; unknown negative "
         "reference ids must be rejected without trace. Claimed at the weaker (bounded) level.",
    note="proof part assumes the _forTable stub and dict.update semantics; bounded part: 15 "
         "follow-up actions, ordered selections up to 2/3, one document.",
    technique="contract-based deductive verification of the id-map functions (own AST->SMT VC "
              "generator, z3/cvc5) + bounded run-time contract on bundles",
    design_ref="5/C26")

CHECKS["C27"] = dict(
    level="exploration",
    text="Deductive: the id-filling slice of doBulkAddOrReplace is proved to keep explicit ids, "
         "give placeholders fresh increasing ids above every existing row, reject ids over "
         "1,000,000 - and the statement's 'distinct' / 'positive' postconditions are obligations "
         "too. Bounded: BulkAddRecord/ReplaceTableData/AddRecord through the real engine for all "
         "id lists up to length 2/3 over a 10-value pool: returned ids are exactly the new rows, "
         "unsatisfiable requests are rejected without trace.",
    note="slice selected structurally; next_row_id() above all existing ids is assumed (RowIDs "
         "lemma); rest of the method only covered by the bounded tier.",
    technique="contract-based deductive verification of the allocation loop (own AST->SMT VC "
              "generator, z3/cvc5) + bounded run-time contract through the engine",
    design_ref="5/C27")

NOT_APPLICABLE = {
  "C30": "quantifies over interpreter configurations (PYTHONHASHSEED) and relates two separate "
         "processes; no pre/postcondition on a call inside one process can mention the hash seed "
         "(DESIGN.md 7)",
}
