"""Single table of what MANIFEST.json claims; tools/gen_manifest.py turns it into the manifest."""

# id -> dict(level, text, note, technique, design_ref)
CHECKS = {
  "C36": dict(
    level="proof",
    text="Every obligation generated from the real source of treeview.fix_indents (loop "
         "invariant initially / preserved on every path, 7 postconditions taken from the statement) "
         "is discharged by z3 for all page lists and removal sets; a bounded exhaustive twin of the "
         "same clauses runs on the real function and supplies failing inputs.",
    note="pysym VC generator and its Python semantics, z3; argument shapes (int ids/levels >= 0, "
         "distinct ids); reading of 'changes only pages that would otherwise violate' recorded "
         "in DESIGN.md 5/C36.",
    technique="contract-based deductive verification (own AST->SMT VC generator, z3/cvc5), "
              "bounded run-time contract twin",
    design_ref="5/C36"),
}

CHECKS["C14"] = dict(
    level="proof",
    text="find.lt/le/gt/ge/eq, previous, next and rank (real source of records.FindOps.* with "
         "RecordSet._bisect_find/_bisect_index/_find_eq/_at inlined) are proved equal to the "
         "linear-scan definition for every sorted record set and every probe, under the sort-key "
         "contract; counter-models are replayed on the real classes.",
    note="assumed contracts: SortKey ordering (C13 lemma), bisect partition point, table.Record; "
         "sortedness of the record set is a precondition (established by sorted() in lookup code, "
         "checked at run time in C13's bounded tier); PREVIOUS/NEXT/RANK wrappers not re-verified.",
    technique="contract-based deductive verification (own AST->SMT VC generator, z3/cvc5)",
    design_ref="5/C14")

CHECKS["C41"] = dict(
    level="proof",
    text="Every obligation from the real source of Engine.fetch_table (4 loops with inductive "
         "invariants, nested for/else/break/try; symbolic number of rows, query columns and values) "
         "is discharged: result rows are exactly the matching rows in row-id order, columns are "
         "exactly those selected by the formulas/private flags, values aligned. A bounded twin "
         "runs the real engine against a linear-scan specification.",
    note="environment model: RowIDs iterates increasing ids, pure column reads, set()/in semantics "
         "incl. TypeError on unhashables, 'unhashable never equals hashable' (DESIGN.md 5/C41); "
         "pysym + z3 trusted.",
    technique="contract-based deductive verification (own AST->SMT VC generator, z3/cvc5) + "
              "bounded run-time contract on the real engine",
    design_ref="5/C41")

CHECKS["C26"] = dict(
    level="exploration",
    text="Deductive: update_new_rows_map / translate_new_row_ids and their composition (last "
         "mapping wins, non-negative and unmapped ids are identities, frame) and "
         "_reject_unresolved_temp_ids (raises iff a negative id survives) are proved for all "
         "inputs. Bounded: whole bundles using temporary ids through the real engine are compared "
         "with the same actions applied with the allocated ids substituted; unknown negative "
         "reference ids must be rejected without trace. Claimed at the weaker (bounded) level.",
    note="proof part assumes the _forTable stub and dict.update semantics; bounded part: 15 "
         "follow-up actions, ordered selections up to 2/3, one document.",
    technique="contract-based deductive verification of the id-map functions (own AST->SMT VC "
              "generator, z3/cvc5) + bounded run-time contract on bundles",
    design_ref="5/C26")

CHECKS["C27"] = dict(
    level="exploration",
    text="Deductive: the id-filling slice of doBulkAddOrReplace is proved to keep explicit ids, "
         "give placeholders fresh increasing ids above every existing row, reject ids over "
         "1,000,000 - and the statement's 'distinct' / 'positive' postconditions are obligations "
         "too. Bounded: BulkAddRecord/ReplaceTableData/AddRecord through the real engine for all "
         "id lists up to length 2/3 over a 10-value pool: returned ids are exactly the new rows, "
         "unsatisfiable requests are rejected without trace.",
    note="slice selected structurally; next_row_id() above all existing ids is assumed (RowIDs "
         "lemma); rest of the method only covered by the bounded tier.",
    technique="contract-based deductive verification of the allocation loop (own AST->SMT VC "
              "generator, z3/cvc5) + bounded run-time contract through the engine",
    design_ref="5/C27")

def _bounded(text, note, ref, level="exploration"):
  return dict(level=level, text=text, note=note, design_ref=ref, engine="rtc",
              technique="bounded run-time contracts on the real functions (exhaustive small "
                        "scope + seeded sampling); labelled bounded, not a proof")

CHECKS["C17"] = _bounded(
  "Run-time contract on predicate_formula.process_renames (three real collectors) and on column "
  "renames through the real engine: parse(new text) == old tree with exactly the documented "
  "references renamed, other text unchanged, stored parsed form consistent, unparsable formulas "
  "untouched. Exhaustive to depth 2 over 12 atoms, sampled above; 260 engine documents.",
  "bounded; friendly_traceback shim; depth-3 formulas sampled", "5/C17")
CHECKS["C22"] = _bounded(
  "Run-time contract on every column type's convert(): never raises, result is of the type / a "
  "str / the unchanged error object, and convert(convert(v)) == convert(v); 18 type instances x "
  "446-value adversarial pool (complete) + seeded random values.",
  "bounded; deductive part: BaseColumnType.convert and safe_repr never raise and return the "
  "error object / do_convert's result / a str, for every type and value (exception flow); "
  "known findings listed in known_findings.d/C22.json", "5/C22")
CHECKS["C22"]["engine"] = "pysym+rtc"
CHECKS["C22"]["technique"] = "deductive exception-flow obligations on convert/safe_repr (own AST->SMT VC generator) + bounded run-time contracts per type"
CHECKS["C24"] = _bounded(
  "Run-time contract on objtypes.encode_object/decode_object over the value pool (marshal.dumps "
  "accepts, decode/encode fixpoint) and on replies sent through a real sandbox.Sandbox pipe by "
  "the functions main.run registers (a normal return must be delivered).",
  "bounded; Node's JS unmarshaller is not exercised", "5/C24")
CHECKS["C25"] = _bounded(
  "Run-time contract on migrations.create_migrations: documents at every version 0..current "
  "built by the real migrations, with adversarial Text cells; total, schema == current schema, "
  "schemaVersion set, no-op when current, user tables untouched.",
  "bounded; 78 adversarial texts, one-hot over (column, text) pairs", "5/C25")
CHECKS["C32"] = _bounded(
  "Run-time contract on import_csv._parse_open_file with explicit delimiter/quotechar/headers: "
  "equal-length columns, one entry per data row, every non-empty cell in place, kept columns; "
  "exhaustive small ragged grids + long grids around the 100-row sample + random grids.",
  "bounded; known findings in known_findings.d/C32.json", "5/C32")
CHECKS["C33"] = _bounded(
  "Run-time contract on import_json.dumps: a decoder written from the statement rebuilds the JSON "
  "from the produced tables (rows, sub-tables, back references, every scalar once, "
  "includes/excludes); exhaustive to depth 2, random above.",
  "bounded; known findings in known_findings.d/C33.json", "5/C33")
CHECKS["C35"] = _bounded(
  "Run-time contract on SCHEDULE against a brute-force enumeration of the statement's set; "
  "invalid strings raise ValueError only; all units x multiples x 23 starts (DST, month/year "
  "boundaries, 4 zones) + random valid and fuzzed strings.",
  "bounded; known finding: starts before 1900", "5/C35")
CHECKS["C40"] = _bounded(
  "Run-time contract on parse_predicate_formula: JSON-serialisable tree; a tree interpreter "
  "written from the documented node table agrees with Python eval (with $x as rec.x) on all "
  "parenthesised expressions to depth 3 over the supported operators; unsupported syntax raises "
  "SyntaxError.",
  "bounded; the deductive part (structural induction over 9 node classes: each real visit_ "
  "method returns the documented table row, unsupported operators raise SyntaxError, dispatch "
  "totality by reflection over the ast module) covers shapes, not evaluation", "5/C40")
CHECKS["C40"]["engine"] = "pysym+rtc"
CHECKS["C40"]["technique"] = "deductive shape obligations per AST node class (own AST->SMT VC generator) + bounded differential evaluation"

CHECKS["C34"] = _bounded(
  "Run-time contract on the real moment.py functions for each of the bundled zones: "
  "dt_to_ts(ts_to_dt(t)) == t, ts_to_date(date_to_ts(d)) == d, and the offset given to a local "
  "datetime is one the zone uses within a day of that instant; evaluated at every transition "
  "+- 20 deltas and at seeded random instants over years 1..9999.",
  "bounded; whole-second instants; the per-zone deductive encoding of DESIGN.md is not built "
  "(binary floating point with fractional-minute LMT offsets)", "5/C34")

CHECKS["C20"] = _bounded(
  "Run-time contract on relabeling.prepare_inserts (called as PositionColumn does): total, "
  "existing order kept, all positions finite and distinct, new rows placed where requested "
  "(before equal existing positions) in request order; exhaustive over a 19-value adversarial "
  "float pool for small lists, 1200 fed-back insertion sequences, engine histories checking "
  "that position columns hold distinct values.",
  "bounded; the float lemmas planned in DESIGN.md are not built; known finding: position "
  "column created on a non-empty table", "5/C20")
CHECKS["C21"] = _bounded(
  "Run-time contract on identifiers.pick_table_ident / pick_col_ident / pick_col_ident_list and "
  "UserActions._pick_col_name: valid identifier, not a keyword, no leading underscore/digit, "
  "table ids capitalised, case-insensitively different from existing and from the rest of the "
  "batch, valid unused names kept; all strings up to length 3-4 over an 11-symbol alphabet, all "
  "keywords, random Unicode; engine invariant on every tableId/colId.",
  "bounded; ASCII reading of 'already valid' (DESIGN.md 5/C21); known finding: sibling summary "
  "tables", "5/C21")
CHECKS["C37"] = _bounded(
  "Run-time contract on textbuilder Replacer/Combiner/Text compositions built from data: "
  "produced text == direct patch application, mapping an output patch back covers exactly the "
  "corresponding source characters, patches spanning inputs are refused; exhaustive small "
  "texts/patch sets and nestings, every output range.",
  "bounded; known finding #12 (end offset adjacent to a deletion) and its consequences", "5/C37")
CHECKS["C38"] = dict(
  level="other",
  text="The single configuration (this tree) is checked completely: gen_js_schema.main() output "
       "== app/common/schema.ts character for character; schema.ts parsed independently and "
       "compared with schema.schema_create_actions(); gristTypes.ts _defaultValues == "
       "usertypes._type_defaults in both directions.",
  note="exhaustive over one point; the TS files are parsed with regular expressions (a layout "
       "that cannot be parsed yields UNDECIDED, never a pass)",
  technique="run-time postcondition on the generator + structural comparison (single configuration)",
  design_ref="5/C38", engine="rtc")

CHECKS["C01"] = _bounded(
  "Run-time contract (2-state postcondition) on the real Engine.apply_user_actions: after every "
  "successful bundle of a seeded random history over 9 seed documents, ApplyUndoActions of the "
  "returned undo restores the snapshot of every table (user data, formula values, metadata); at "
  "the end the whole history is unwound to the initial snapshot. The store lemma (BaseColumn "
  "set/unset/growto/raw_get as a total map) is proved deductively alongside.",
  "bounded; the pre-state is settled with a Calculate first; known findings (stale sorted "
  "lookups, undo of type changes, summary tables) in known_findings.d/C01.json", "5/C01")
CHECKS["C03"] = _bounded(
  "Same monitor as C01: after undo, ApplyDocActions of the bundle's stored actions must "
  "reproduce the post-bundle snapshot of every table.",
  "bounded; known findings: decoded error cells read as NoneType (#10), summary row ids", "5/C03")

CHECKS["C10"] = _bounded(
  "Deductive lemma on ReferenceListColumn._raw_get_without (filter keeps the other ids in order, "
  "None when empty, non-lists untouched) + run-time 2-state contract evaluated per user action "
  "and after end-of-bundle auto-removals: no data Ref cell equals and no RefList cell contains a "
  "row removed from its target table (user and metadata tables).",
  "bounded for the engine-level clause; known finding: ReplaceTableData leaves dangling references",
  "5/C10")
CHECKS["C10"]["engine"] = "pysym+rtc"
CHECKS["C10"]["technique"] = "deductive lemma (own AST->SMT VC generator) + bounded run-time contract on the real engine"
CHECKS["C11"] = _bounded(
  "Run-time invariant after every bundle: for every (col, reverseCol) pair a refers to b iff b "
  "refers to a; changes giving a single-valued side two targets are rejected without trace; "
  "exhaustive function-level contract on reverse_references.get_reverse_adjustments.",
  "bounded; ReplaceTableData excluded (recorded under C10); known finding: duplicate row ids in "
  "a bulk update", "5/C11")
CHECKS["C12"] = _bounded(
  "Run-time invariant after every bundle against a naive group-by written from the statement "
  "(list-valued group-by cells, empty lists, non-list values): one row per key, no duplicate "
  "keys, exact sorted groups, empty groups gone.",
  "bounded; narrowed: no direct actions on summary tables, no summaries of summaries, no error "
  "cells in group-by columns (stated in the evidence)", "5/C12")
CHECKS["C13"] = _bounded(
  "Deductive lemmas (table.make_sort_spec against its specification; SortKey.__init__/__lt__ = "
  "signed lexicographic order then row id, for 0..3 columns) + run-time contract at EVERY "
  "Table.lookup_records / lookup_one_record call of every explored history: result == naive "
  "filter + documented order; TwoWayMap invariants after every mutation.",
  "bounded for the lookup clause; known findings: stale indexes (erroring key cell, removed key "
  "column, ReplaceTableData, replaced sort column)", "5/C13")
CHECKS["C13"]["engine"] = "pysym+rtc"
CHECKS["C13"]["technique"] = "deductive lemmas (own AST->SMT VC generator) + bounded run-time contract at every lookup call"
CHECKS["C15"] = _bounded(
  "Run-time contract against a MUST / MUST-NOT / MAY recalculation model written from the "
  "statement, observed through counter-style trigger formulas on 7 trigger columns (DEFAULT with "
  "various recalcDeps, NEVER, MANUAL_UPDATES).",
  "bounded; single-action bundles; known findings on explicit values", "5/C15")
CHECKS["C16"] = _bounded(
  "Run-time 2-state contract on rename bundles (RenameColumn, RenameTable, colId/tableId "
  "metadata updates, label changes): every formula value unchanged, and a tokenize-based diff "
  "shows only name tokens changed in formula texts.",
  "bounded; known findings (summary group column, comprehension over a RefList column, names "
  "like builtins / lookup keywords)", "5/C16")
CHECKS["C23"] = _bounded(
  "Run-time contract on ModifyColumn(type) and the metadata path: new cell == new type's "
  "convert(old stored value) for all ordered pairs of 11 types x 43-value pool; frame: nothing "
  "else changes except dependent formulas and the reverse column of a two-way reference.",
  "bounded; known finding: RefList re-parses alt-text", "5/C23")
CHECKS["C28"] = _bounded(
  "Run-time contract against a reference implementation written from the docstring of "
  "BulkAddOrUpdateRecord / AddOrUpdateRecord: exhaustive over tables <= 3 rows, 41 argument sets, "
  "all 40 option combinations; invalid arguments rejected without changes.",
  "bounded", "5/C28")
CHECKS["C39"] = _bounded(
  "Deductive: ChoiceColumn/ChoiceListColumn._rename_cell_choice (simultaneous, element-wise) and "
  "ChoiceColumn.rename_choices (exactly the matching rows, ascending, aligned values) proved for "
  "all inputs. Bounded: RenameChoices through the real engine, exhaustive 3528 cases incl. swaps, "
  "removed rows and saved filters: cells and filters renamed, nothing else changes.",
  "bounded for the bundle-level clauses", "5/C39")
CHECKS["C39"]["engine"] = "pysym+rtc"
CHECKS["C39"]["technique"] = "deductive verification of the cell helpers (own AST->SMT VC generator) + bounded run-time contract on RenameChoices"

CHECKS["C02"] = _bounded(
  "Run-time contract with a ghost mirror: the repository's own table_data_set.TableDataSet is fed "
  "the stored actions of every bundle since InitNewDoc and must equal the engine's tables, row ids "
  "and non-private cells after each bundle; no silent change, no phantom action.",
  "bounded; TableDataSet is trusted as the independent interpreter the statement names; known "
  "findings shared with C04 (formula cells reset by rollback)", "5/C02")
CHECKS["C04"] = _bounded(
  "Exceptional postcondition of Engine.apply_user_actions under enumerated faults: an exception is "
  "injected before / after / inside every doc-action step and inside rebuild_usercode, plus the "
  "natural failures of the generator; snapshot unchanged, schema consistent, engine usable "
  "(silent Calculate, same behaviour as a shadow engine).",
  "faults are Python exceptions at doc-action granularity (not inside formula evaluation or "
  "during rollback itself); positions capped at 60 per bundle in quick; known findings in "
  "known_findings.d/C04.json", "5/C04", level="fault_enumeration")
CHECKS["C08"] = _bounded(
  "Invariant after every successful bundle and after every rollback: assert_schema_consistent() "
  "plus an independent field-by-field comparison of engine.schema with the schema derived from "
  "_grist_Tables/_grist_Tables_column, and no column record of a nonexistent table; half of the "
  "bundles are direct metadata edits.",
  "bounded; known findings: direct metadata inserts accepted without schema action", "5/C08")
CHECKS["C09"] = _bounded(
  "Invariant after every successful bundle: all 44 Ref/RefList columns of the _grist_* tables "
  "(derived mechanically from schema_create_actions()) resolve, plus the statement's specific "
  "clauses (fields/sections/raw sections/one record per table/helper columns used).",
  "bounded; histories that write dangling metadata references themselves are not evaluated "
  "further (precondition); known finding: summary raw section re-targeted", "5/C09")
CHECKS["C29"] = _bounded(
  "Frame contract (modifies nothing) on fetch_table, fetch_meta_tables, get_formula_error, "
  "evaluate_formula, get_formula_prompt, autocomplete, find_col_from_values on documents with "
  "side-effecting formulas: snapshot (private columns included) unchanged and a following "
  "Calculate silent.",
  "bounded; known findings: pending auto-removals survive a read-only evaluation", "5/C29")
CHECKS["C31"] = _bounded(
  "Run-time contract on every reply: len(direct) == len(stored); calc-only, summary-row and "
  "empty-column-conversion actions are non-direct; actions carrying the user's record edits on "
  "ordinary tables are direct.",
  "bounded; classification of stored actions written from the statement", "5/C31")

CHECKS["C05"] = _bounded(
  "Run-time contract after every bundle (rolled-back ones included): every formula column equals "
  "what a NEW engine computes from the same metadata and data columns only (load + Calculate); "
  "formulas from a grammar over the shapes the statement lists (refs, reflists, lookups with "
  "CONTAINS/order_by, $group, PREVIOUS/NEXT/RANK, cross-table), volatile functions excluded.",
  "bounded; the random action mix excludes RemoveColumn/RemoveTable/ModifyColumn(type|isFormula)/"
  "ReplaceTableData/summary creation (covered by 8 fixed witness histories only) because several "
  "independent genuine defects make nearly every such history fail; known findings in "
  "known_findings.d/C05.json", "5/C05")
CHECKS["C06"] = _bounded(
  "Run-time contract on Engine._update_loop under a ghost permutation of the real "
  "_make_sorted_work_items result (lookup nodes kept first): same final formula values and same "
  "multiset of stored actions as under the identity order; all permutations when <= 120, sampled "
  "otherwise; cyclic documents included.",
  "bounded; known finding: order-dependent results on cycles through error-swallowing formulas "
  "or self-keyed lookups", "5/C06")
CHECKS["C07"] = _bounded(
  "Run-time contract after every successful bundle: fetch -> reply encoding -> marshal -> database "
  "form -> the real main.table_data_from_db -> fresh engine + Calculate emits no stored actions "
  "and reports the same data.",
  "bounded; the database form is emulated from DocStorage._encodeValue (Node is not run); known "
  "findings: decoded errors read as NoneType (#10), values that do not survive the encoding",
  "5/C07")
CHECKS["C18"] = _bounded(
  "Exhaustive over all reference graphs of k <= 3 formula columns (2 + 16 + 512 graphs) and all "
  "256 cross-row graphs for k = 2, in load and modify modes, under every evaluation order: "
  "terminates without internal error, self-dependent cells hold CircularRefError, others their "
  "normal value (spec: graph reachability); k = 4 (5) sampled.",
  "bounded but exhaustive for the stated k", "5/C18")
CHECKS["C19"] = _bounded(
  "Run-time contract on gencode.GenCode.make_module and on the engine: only the column with an "
  "invalid formula holds errors and other columns keep their values; a valid formula's value "
  "equals an independent tokenize/ast translation ($name -> rec.name outside strings/comments, "
  "last expression returned) evaluated with exec; all texts of length <= 3 over 12 characters, "
  "special cases, grammar / mutated / random texts.",
  "bounded; ambiguous texts checked for isolation only; known finding: texts that parse but do "
  "not compile break the shared module", "5/C19")

NOT_APPLICABLE = {
  "C30": "quantifies over interpreter configurations (PYTHONHASHSEED) and relates two separate "
         "processes; no pre/postcondition on a call inside one process can mention the hash seed "
         "(DESIGN.md 7)",
}

# ---- round 2: deductive lemmas on the engine's index structures (DESIGN.md 14) ------------------
_GRAPH = ("Deductive lemmas, proved for all graphs (contracts/C05_graph.py): depend.Graph.add_edge / "
          "clear_dependencies / remove_node_if_unused keep both node indexes equal to the edge set, "
          "and Graph.invalidate_deps leaves the recompute map CLOSED under the dependency edges "
          "(every row affected through any chain of edges is marked), only grown, with the dirty "
          "rows marked - for row sets, partial correctness, relations' row mappings pointwise. ")
CHECKS["C05"]["text"] = _GRAPH + CHECKS["C05"]["text"]
CHECKS["C05"]["engine"] = "pysym+rtc"
CHECKS["C05"]["technique"] = ("deductive lemmas on depend.Graph incl. invalidation completeness (own AST->SMT VC "
                             "generator, z3/cvc5) + bounded run-time contract on the real engine against "
                             "recalculation from scratch")
CHECKS["C18"]["text"] = _GRAPH + CHECKS["C18"]["text"]
CHECKS["C18"]["engine"] = "pysym+rtc"
CHECKS["C18"]["technique"] = ("deductive lemmas on depend.Graph (own AST->SMT VC generator, z3/cvc5) + bounded "
                             "exhaustive exploration of reference graphs on the real engine")
CHECKS["C10"]["text"] = ("Deductive lemmas, proved for all data (contracts/C10_relation.py): "
                         "ReferenceRelation.add_reference / remove_reference / clear / get_affected_rows against "
                         "the view refs(referring, target); BaseReferenceColumn.set keeps the index exactly the "
                         "inverse of the column's right-typed non-zero cells; under that invariant "
                         "get_updates_for_removed_target_rows returns exactly the rows pointing into the removed "
                         "set (Ref columns). " + CHECKS["C10"]["text"])
CHECKS["C13"]["text"] = ("Deductive lemmas, proved for all maps (contracts/C13_twowaymap.py): "
                         "twowaymap.TwoWayMap.insert / remove / remove_left / remove_right / lookup_* against the "
                         "abstract relation with the representation invariant (both dicts describe the same "
                         "relation, no empty bin), for the (set, set) and (set, 'single') configurations; "
                         "SimpleLookupMapping.update_record / lookup_by_key / remove_row_id on top of it: after "
                         "update_record a row is indexed under exactly its key and lookup_by_key returns exactly "
                         "the rows with that key. " + CHECKS["C13"]["text"])

# ---- round 3: C37 offset-table lemma (DESIGN.md 15) ----------------------------------------------
CHECKS["C37"]["text"] = ("Deductive lemma, proved for all offset tables and positions (contracts/C37_offsets.py): "
                         "textbuilder.Replacer.get_input_pos returns the input offset of the last table entry at or "
                         "before the output position plus the distance from it, under the tables' representation "
                         "invariant (bisect.bisect_right through its assumed contract); the offsets loop of "
                         "Combiner.__init__ (structural slice, loop invariant, any number of parts) yields one entry "
                         "per part, entry m+1 = entry m + length of part m, hence the sortedness map_back_patch's "
                         "bisect calls rely on. " + CHECKS["C37"]["text"])
CHECKS["C37"]["note"] += ("; that Replacer.__init__ establishes the tables' invariant is covered by the bounded tier "
                          "only (string slicing and sorted() of patches are outside the VC generator)")
CHECKS["C37"]["engine"] = "pysym+rtc"
CHECKS["C37"]["technique"] = ("deductive lemmas on Replacer.get_input_pos and Combiner.__init__'s offsets loop (own AST->SMT VC generator, z3/cvc5) + bounded "
                              "run-time contracts on the real builders (exhaustive small scope + seeded sampling)")
