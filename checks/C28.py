"""C28 Upserts follow their specification.

Tier B, exhaustive small scope: run-time contract on the REAL UserActions.AddOrUpdateRecord /
BulkAddOrUpdateRecord (through Engine.apply_user_actions) against a reference implementation written
from their docstring and the property statement:
   C28.same_as_reference          table contents and returned ids equal the reference's
   C28.invalid_rejected_unchanged invalid arguments (mismatched lengths, duplicate require keys,
                                  empty require without allow_empty_require, bad on_many) raise and
                                  leave the table unchanged
   C28.valid_accepted             valid arguments do not raise
Bound: table T(a Text, b Int) with <= 3 rows over 3 cell pairs; require / col_values over the two
columns; every combination of on_many (absent, first, none, all, bad) x update x add x
allow_empty_require."""
import copy, itertools, json, os, sys
sys.path.insert(0, os.path.dirname(os.path.dirname(os.path.abspath(__file__))))
from vlib import common
from vlib.rtc import eng, gen, fn

_col = gen._col
REJECT = "REJECT"
DEFAULTS = {"a": "", "b": 0, "e": ""}

# ------------------------------------------------------------------------------------------------
# reference implementation (from the docstring of BulkAddOrUpdateRecord and the statement)
# ------------------------------------------------------------------------------------------------

def reference(rows, require, col_values, options, sequential=False, cols=("a", "b")):
  """rows: [{'id', 'a', 'b'}] ascending ids; require / col_values: {col: [values]}.
  -> REJECT | (new rows, recordIds, addRecordIds, updateRecordIds)
  `sequential` = each input row sees the effects of the previous ones (the docstring does not say
  which; cases where the two readings differ are outside the statement)."""
  on_many = options.get("on_many", "first")
  if on_many not in ("first", "none", "all"): return REJECT
  if not require and not options.get("allow_empty_require", False): return REJECT
  if not require and not col_values:
    return ([dict(r) for r in rows], [], [], [])
  lengths = {len(v) for v in list(require.values()) + list(col_values.values())}
  if len(lengths) != 1: return REJECT
  n = lengths.pop()
  if require and len(set(zip(*[require[k] for k in sorted(require)]))) < n: return REJECT
  update, add = options.get("update", True), options.get("add", True)
  state = [dict(r) for r in rows]
  next_id = max([r["id"] for r in rows] or [0]) + 1
  record_ids, added, updated = [[] for _ in range(n)], [], []
  to_add, to_update = [], []
  for i in range(n):
    req = {k: v[i] for k, v in require.items()}
    vals = {k: v[i] for k, v in col_values.items()}
    pool = state if sequential else rows
    matches = [r["id"] for r in pool if r["id"] > 0 and all(r[k] == req[k] for k in req)]
    if sequential: matches = [m for m in matches]
    if not matches and add:
      rec = {k: DEFAULTS[k] for k in cols}; rec.update(req); rec.update(vals)
      to_add.append((i, rec))
      if sequential:
        rec["id"] = next_id; next_id += 1
        state.append(rec); record_ids[i] = [rec["id"]]; added.append(rec["id"])
    if matches and update:
      if len(matches) > 1:
        if on_many == "first": matches = matches[:1]
        elif on_many == "none": continue
      record_ids[i] = list(matches)
      updated.append(list(matches))
      if sequential:
        for r in state:
          if r["id"] in matches: r.update(vals)
      else:
        to_update.append((matches, vals))
  if not sequential:
    for (i, rec) in to_add:
      rec["id"] = next_id; next_id += 1
      state.append(rec); record_ids[i] = [rec["id"]]; added.append(rec["id"])
    for (matches, vals) in to_update:
      for r in state:
        if r["id"] in matches: r.update(vals)
  return (state, record_ids, added, updated)


def reference_single(rows, require, col_values, options, cols=("a", "b")):
  """AddOrUpdateRecord: -> REJECT | 'NOOP_OR_REJECT' | (rows, {'recordIds', 'action'})"""
  if not require and not col_values:
    return "NOOP"                       # nothing to look up and nothing to write
  r = reference(rows, {k: [v] for k, v in require.items()},
                {k: [v] for k, v in col_values.items()}, options, cols=cols)
  if r == REJECT: return REJECT
  state, record_ids, added, updated = r
  action = "UPDATE" if updated else ("ADD" if added else "NONE")
  return (state, {"recordIds": record_ids[0] if record_ids else [], "action": action})


# ------------------------------------------------------------------------------------------------
# cases
# ------------------------------------------------------------------------------------------------

CELLS = [("x", 1), ("x", 2), ("y", 1)]
CELLS_THOROUGH = CELLS + [("y", 2)]


def _tables(tier):
  cells = CELLS if tier == "quick" else CELLS_THOROUGH
  for n in range(0, 4):
    for t in itertools.product(cells, repeat=n): yield list(t)


def _options():
  for on_many in (None, "first", "none", "all", "bad"):
    for update in (True, False):
      for add in (True, False):
        for allow in (False, True):
          o = {}
          if on_many is not None: o["on_many"] = on_many
          if not update: o["update"] = False
          if not add: o["add"] = False
          if allow: o["allow_empty_require"] = True
          yield o


SINGLE_REQUIRE = [{}, {"a": "x"}, {"a": "z"}, {"b": 1}, {"b": 3}, {"a": "x", "b": 1}, {"a": "x", "b": 3}]
SINGLE_VALUES = [{}, {"a": "y"}, {"b": 2}, {"a": "y", "b": 2}]
BULK = [   # (require, col_values)
  ({"a": ["x", "y"]}, {"b": [2, 3]}),
  ({"a": ["x", "z"]}, {"b": [2, 3]}),
  ({"a": ["x", "x"]}, {"b": [2, 3]}),                 # duplicate require keys
  ({"a": ["x", "y"]}, {"b": [2]}),                    # mismatched lengths
  ({"a": ["x", "y"], "b": [1]}, {}),                  # mismatched lengths inside require
  ({"a": ["x", "x"], "b": [1, 2]}, {}),
  ({"a": ["x", "x"], "b": [1, 1]}, {"a": ["y", "y"]}),  # duplicate pairs
  ({"b": [1, 3]}, {"a": ["y", "z"]}),
  ({"a": ["z", "w"]}, {}),
  ({}, {"b": [5, 6]}),                                # empty require, two value rows
  ({}, {"b": [5]}),
  ({"a": ["x", "y"]}, {"a": ["y", "x"]}),             # col_values touch the require column
  ({"a": ["z"]}, {"b": [7]}),
]


# `e` is an EMPTY column (freshly added: isFormula with a blank formula): it accepts values
EMPTY_REQUIRE = [{"e": "v"}, {"a": "x", "e": "v"}, {"a": "z", "e": "v"}, {"a": "x"}]
EMPTY_VALUES = [{}, {"b": 2}, {"e": "w"}]
EMPTY_BULK = [({"e": ["v", "u"]}, {"b": [2, 3]}), ({"a": ["x", "z"], "e": ["v", "v"]}, {})]


def _cases(tier, seed):
  for t in _tables(tier):
    if len(t) <= 2:
      for req in EMPTY_REQUIRE:
        for vals in EMPTY_VALUES:
          if "e" in req or "e" in vals:
            yield dict(table=t, kind="single", require=req, values=vals, empty_col=True)
      for req, vals in EMPTY_BULK:
        yield dict(table=t, kind="bulk", require=req, values=vals, empty_col=True)
  for t in _tables(tier):
    for req in SINGLE_REQUIRE:
      for vals in SINGLE_VALUES:
        yield dict(table=t, kind="single", require=req, values=vals)
    for req, vals in BULK:
      yield dict(table=t, kind="bulk", require=req, values=vals)


# ------------------------------------------------------------------------------------------------
# the call: all option combinations on one real engine, restoring the table in between
# ------------------------------------------------------------------------------------------------

def _new(table, empty_col=False):
  e = eng.new_engine()
  eng.apply(e, [["AddTable", "T", [_col("a", "Text"), _col("b", "Int")]]])
  if empty_col:
    eng.apply(e, [["AddColumn", "T", "e", {}]])
  if table:
    eng.apply(e, [["BulkAddRecord", "T", [None] * len(table),
                   {"a": [c[0] for c in table], "b": [c[1] for c in table]}]])
  return e


def _rows(e):
  td = e.fetch_table("T")
  cols = [c for c in ("a", "b", "e") if c in td.columns]
  # an empty cell of the empty column reads None before and '' after the column has been given
  # its first value (it becomes a Text data column): both are "no value"
  blank = lambda c, v: "" if (c == "e" and v is None) else v
  return [dict([("id", r)] + [(c, blank(c, td.columns[c][i])) for c in cols])
          for i, r in enumerate(td.row_ids)]


def _restore(e, table, empty_col=False):
  if empty_col and not e.schema["T"].columns["e"].isFormula:
    # a write turned the empty column into a data column: make it an empty column again
    eng.apply(e, [["RemoveColumn", "T", "e"]])
    eng.apply(e, [["AddColumn", "T", "e", {}]])
  cur = list(e.tables["T"].row_ids)
  if cur: eng.apply(e, [["BulkRemoveRecord", "T", cur]])
  if table:
    n = len(table)
    eng.apply(e, [["BulkAddRecord", "T", list(range(1, n + 1)),
                   {"a": [c[0] for c in table], "b": [c[1] for c in table],
                    "manualSort": [float(i) for i in range(1, n + 1)]}]])


def _one(e, a, opts, pre):
  """-> list of (clause, detail) for one option combination."""
  cols = ("a", "b", "e") if a.get("empty_col") else ("a", "b")
  if a["kind"] == "single":
    action = ["AddOrUpdateRecord", "T", a["require"], a["values"], opts]
    exp = reference_single(pre, a["require"], a["values"], opts, cols=cols)
    exp_seq = exp
  else:
    action = ["BulkAddOrUpdateRecord", "T", a["require"], a["values"], opts]
    exp = reference(pre, a["require"], a["values"], opts, cols=cols)
    exp_seq = reference(pre, a["require"], a["values"], opts, sequential=True, cols=cols)
  try:
    g = eng.apply(e, [action]); exc = None
  except Exception as ex:
    g, exc = None, ex
  post = _rows(e)
  out = []
  show = {"options": opts, "pre": pre, "post": post, "raised": repr(exc)[:160] if exc else None}
  if exp == REJECT:
    if exc is None:
      out.append(("C28.invalid_rejected_unchanged", dict(show, why="invalid arguments accepted",
                                                         ret=g.retValues[0])))
    elif post != pre:
      out.append(("C28.invalid_rejected_unchanged", dict(show, why="rejected but changed")))
    return out, "rejected"
  if exp == "NOOP":
    # nothing to look up and nothing to write: no change, whether or not it raises
    if post != pre: out.append(("C28.same_as_reference", dict(show, why="no-op changed the table")))
    return out, "noop"
  if a["kind"] == "bulk" and exp != exp_seq:
    return out, "unspecified"          # snapshot and sequential readings differ
  if exc is not None:
    out.append(("C28.valid_accepted", dict(show, expected=exp[1:])))
    return out, "valid"
  ret = g.retValues[0]
  if post != exp[0]:
    out.append(("C28.same_as_reference", dict(show, why="table contents", expected_rows=exp[0], ret=ret)))
  elif a["kind"] == "single":
    if ret != exp[1]:
      out.append(("C28.same_as_reference", dict(show, why="returned value", expected=exp[1], ret=ret)))
  else:
    want = {"recordIds": exp[1], "addRecordIds": exp[2], "updateRecordIds": exp[3]}
    if ret != want:
      out.append(("C28.same_as_reference", dict(show, why="returned value", expected=want, ret=ret)))
  return out, "valid"


def _call(a):
  e = _new(a["table"], a.get("empty_col"))
  pre0 = _rows(e)
  fails, kinds = [], {}
  for opts in _options():
    pre = _rows(e)
    if pre != pre0:
      return dict(fails=[("C28.harness", {"why": "restore failed", "pre": pre, "want": pre0})], kinds=kinds)
    f, kind = _one(e, a, opts, pre)
    kinds[kind] = kinds.get(kind, 0) + 1
    if f:
      # confirm on a fresh engine (no state carried over from earlier option combinations)
      e2 = _new(a["table"], a.get("empty_col"))
      f2, _ = _one(e2, a, opts, _rows(e2))
      for clause, d in f:
        d["reproduces_on_fresh_engine"] = bool(f2)
        fails.append((clause, d))
    _restore(e, a["table"], a.get("empty_col"))
  return dict(fails=fails, kinds=kinds)


def _ensure(clause):
  def f(a, r):
    bad = [d for c, d in r["fails"] if c == clause]
    return True if not bad else json.dumps(bad[0], default=repr, sort_keys=True)[:900]
  return f


def _classify(a, clause, detail):
  import re
  why = re.search(r'"why": "([^"]*)"', str(detail))
  opts = re.search(r'"options": (\{[^}]*\})', str(detail))
  return "%s:%s:%s;%s" % (clause.split(".", 1)[1], a["kind"], why.group(1) if why else "",
                          opts.group(1) if opts else "")


def main():
  rep = common.Report("C28", "exploration")
  n_opts = len(list(_options()))
  rep.assumptions += [
    common.SHIM_ASSUMPTION,
    "bounded, exhaustive: table T(a Text, b Int) with 0..3 rows over cells %r (thorough: plus "
    "('y', 2)); AddOrUpdateRecord with %d require x %d col_values dictionaries; "
    "BulkAddOrUpdateRecord with %d (require, col_values) pairs incl. duplicates and mismatched "
    "lengths; plus, on tables <= 2 rows with an additional EMPTY column e (freshly added, blank "
    "formula), require / col_values naming e; each under all %d option combinations (on_many absent/first/none/all/bad x update x add x "
    "allow_empty_require); not a proof" % (CELLS, len(SINGLE_REQUIRE), len(SINGLE_VALUES), len(BULK), n_opts),
    "the option combinations of one (table, arguments) case run on one engine with the table "
    "restored in between (remove all rows, re-add with explicit ids); a failure is re-run on a "
    "fresh engine and the outcome recorded",
    "the docstring does not say whether the rows of a bulk upsert see each other's effects; bulk "
    "cases where the snapshot and the sequential reading differ are skipped (counted)",
    "empty require AND empty col_values: nothing to look up or write; only 'no change' is required; "
    "'id' inside col_values is not exercised (DESIGN.md C28 note)",
    "new row ids are max(existing)+1 upward, matched rows are taken in ascending row id order "
    "(lookupRecords default order)"]
  rep.coverage["rule"] = (
    "one evaluation (fn level) = one (table, arguments) case = %d upsert bundles on the real "
    "engine, each compared with the reference; all cases distinct" % n_opts)
  c = fn.FnContract(
    "UserActions.AddOrUpdateRecord / BulkAddOrUpdateRecord (via apply_user_actions)", _call,
    ensures={k: _ensure(k) for k in ("C28.same_as_reference", "C28.invalid_rejected_unchanged",
                                     "C28.valid_accepted", "C28.harness")},
    classify=_classify)
  n = fn.check(rep, c, _cases, exhaustive=True, limit_quick_s=60, limit_thorough_s=900)
  rep.coverage["upsert_bundles"] = n * n_opts
  rep.coverage["evaluations"] = n * n_opts
  rep.coverage["distinct_nontrivial"] = n * n_opts
  return rep.finish()


if __name__ == "__main__":
  sys.exit(main())
