"""C33 JSON import reconstructs the input — bounded run-time contract on the REAL
imports.import_json.dumps(data, name, parse_options).

The postcondition is a *decoder*: the JSON document is rebuilt from the returned tables using only
what the statement and the module docstring say about the output (main table = top-level items;
a column of type 'Ref:<table>' holds the row id of a nested object's row in that sub-table; rows
of a sub-table '<parent>_<key>' that carry a back reference column of type 'Ref:<parent>' are the
elements of the parent's array under <key>, in order; everything else is a scalar in place) and is
compared with the input.

ensures
  C33.columns_rectangular       every table: as many data columns as metadata entries, all of one
                                length, equal to the number of objects/elements the input has at
                                that table's path
  C33.rows_and_subtables        decode(tables) == input, modulo: a non-object item/element v is the
                                row {'': v}; null and [] are "no value"
  C33.every_scalar_once_in_place  number of non-null scalar cells == number of non-null scalars of
                                the input, and every row of every table is reached exactly once
                                from the main table
  C33.includes_excludes         dumps(data, name, options) == dumps(data, name) restricted to the
                                tables whose name is included (starts with an include, if any, and
                                with no exclude), to the columns <key> whose path <table>_<key> is
                                included, and to back references whose parent table is included
raises: nothing is allowed."""
import collections
import copy
import itertools
import os
import random
import sys

sys.path.insert(0, os.path.dirname(os.path.dirname(os.path.abspath(__file__))))
from vlib import common
from vlib.rtc import fn
from contracts import C32_driver as driver

common.setup_grist_path()
import logging
logging.disable(logging.CRITICAL)
from imports import import_json     # REAL module from the working tree


def call(a):
  data = copy.deepcopy(a["data"])
  plain = import_json.dumps(data, a["name"], {"includes": "", "excludes": ""})
  if a["includes"] or a["excludes"]:
    filt = import_json.dumps(copy.deepcopy(a["data"]), a["name"],
                             {"includes": a["includes"], "excludes": a["excludes"]})
  else:
    filt = None
  return {"plain": plain["tables"], "filtered": None if filt is None else filt["tables"]}


# ---------------------------------------------------------------------------------------------
# reading the output

class Bad(Exception):
  def __init__(self, clause, detail):
    Exception.__init__(self, detail)
    self.clause, self.detail = clause, detail


def index_tables(tables):
  out = collections.OrderedDict()
  for t in tables:
    name = t["table_name"]
    if name in out:
      raise Bad("C33.columns_rectangular", "two tables named %r" % name)
    meta, data = t["column_metadata"], t["table_data"]
    if len(meta) != len(data):
      raise Bad("C33.columns_rectangular", "table %r: %d metadata entries, %d columns" % (
        name, len(meta), len(data)))
    lens = set(len(c) for c in data)
    if len(lens) > 1:
      raise Bad("C33.columns_rectangular", "table %r: column lengths %r" % (name, sorted(lens)))
    cols = collections.OrderedDict()
    for m, c in zip(meta, data):
      if m["id"] in cols:
        raise Bad("C33.columns_rectangular", "table %r: two columns %r" % (name, m["id"]))
      cols[m["id"]] = (m["type"], c)
    out[name] = {"cols": cols, "n": (lens.pop() if lens else None)}
  return out


def backref_parent(table_name, col_id, col_type):
  """The parent table name if this column is the back reference of `table_name`, else None."""
  if not col_type.startswith("Ref:"): return None
  p = col_type[4:]
  if table_name.startswith(p + "_") and len(p) < len(table_name) and \
      (col_id == p or (col_id.startswith(p) and col_id[len(p):].isdigit())):
    return p
  return None


def typed(v):
  return (type(v).__name__, v)


# ---------------------------------------------------------------------------------------------
# the statement's reading of the input

def nf_row(v, t="", tainted=frozenset()):
  """Normal form of the object / item / element v, which lives at table path t.  Keys listed in
  `tainted` (pairs (table, key)) are left out (used only to classify a failure)."""
  d = v if isinstance(v, dict) else {'': v}
  out = {}
  for k, x in d.items():
    if (t, k) in tainted: continue
    if isinstance(x, dict):
      out[k] = ("obj", nf_row(x, t + '_' + k, tainted))
    elif isinstance(x, list):
      if x: out[k] = ("list", [nf_row(e, t + '_' + k, tainted) for e in x])
    elif x is not None:
      out[k] = ("val", typed(x))
  return out


def count_rows(name, top):
  counts = collections.Counter()
  scalars = [0]
  def visit(t, v):
    counts[t] += 1
    d = v if isinstance(v, dict) else {'': v}
    for k, x in d.items():
      if isinstance(x, dict): visit(t + '_' + k, x)
      elif isinstance(x, list):
        for e in x: visit(t + '_' + k, e)
      elif x is not None: scalars[0] += 1
  for v in top: visit(name, v)
  return counts, scalars[0]


def decode(tabs, name, n_top, tainted=frozenset()):
  visited = collections.Counter()
  children = collections.defaultdict(list)      # parent table -> [(child table, key, backref values)]
  for t2, t in tabs.items():
    for cid, (typ, vals) in t["cols"].items():
      p = backref_parent(t2, cid, typ)
      if p is not None:
        children[p].append((t2, t2[len(p) + 1:], vals))
  def row(t, i, depth=0):
    if depth > 40: raise Bad("C33.rows_and_subtables", "reference cycle at %s#%s" % (t, i))
    visited[(t, i)] += 1
    out = {}
    tab = tabs.get(t)
    if tab is not None:
      if tab["n"] is not None and not (isinstance(i, int) and 1 <= i <= tab["n"]):
        raise Bad("C33.rows_and_subtables", "reference to missing row %s#%r" % (t, i))
      for cid, (typ, vals) in tab["cols"].items():
        if backref_parent(t, cid, typ) is not None or (t, cid) in tainted: continue
        v = vals[i - 1]
        if v is None: continue
        if typ.startswith("Ref:"):
          if typ[4:] != t + '_' + cid:
            raise Bad("C33.rows_and_subtables", "column %s.%s has type %s" % (t, cid, typ))
          if type(v) is not int:
            raise Bad("C33.rows_and_subtables", "column %s.%s of type %s holds %r" % (t, cid, typ, v))
          out[cid] = ("obj", row(typ[4:], v, depth + 1))
        else:
          out[cid] = ("val", typed(v))
    for t2, key, back in children.get(t, ()):
      if (t, key) in tainted: continue
      elems = [row(t2, j + 1, depth + 1) for j, b in enumerate(back) if b == i and type(b) is int]
      if elems:
        if key in out:
          raise Bad("C33.rows_and_subtables", "%s#%d has both a value and array rows under %r" % (t, i, key))
        out[key] = ("list", elems)
    return out
  main = [row(name, i + 1) for i in range(n_top)]
  return main, visited


def first_diff(a, b, path="$"):
  if type(a) is not type(b): return "%s: %r vs %r" % (path, a, b)
  if isinstance(a, dict):
    for k in sorted(set(a) | set(b)):
      if k not in a: return "%s.%s: missing in import, input has %r" % (path, k, b[k])
      if k not in b: return "%s.%s: import has %r, input has nothing" % (path, k, a[k])
      d = first_diff(a[k], b[k], "%s.%s" % (path, k))
      if d: return d
    return None
  if isinstance(a, (list, tuple)):
    if len(a) != len(b): return "%s: %d vs %d elements (%r vs %r)" % (path, len(a), len(b), a, b)
    for i, (x, y) in enumerate(zip(a, b)):
      d = first_diff(x, y, "%s[%d]" % (path, i))
      if d: return d
    return None
  return None if a == b else "%s: %r vs %r" % (path, a, b)


def verify_plain(a, tables):
  """-> list of (clause, detail)"""
  data, name = a["data"], a["name"]
  top = data if isinstance(data, list) else [data]
  out = []
  try:
    tabs = index_tables(tables)
    counts, nscalars = count_rows(name, top)
    for t, tab in tabs.items():
      if tab["n"] is not None and tab["n"] != counts.get(t, 0):
        out.append(("C33.columns_rectangular", "table %r: %d rows, input has %d objects at that path" % (
          t, tab["n"], counts.get(t, 0))))
    missing = [t for t in counts if t not in tabs]
    if missing:
      out.append(("C33.columns_rectangular", "no table %r" % missing[0]))
    main, visited = decode(tabs, name, len(top))
    expected = [nf_row(v, name) for v in top]
    d = first_diff(main, expected)
    if d:
      out.append(("C33.rows_and_subtables", d))
    cells = 0
    for t, tab in tabs.items():
      for cid, (typ, vals) in tab["cols"].items():
        if typ.startswith("Ref:"): continue
        cells += sum(1 for v in vals if v is not None)
    if cells != nscalars:
      out.append(("C33.every_scalar_once_in_place", "%d scalar cells, input has %d scalars" % (cells, nscalars)))
    for t, tab in tabs.items():
      if tab["n"] is None: continue
      for i in range(1, tab["n"] + 1):
        if visited[(t, i)] != 1:
          out.append(("C33.every_scalar_once_in_place", "row %s#%d is reached %d times from the main table" % (
            t, i, visited[(t, i)])))
          break
  except Bad as e:
    out.append((e.clause, e.detail))
  return out


# ---------------------------------------------------------------------------------------------
# includes / excludes

def included(path, incs, excs):
  return (any(path.startswith(i) for i in incs) if incs else True) and \
      not any(path.startswith(e) for e in excs)


def restrict(tables, incs, excs):
  out = []
  for t in tables:
    name = t["table_name"]
    if not included(name, incs, excs): continue
    meta, data, back = [], [], None
    for m, c in zip(t["column_metadata"], t["table_data"]):
      p = backref_parent(name, m["id"], m["type"])
      if p is not None:
        if included(p, incs, excs): back = (p, m, c)
        continue
      if included(name + '_' + m["id"], incs, excs):
        meta.append(dict(m)); data.append(list(c))
    if back is not None:
      p, m, c = back
      ids = set(x["id"] for x in meta)
      cid = next(n for n in itertools.chain([p], ("%s%d" % (p, i) for i in itertools.count(2)))
                 if n not in ids)
      meta.append({"id": cid, "type": m["type"]}); data.append(list(c))
    out.append({"column_metadata": meta, "table_data": data, "table_name": name})
  return out


def verify_filtered(a, res):
  incs = [x for x in a["includes"].split(';') if x]
  excs = [x for x in a["excludes"].split(';') if x]
  want = restrict(res["plain"], incs, excs)
  got = res["filtered"]
  if got == want:
    return []
  gn, wn = [t["table_name"] for t in got], [t["table_name"] for t in want]
  if gn != wn:
    return [("C33.includes_excludes", "tables %r, expected %r" % (gn, wn))]
  for g, w in zip(got, want):
    if g != w:
      return [("C33.includes_excludes", "table %r: %r, expected %r" % (
        g["table_name"], (g["column_metadata"], g["table_data"]), (w["column_metadata"], w["table_data"])))]
  return [("C33.includes_excludes", "differs")]


# ---------------------------------------------------------------------------------------------
# known defect shapes, computed from the input

def shapes(a):
  """-> {shape name: set of (table, key) columns that have the shape} for the known defect shapes
  present in the input document."""
  data, name = a["data"], a["name"]
  top = data if isinstance(data, list) else [data]
  kinds = collections.defaultdict(set)        # (table, key) -> kinds of values seen
  order = collections.defaultdict(list)       # ... in row order, arrays left out
  paths = collections.defaultdict(set)        # table name -> key paths leading to it
  via = collections.defaultdict(set)          # table name -> (parent table, key) leading to it
  def visit(t, v, path):
    paths[t].add(path)
    d = v if isinstance(v, dict) else {'': v}
    for k, x in d.items():
      kind = "obj" if isinstance(x, dict) else "list" if isinstance(x, list) else \
          "null" if x is None else "val"
      kinds[(t, k)].add(kind)
      if kind != "list": order[(t, k)].append(kind)     # array elements put nothing in the column
      if kind in ("obj", "list"): via[t + '_' + k].add((t, k))
      if isinstance(x, dict): visit(t + '_' + k, x, path + (k,))
      elif isinstance(x, list):
        for e in x: visit(t + '_' + k, e, path + (k,))
  for v in top: visit(name, v, ())
  out = collections.defaultdict(set)
  for t, ps in paths.items():
    if len(ps) > 1:
      out["table-name-collision"] |= via[t]
  for key, ks in kinds.items():
    if "obj" in ks and "val" in ks:
      out["object-and-scalar-under-one-key"].add(key)
    if "obj" in ks and order[key][0] == "null":
      out["null-before-object-under-one-key"].add(key)
  return out


PRIORITY = ["table-name-collision", "object-and-scalar-under-one-key",
            "null-before-object-under-one-key"]


def classify(a, clause, detail):
  """A reconstruction failure is attributed to a known shape only if the import agrees with the
  input everywhere outside the columns that have a known shape."""
  sh = shapes(a)
  if clause == "C33.includes_excludes":
    return "collision+filter" if "table-name-collision" in sh else clause
  if clause in ("C33.rows_and_subtables", "C33.every_scalar_once_in_place") and sh:
    tainted = frozenset(itertools.chain.from_iterable(sh.values()))
    data, name = a["data"], a["name"]
    top = data if isinstance(data, list) else [data]
    try:
      tabs = index_tables(call(a)["plain"])
      main, _ = decode(tabs, name, len(top), tainted)
      if first_diff(main, [nf_row(v, name, tainted) for v in top]) is None:
        return [p for p in PRIORITY if p in sh][0]
    except Bad:
      pass
    return "unexplained"
  return clause


# ---------------------------------------------------------------------------------------------

_cache = {}

def _failures(a, res):
  hit = _cache.get("k")
  if hit is not None and hit[0] is res:
    return hit[1]
  fs = verify_plain(a, res["plain"])
  if res["filtered"] is not None:
    fs = fs + verify_filtered(a, res)
  _cache["k"] = (res, fs)
  return fs


CLAUSES = ("C33.columns_rectangular", "C33.rows_and_subtables", "C33.every_scalar_once_in_place",
           "C33.includes_excludes")


def _clause(name):
  def pred(a, res):
    for c, detail in _failures(a, res):
      if c == name: return detail
    return True
  return pred


def nontrivial(a, r, exc):
  return a["data"] not in ([], {}, None)


CONTRACT = fn.FnContract(
  name="imports.import_json.dumps",
  call=call,
  ensures={c: _clause(c) for c in CLAUSES},
  raises={},
  classify=classify, nontrivial=nontrivial,
  show=lambda a: a)


# ---------------------------------------------------------------------------------------------
# the bound

KEYS = ['a', 'b', 'a_b', '']
SC_QUICK = [1, "x", None]
SC_FULL = [1, 1.5, "x", True, None]


def values(depth, scalars, maxkeys=2, maxlist=2, sub=None):
  """All JSON values of nesting depth <= depth: scalars, objects with <= maxkeys keys of KEYS,
  arrays with <= maxlist elements (sub: the values allowed one level down)."""
  if depth == 0:
    return list(scalars)
  if sub is None:
    sub = values(depth - 1, scalars, maxkeys, maxlist)
  out = list(scalars)
  for nk in range(maxkeys + 1):
    for ks in itertools.combinations(KEYS, nk):
      for vs in itertools.product(sub, repeat=nk):
        out.append(dict(zip(ks, vs)))
  for n in range(maxlist + 1):
    for vs in itertools.product(sub, repeat=n):
      out.append(list(vs))
  return out


def option_sets(rng, data, name):
  """Includes/excludes built from prefixes of the table / property paths of this document."""
  top = data if isinstance(data, list) else [data]
  paths = []
  def visit(t, v):
    if t not in paths: paths.append(t)
    d = v if isinstance(v, dict) else {'': v}
    for k, x in d.items():
      p = t + '_' + k
      if p not in paths: paths.append(p)
      if isinstance(x, dict): visit(p, x)
      elif isinstance(x, list):
        for e in x: visit(p, e)
  for v in top: visit(name, v)
  if not paths: paths.append(name)
  def pick():
    p = rng.choice(paths)
    k = rng.random()
    return p if k < 0.7 else p[:max(1, len(p) - 1)] if k < 0.85 else p + "_"
  opts = []
  for _ in range(2):
    k = rng.randrange(4)
    if k == 0: opts.append((pick(), ""))
    elif k == 1: opts.append(("", pick()))
    elif k == 2: opts.append((pick(), pick()))
    else: opts.append((pick() + ";" + pick(), pick() + ";;" + pick()))
  return opts


def rand_value(rng, depth):
  k = rng.random()
  if depth == 0 or k < 0.3:
    return rng.choice([1, 0, -2, 1.5, "x", "", "a_b", True, False, None])
  if k < 0.7:
    return {key: rand_value(rng, depth - 1)
            for key in rng.sample(KEYS + ['c', 'a_b_c', 'b_'], rng.randint(0, 3))}
  return [rand_value(rng, depth - 1) for _ in range(rng.randint(0, 3))]


def cases(tier, seed):
  quick = tier == "quick"
  sc = SC_QUICK if quick else SC_FULL
  rng = random.Random(104729 * seed + 33)
  v1, v2 = values(1, sc), values(2, sc)
  names = ["", "a"]
  def with_options(data):
    for name in names:
      yield {"data": data, "name": name, "includes": "", "excludes": ""}
    name = rng.choice(names + ["t"])
    for inc, exc in option_sets(rng, data, name):
      yield {"data": data, "name": name, "includes": inc, "excludes": exc}
  # (E1) every value of depth <= 2 as the document (a non-list document is one row)
  for v in v2:
    for c in with_options(v): yield c
  # (E2) every list of two depth-<=1 values
  for x in v1:
    for y in v1:
      for c in with_options([x, y]): yield c
  # (E3) every pair (both orders) of a depth-<=1 value and a narrow depth-<=2 value: the same key
  #      holding a scalar in one item and an object / array in the other
  n1 = values(1, sc, 1, 1)
  n2 = values(2, sc, 1, 1)
  for x in v1:
    for y in n2:
      for c in with_options([x, y]): yield c
      for c in with_options([y, x]): yield c
  # (E4) every object of depth 3 with <= 2 keys over narrow depth-<=2 values: nested paths that
  #      spell the same table name (a -> b and a_b)
  for v in values(3, [], 2, 0, sub=n2):
    for c in with_options(v): yield c
  # (R) seeded random deeper documents
  for _ in range(20000 if quick else 300000):
    d = rand_value(rng, rng.choice([2, 3, 3, 4]))
    if rng.random() < 0.6 and not isinstance(d, list):
      d = [d] + [rand_value(rng, 3) for _ in range(rng.randint(0, 2))]
    for c in with_options(d): yield c


def main():
  rep = common.Report("C33", "exploration")
  quick = common.tier() == "quick"
  sc = SC_QUICK if quick else SC_FULL
  rep.assumptions += [
    "bounded, not a proof: exhaustive over the stated small documents, seeded sampling above that",
    "input documents are Python values as json.loads returns them (dict / list / str / int / float "
    "/ bool / None); json.loads itself is not under test",
    "null and [] carry no value: a null is indistinguishable from an absent key in the output and "
    "is not counted as a scalar; a non-object item or array element v is read as the row {'': v}",
    "the includes/excludes clause takes the unfiltered output of the same real function as the "
    "reference and the prefix rule of the module's own option description (tables and property "
    "paths <table>_<key>)",
  ]
  rep.coverage["rule"] = (
    "one evaluation = one dumps(data, name, options) call (plus the unfiltered call it is compared "
    "with) with all clauses checked; non-trivial = the document is not empty; distinct by the "
    "repr of the case")
  rep.coverage["bound"] = {
    "keys": KEYS, "scalars": sc,
    "exhaustive": "every JSON value of depth <= 2 (objects <= 2 keys, arrays <= 2 elements) as the "
                  "document, every two-item list of depth <= 1 values, every two-item list of a "
                  "depth <= 1 value and a narrow (<= 1 key, <= 1 element) depth <= 2 value in both "
                  "orders, every object with <= 2 keys over narrow depth <= 2 values; import names "
                  "'' and 'a', no options; plus 2 seeded include/exclude settings per document",
    "random": "%d seeded random documents to depth 4" % (20000 if quick else 300000)}
  driver.check(rep, CONTRACT, cases, exhaustive=False)
  rep.coverage["exhaustive"] = False
  return rep.finish()


if __name__ == "__main__":
  sys.exit(main())
