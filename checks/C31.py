"""C31 Actions are marked direct only when the user asked for them — bounded run-time contract
(postcondition) on the real Engine.apply_user_actions.

Bundles of the bound: record edits (Add/BulkAdd/Update/BulkUpdate/Remove/BulkRemove/ReplaceTableData/
AddOrUpdate, temporary row ids, multi-action bundles) on ORDINARY user tables (not summary tables,
not metadata) of documents with formula columns, trigger-formula columns, summary tables and empty
columns (isFormula=True, formula='').  Each stored action of the reply is classified against the
bundle's user actions, from the statement:

  C31.parallel          len(direct) == len(stored) and every flag is a bool        [every bundle]
  C31.calc_not_direct   a stored record update on an ordinary table that only writes formula
                        columns, or trigger-formula columns (of non-reference type) the bundle did
                        not name, is non-direct
  C31.summary_rows_not_direct   every stored record action on a summary table is non-direct
  C31.empty_column_conversion_not_direct   every stored schema action and every stored action on a
                        _grist_* table is non-direct (in this bound they can only come from the
                        conversion of an empty column into a data column while data is entered)
  C31.user_edits_direct every stored Add/BulkAdd/Remove/BulkRemove/ReplaceTableData on an ordinary
                        table is direct; every stored record update on an ordinary table that writes
                        a plain data column (no formula) which the bundle's user actions name for
                        that table, with one of the values the user gave for it, is direct
Other bundles (15%: the general action mix, to move the schema around) only get C31.parallel."""
import os, sys
sys.path.insert(0, os.path.dirname(os.path.dirname(os.path.abspath(__file__))))
from vlib import common
from vlib.rtc import eng, explore, gen

_c = gen._col
gen.SEEDS.setdefault("empty_cols", [
  [["AddTable", "A", [_c("n", "Int"), _c("s", "Text"), _c("e", "Any", "", isFormula=True),
                      _c("e2", "Any", "", isFormula=True), _c("e3", "Text", "", isFormula=True),
                      _c("f", "Any", "$n + 1 if $n is not None else None"),
                      _c("t", "Int", "($t or 0) + 1", isFormula=False, recalcWhen=2)]]],
  [["UpdateRecord", "_grist_Tables_column", 8, {"recalcWhen": 2}]],   # A.t: on manual updates
  [["BulkAddRecord", "A", [None, None, None], {"n": [1, 2, 2], "s": ["a", "b", "a"]}]],
  [["CreateViewSection", 1, 0, "record", [3], None]],          # summary by s
])
gen.SEEDS.setdefault("summary_formulas", [
  [["AddTable", "A", [_c("cat", "Text"), _c("n", "Int"), _c("tags", "ChoiceList"),
                      _c("dbl", "Any", "$n * 2 if $n else 0"),
                      _c("e", "Any", "", isFormula=True)]],
   ["AddTable", "B", [_c("k", "Text"), _c("cnt", "Any", "len(A.lookupRecords(cat=$k))"),
                      _c("r", "Ref:A"), _c("rn", "Any", "$r.n")]]],
  [["BulkAddRecord", "A", [None, None, None, None],
    {"cat": ["x", "y", "x", ""], "n": [1, 2, 3, 4],
     "tags": [["L", "a"], ["L", "a", "b"], None, ["L"]]}],
   ["BulkAddRecord", "B", [None, None], {"k": ["x", "z"], "r": [1, 2]}]],
  [["CreateViewSection", 1, 0, "record", [2], None]],
  [["CreateViewSection", 1, 0, "record", [4], None]],
  [["CreateViewSection", 1, 0, "record", [2, 4], None]],
  [["CreateViewSection", 1, 0, "record", [], None]],
])

ALL_SEEDS = ("basic", "lookup", "summary", "trigger", "refs", "empty_cols", "summary_formulas",
             "choices")

RECORD_KINDS = ["add", "add", "bulk_add", "update", "update", "bulk_update", "remove", "bulk_remove",
                "add_temp", "upsert", "replace_data", "multi_rec"]
RECORD_ACTIONS = ("AddRecord", "BulkAddRecord", "UpdateRecord", "BulkUpdateRecord", "RemoveRecord",
                  "BulkRemoveRecord", "ReplaceTableData", "AddOrUpdateRecord", "BulkAddOrUpdateRecord")
SCHEMA_ACTIONS = ("AddColumn", "RemoveColumn", "RenameColumn", "ModifyColumn", "AddTable",
                  "RemoveTable", "RenameTable")


def table_kinds(e):
  """{tableId: 'summary' | 'ordinary'} from _grist_Tables."""
  return {t["tableId"]: ("summary" if t["summarySourceTable"] else "ordinary")
          for t in eng.meta_records(e, "_grist_Tables")}


def columns_info(e):
  """{(tableId, colId): (isFormula, formula)} from the engine's schema (== metadata, C08).  For a
  Ref/RefList DATA column the formula is reported as '<ref>' + formula: such columns also receive
  engine-maintenance writes (reference clearing when target rows go away, two-way reference
  syncing) which the statement does not classify, so the trigger-column rule does not apply."""
  out = {}
  for tid, t in e.schema.items():
    for cid, c in t.columns.items():
      out[(tid, cid)] = (c.isFormula, c.formula, c.type.startswith("Ref"))
  return out


def is_record_bundle(bundle, kinds):
  for a in bundle:
    if not (isinstance(a, list) and a and a[0] in RECORD_ACTIONS): return False
    if kinds.get(a[1]) != "ordinary": return False
  return True


def named_values(bundle):
  """{(table, col): [values the user gave]} over the bundle's user actions."""
  out = {}
  def put(t, c, vals): out.setdefault((t, c), []).extend(vals)
  for a in bundle:
    n, t = a[0], a[1]
    if n in ("AddRecord", "UpdateRecord"):
      for c, v in a[3].items(): put(t, c, [v])
    elif n in ("BulkAddRecord", "BulkUpdateRecord", "ReplaceTableData"):
      for c, v in a[3].items(): put(t, c, list(v))
    elif n == "AddOrUpdateRecord":
      for d in (a[2], a[3]):
        for c, v in d.items(): put(t, c, [v])
    elif n == "BulkAddOrUpdateRecord":
      for d in (a[2], a[3]):
        for c, v in d.items(): put(t, c, list(v))
  return out


def same_value(a, b):
  try:
    if isinstance(a, bool) != isinstance(b, bool): return False
    return a == b
  except Exception:
    return False


class C31Monitor(explore.Monitor):
  seeds = ALL_SEEDS
  length = 10

  def start(self, e, seed_name):
    return {"classes": {}}

  def finish(self, st, e):
    SINK.put(st["classes"])
    return []

  def gen_bundle(self, st, e, g):
    rng = g.rng
    if rng.random() < 0.15:
      return g.bundle(e)
    kinds = table_kinds(e)
    for _ in range(6):
      k = rng.choice(RECORD_KINDS)
      if k == "multi_rec":
        b = []
        for _ in range(rng.randint(2, 4)):
          a = g.action(e, rng.choice(["add", "update", "remove", "bulk_update", "bulk_add", "add_temp"]))
          b.extend(a[1] if isinstance(a, tuple) else [a])
      else:
        a = g.action(e, k)
        b = a[1] if isinstance(a, tuple) else [a]
      # enter data into an empty column now and then
      info = columns_info(e)
      for a in b:
        if a[0] in ("AddRecord", "UpdateRecord") and isinstance(a[3], dict) and rng.random() < 0.3:
          empties = [c for (t, c), (isf, f, _r) in info.items() if t == a[1] and isf and not f]
          if empties:
            a[3][rng.choice(empties)] = rng.choice([1, "x", 2.5, None, "", True, "2020-01-01"])
      if is_record_bundle(b, kinds):
        return b
    return g.bundle(e)

  def before(self, st, e, bundle):
    st["kinds"] = table_kinds(e)
    st["cols_pre"] = columns_info(e)
    st["in_bound"] = is_record_bundle(bundle, st["kinds"])

  def after(self, st, e, bundle, group, exc):
    if exc is not None:
      return []
    stored, direct = eng.stored_reprs(group), list(group.direct)
    if len(stored) != len(direct) or not all(isinstance(d, bool) for d in direct):
      return [("C31.parallel", {"stored": stored, "direct": direct})]
    if not st["in_bound"]:
      return []
    kinds = dict(st["kinds"]); kinds.update(table_kinds(e))
    pre, post = st["cols_pre"], columns_info(e)
    named = named_values(bundle)
    out = []
    def bad(clause, i, why):
      out.append((clause, {"index": i, "action": stored[i], "direct": direct[i], "why": why,
                           "stored": stored, "direct_flags": direct}))
    def count(what, i):
      key = "%s: %s" % (what, "direct" if direct[i] else "non-direct")
      st["classes"][key] = st["classes"].get(key, 0) + 1
    for i, a in enumerate(stored):
      name, t = a[0], a[1]
      if name in SCHEMA_ACTIONS or (isinstance(t, str) and t.startswith("_grist_")):
        count("schema/metadata action (empty-column conversion)", i)
        if direct[i]: bad("C31.empty_column_conversion_not_direct", i,
                          "schema / metadata action in a bundle of plain record edits")
        continue
      kind = kinds.get(t)
      if kind == "summary":
        count("record action on a summary table", i)
        if direct[i]: bad("C31.summary_rows_not_direct", i, "record action on a summary table")
        continue
      if kind != "ordinary":
        continue
      if name in ("AddRecord", "BulkAddRecord", "RemoveRecord", "BulkRemoveRecord", "ReplaceTableData"):
        count("rows added/removed on an ordinary table", i)
        if not direct[i]: bad("C31.user_edits_direct", i, "rows added/removed on an ordinary table")
        continue
      if name in ("UpdateRecord", "BulkUpdateRecord"):
        cols = a[3]
        def is_calc(c):
          isf, f, isref = post.get((t, c), (False, "", False))
          if isf: return True
          pisf, pf, _ = pre.get((t, c), (isf, f, isref))
          # trigger column, not named by the bundle (reference columns excepted, see columns_info)
          return bool(f) and bool(pf) and (t, c) not in named and not isref
        if cols and all(is_calc(c) for c in cols):
          count("formula-result update on an ordinary table", i)
          if direct[i]: bad("C31.calc_not_direct", i, "only formula / unnamed trigger columns")
          continue
        for c, v in cols.items():
          pisf, pf, _ = pre.get((t, c), (True, "x", False))
          isf, f, _ = post.get((t, c), (True, "x", False))
          if pisf or pf or isf or f or (t, c) not in named:
            continue                                                 # not a plain data column
          vals = v if name == "BulkUpdateRecord" else [v]
          if any(same_value(x, u) for x in vals for u in named[(t, c)]):
            count("update carrying the user's value on an ordinary table", i)
            if not direct[i]:
              bad("C31.user_edits_direct", i, "writes %s.%s with a value the user gave" % (t, c))
            break
        else:
          count("other update on an ordinary table (no obligation)", i)
    return out[:1]

  def nontrivial(self, st, bundle, group, exc):
    return bool(group and group.stored)

  def classify(self, clause, detail, bundle, history):
    a = detail.get("action") or ["?"]
    if clause == "C31.summary_rows_not_direct" and detail.get("direct") and len(a) > 3 and \
        a[0] in ("UpdateRecord", "BulkUpdateRecord") and isinstance(a[3], dict) and \
        any(b[0] in ("RemoveRecord", "BulkRemoveRecord") for b in (bundle or []) if b) and \
        all(v in (0, None) or (isinstance(v, list) and all(x in (0, None) for x in v))
            for v in a[3].values()):
      # the clean-up of references to removed rows reached a summary table whose group-by column
      # is itself a reference column
      return "%s: reference clean-up after a removal written to a summary table as direct" % clause
    return "%s: %s %s" % (clause, a[0], "direct" if detail.get("direct") else "non-direct")


from checks import C02
SINK = C02.StatSink("VERIF_C31_STATS")


def main():
  rep = common.Report("C31", "exploration")
  rep.assumptions += [
    common.SHIM_ASSUMPTION,
    "bounded: seeded random histories over 8 seed documents (two defined here: empty columns + "
    "trigger column + summary table; four summary tables incl. ChoiceList and two-column group-by + "
    "lookups); 85% of the bundles are record edits on ordinary user tables (the bound of the "
    "statement), 15% the general action mix (only C31.parallel is claimed for those); not a proof",
    "table kinds come from _grist_Tables.summarySourceTable, column kinds from Engine.schema "
    "(equal to the metadata by C08)",
    "stored updates of ordinary tables that write data columns the user did not name (position "
    "adjustments, two-way reference maintenance, reference clearing on removal) are not classified "
    "by the statement and carry no obligation"]
  rep.coverage["rule"] = ("one evaluation = one bundle applied to the real engine with every stored "
                          "action of the reply classified; non-trivial = the reply has stored "
                          "actions")
  C02.tune_explore(4)
  SINK.open()
  explore.explore(rep, "checks.C31", "C31Monitor", n_quick=160, budget_quick_s=30)
  rep.coverage["stored_actions_classified"] = SINK.total()
  return rep.finish()


if __name__ == "__main__":
  sys.exit(main())
