"""C20 Row positions stay unique and order-preserving — bounded run-time contract (tier B).

Three parts, all on the REAL code imported from common.REPO:
  1. function contract on relabeling.prepare_inserts, exhaustive over a stated finite pool of
     existing-position lists x request batches (adjacent-float clusters, 0, denormal min, 2**53
     neighbourhood, 1e308, negative, +-inf and duplicate requests);
  2. the same contract along seeded *insertion sequences* (the result of each call is applied and
     becomes the next call's existing list; requests hammer one place until floats run out, so the
     list-labelling relabelling paths are exercised with accumulated adjustments);
  3. engine-level invariant C20.position_columns_distinct and 2-state clause
     C20.existing_order_kept after every bundle of seeded random histories that write manualSort /
     PositionNumber cells (user tables and metadata tables), rename tables / position columns and
     crowd one place;
  4. the full 2-state contract (distinct + finite, existing order kept, new / moved rows at the
     requested place, request order kept) after every action of directed histories on position
     columns whose column object was rebuilt first (table renamed, renamed twice, rename undone,
     position column renamed / retyped and back, other column renamed / retyped / added / removed,
     document reloaded): mid-table inserts, ~60 inserts at one place (forces relabelling), moves.

The postcondition is written from the property statement (a specification over the returned
adjustments), not from the algorithm."""
import itertools
import math
import os
import random
import sys

sys.path.insert(0, os.path.dirname(os.path.dirname(os.path.abspath(__file__))))
from vlib import common
from vlib.rtc import fn

common.setup_grist_path()
import relabeling                                     # noqa: E402  real module
from sortedcontainers import SortedListWithKey        # noqa: E402

INF = float("inf")
TWO53 = 2.0 ** 53


def nextf(x, n=1):
  """The n-th representable float above x (x >= 0)."""
  if n > 4 and x >= 0:
    import struct
    return struct.unpack("<d", struct.pack("<q", struct.unpack("<q", struct.pack("<d", x))[0] + n))[0]
  for _ in range(n):
    x = math.nextafter(x, INF)
  return x


def prevf(x, n=1):
  for _ in range(n):
    x = math.nextafter(x, -INF)
  return x


# ---------------------------------------------------------------------------------------------
# the contract
# ---------------------------------------------------------------------------------------------

def call_prepare(existing, keys):
  """Calls the real prepare_inserts the way column.PositionColumn.prepare_new_values does: a
  SortedListWithKey of row ids keyed by their position.  Returns ("ok", adjustments, new_keys,
  list_after) or ("raised", exc)."""
  existing = list(existing)
  rows = SortedListWithKey(range(1, len(existing) + 1), key=lambda r: existing[r - 1])
  try:
    adj, new = relabeling.prepare_inserts(rows, list(keys))
  except Exception as e:                     # C20.total is a clause of the contract
    return ("raised", e)
  return ("ok", [tuple(p) for p in adj], list(new), list(rows), list(existing))


def valid_input(existing, keys):
  """requires: existing positions are finite floats in strictly increasing order (the invariant
  the property itself maintains for every position column); requests are floats, possibly
  +-inf, never NaN."""
  ex = list(existing)
  return (all(isinstance(x, float) and math.isfinite(x) for x in ex) and
          all(a < b for a, b in zip(ex, ex[1:])) and
          all(isinstance(k, float) and k == k for k in keys))


def spec_failures(existing, keys, out):
  """-> list of (clause, detail).  Specification from the statement:
     existing rows keep their order; all rows end with finite pairwise-distinct positions; each new
     row lies after every existing row whose old position is < its request and before every
     existing row whose old position is >= its request; new rows with different requests are
     ordered like their requests."""
  if out[0] == "raised":
    return [("C20.total", "raised %r" % (out[1],))]
  _, adj, new, rows_after, ex_after = out
  E, K = list(existing), list(keys)
  fails = []
  if rows_after != list(range(1, len(E) + 1)) or ex_after != E:
    fails.append(("C20.input_list_untouched", "sorted list changed to %r / %r" % (rows_after, ex_after)))
  idx = [p[0] for p in adj]
  if (len(new) != len(K) or any(len(p) != 2 for p in adj) or
      any(not isinstance(i, int) or i < 0 or i >= len(E) for i in idx) or len(set(idx)) != len(idx)):
    return fails + [("C20.result_shape", "adjustments %r, new keys %r for %d existing / %d requested"
                     % (adj, new, len(E), len(K)))]
  E2 = list(E)
  for i, k in adj:
    E2[i] = k
  allv = E2 + new
  if not all(isinstance(v, (int, float)) and not isinstance(v, bool) and math.isfinite(v)
             for v in allv):
    fails.append(("C20.all_finite_distinct", "non-finite position in existing'=%r new=%r" % (E2, new)))
    return fails
  if len(set(allv)) != len(allv):
    fails.append(("C20.all_finite_distinct", "duplicate position in existing'=%r new=%r" % (E2, new)))
  for i in range(len(E2) - 1):
    if not E2[i] < E2[i + 1]:
      fails.append(("C20.existing_order_kept", "existing rows %d,%d: %r !< %r" % (i, i + 1, E2[i], E2[i + 1])))
      break
  done = False
  for j, k in enumerate(K):
    for i, old in enumerate(E):
      ok = (E2[i] < new[j]) if old < k else (new[j] < E2[i])
      if not ok:
        fails.append(("C20.new_at_requested_place",
                      "request %r got %r; existing row %d had %r, now %r" % (k, new[j], i, old, E2[i])))
        done = True
        break
    if done:
      break
  done = False
  for j1 in range(len(K)):
    for j2 in range(len(K)):
      if K[j1] < K[j2] and not new[j1] < new[j2]:
        fails.append(("C20.new_keep_request_order",
                      "requests %r < %r got %r, %r" % (K[j1], K[j2], new[j1], new[j2])))
        done = True
        break
    if done:
      break
  return fails


CLAUSES = ("C20.total", "C20.input_list_untouched", "C20.result_shape", "C20.all_finite_distinct",
           "C20.existing_order_kept", "C20.new_at_requested_place", "C20.new_keep_request_order")


MIN_NORMAL = sys.float_info.min          # 2.2250738585072014e-308


def _insert_predecessors(E, K):
  """The existing position immediately before each requested place (spec of 'where the request
  falls': first existing row whose position is >= the request)."""
  out = []
  for k in K:
    before = [x for x in E if x < k]
    if before: out.append(before[-1])
  return out


def _raised_at(exc):
  """Which statement of relabeling.py raised: '<function>:<tag>'."""
  import traceback
  tb = traceback.extract_tb(exc.__traceback__)
  fr = [f for f in tb if os.path.basename(f.filename) == "relabeling.py"]
  if not fr: return "?"
  f = fr[-1]
  line = (f.line or "").replace(" ", "")
  if line.startswith("assertis_valid_range(begin,self._insertions.irange(begin,end),end)"):
    return "%s:final-is_valid_range" % f.name
  return "%s:%s" % (f.name, line[:60])


def _ordinal(x):
  import struct
  return struct.unpack("<q", struct.pack("<d", x))[0]


def _crowded_place(E, K):
  """True when some place requested by the batch lies between two neighbours (0.0 before the
  first row) with fewer representable floats strictly between them than rows requested there."""
  import bisect
  places = {}
  for k in K:
    places[bisect.bisect_left(E, k)] = places.get(bisect.bisect_left(E, k), 0) + 1
  for idx, count in places.items():
    if idx >= len(E): continue
    lo = E[idx - 1] if idx > 0 else 0.0
    hi = E[idx]
    if lo >= 0 and hi > 0 and _ordinal(hi) - _ordinal(lo) - 1 < count:
      return True
  return False


def failure_class(existing, keys, clause, out):
  """Canonical failure class, computed from the failing input."""
  E, K = list(existing), list(keys)
  if clause == "C20.total":
    exc = out[1] if out and out[0] == "raised" else None
    name = type(exc).__name__ if exc is not None else "?"
    if name == "AssertionError" and E and E[-1] >= TWO53 and any(k > E[-1] for k in K):
      return "append-after-position>=2**53"
    if name == "AssertionError" and any(0.0 < b < MIN_NORMAL for b in _insert_predecessors(E, K)):
      return "insert-right-after-subnormal-position"
    if name == "AssertionError" and _raised_at(exc) == "prep_inserts_at_index:final-is_valid_range" \
        and _crowded_place(E, K):
      return "crowded-neighbours:relabelled-key-equals-old-neighbour-position"
    return "raised-%s" % name
  return clause.split(".", 1)[1]


# -- part 1: single calls -------------------------------------------------------------------------

def _single_call(a):
  out = call_prepare(a["existing"], a["keys"])
  fails = spec_failures(a["existing"], a["keys"], out)
  return {"out": out, "fails": fails,
          "cls": {c: failure_class(a["existing"], a["keys"], c, out) for c, _ in fails}}


_REPORTED = {}      # per worker process: (clause, class) -> failures already handed to fn.check


def _clause(name):
  """fn.check keeps at most 40 failure records per worker, so the hundreds of inputs of one
  already-reported (clause, class) must not crowd out a different class: each (clause, class) is
  handed over at most 3 times per worker process (48 records per run); further failures of the
  same class are not re-reported."""
  def pred(a, r):
    for c, d in r["fails"]:
      if c == name:
        cls = r["cls"].get(name, name)
        _REPORTED[(c, cls)] = _REPORTED.get((c, cls), 0) + 1
        if _REPORTED[(c, cls)] > 3:
          return True
        return "[class=%s] %s" % (cls, d)
    return True
  return pred


def _classify(a, clause, detail):
  d = str(detail)
  if d.startswith("[class="):
    return d[len("[class="):d.index("]")]
  return clause


def _relabelled(a, r, exc):
  """non-trivial = the batch is non-empty and the call had to move at least one existing row
  (relabelling) or raised."""
  if r is None:
    return False
  out = r["out"]
  return out[0] == "raised" or (len(out[2]) > 0 and len(out[1]) > 0)


def pools(tier):
  cluster = [nextf(1.0, i) for i in range(8)] + [nextf(1.0, 256), nextf(1.0, 257)]
  base = [0.0, 5e-324, 1e-323, -1.0, 0.5, 2.0, TWO53 - 1, TWO53, 1e308]
  X = sorted(set(base + cluster))
  K = X + [INF, -INF]
  return X, K


def single_cases(tier, seed):
  X, K = pools(tier)
  if tier == "quick":
    shape = [(0, 3), (1, 3), (2, 2), (3, 2), (4, 1)]       # (existing size, max batch size)
  else:
    shape = [(0, 3), (1, 3), (2, 3), (3, 3), (4, 2)]
  # family "straddle": two runs of adjacent floats meeting at a 2**a-ulp boundary above 1.0 (so the
  # relabelling blocks of the two places differ and the second relabelling re-adjusts rows already
  # adjusted by the first), every pair of one place in the left run and one in the right run
  for a in range(3, 13):
    for L in range(1, 5):
      for R in range(1, 15 if tier == "quick" else 25):
        E = tuple([nextf(1.0, 2 ** a - L + i) for i in range(L)] +
                  [nextf(1.0, 2 ** a + i) for i in range(R)])
        for i in range(L):
          for j in range(L, L + R):
            yield {"existing": E, "keys": (E[i], E[j])}
            if (i + j) % 3 == 0:
              yield {"existing": E, "keys": (E[j], E[i], E[j])}
  for n, mmax in shape:
    for E in itertools.combinations(X, n):
      for m in range(0, mmax + 1):
        for B in itertools.product(K, repeat=m):
          yield {"existing": E, "keys": B}
  if tier == "thorough":
    # sampled: dense cluster of 64 adjacent floats + the specials, lists <= 6, batches <= 3
    rng = random.Random(1000 + seed)
    for base in (1.0, 5e-324, 1e-300, 4096.0, 2.0 ** 52, TWO53 - 70):
      cl = [nextf(base, i) for i in range(64)]
      pool = sorted(set(cl + [x for x in X if x < TWO53 or base > 2.0 ** 52]))
      kp = pool + [INF, -INF]
      for _ in range(300000):
        n = rng.randint(0, 6)
        E = tuple(sorted(rng.sample(pool, n)))
        B = tuple(rng.choice(kp) for _ in range(rng.randint(1, 3)))
        yield {"existing": E, "keys": B}


# -- part 2: insertion sequences -------------------------------------------------------------------

def _start_list(rng):
  kind = rng.choice(["empty", "one", "ints", "cluster", "cluster", "denormal", "top"])
  if kind == "empty": return []
  if kind == "one": return [rng.choice([1.0, 0.5, 5e-324, 1e-300, 4096.0, 0.0, -2.0])]
  if kind == "ints": return [float(i) for i in range(1, rng.randint(2, 12))]
  if kind == "denormal": return [5e-324 * i for i in range(rng.choice([0, 1]), rng.randint(2, 20))]
  if kind == "top": return [TWO53 - 1 - 2.0 * i for i in range(rng.randint(1, 6))][::-1]
  base = rng.choice([1.0, 1e-300, 4096.0, 2.0 ** 52, 0.75, 3.0])
  n = rng.randint(2, 64)
  gaps = rng.choice([[1], [1, 1, 2], [1, 3, 17]])
  out, x = [], base
  for _ in range(n):
    out.append(x)
    x = nextf(x, rng.choice(gaps))
  return out


def _batch(rng, cur, mode, target):
  m = rng.choice([1, 1, 1, 2, 3, 5]) if mode != "random" else rng.randint(1, 3)
  if mode == "spots": m = rng.choice([2, 3, 3, 6])
  out = []
  for _ in range(m):
    if not cur:
      out.append(rng.choice([INF, -INF, 0.0, 1.0]))
    elif mode == "before":
      out.append(cur[min(target, len(cur) - 1)])
    elif mode == "after":
      out.append(nextf(cur[min(target, len(cur) - 1)]))
    elif mode == "spots":          # several crowded places in one batch (re-adjusts earlier adjustments)
      out.append(cur[min(target + 5 * (len(out) % 3), len(cur) - 1)])
    elif mode == "append":
      out.append(INF)
    elif mode == "prepend":
      out.append(-INF)
    else:
      x = rng.choice(cur)
      out.append(rng.choice([x, nextf(x), prevf(x), INF, -INF, 0.0, (x + rng.choice(cur)) / 2, -x]))
  return out


def _sequence_call(a):
  rng = random.Random(a["rng"])
  cur = _start_list(rng)
  mode = rng.choice(["before", "after", "before", "after", "random", "append", "prepend", "spots",
                     "spots"])
  target = rng.randint(0, 70)
  relabels = 0
  res = {"fails": [], "cls": {}, "steps": 0, "relabels": 0, "out": None, "start": list(cur), "mode": mode}
  for step in range(a["steps"]):
    if rng.random() < 0.1:
      mode2 = "random"
    else:
      mode2 = mode
    K = _batch(rng, cur, mode2, target)
    if not valid_input(cur, K):
      res["fails"] = [("C20.harness", "harness produced an invalid input %r %r" % (cur, K))]
      res["cls"] = {"C20.harness": "harness"}
      return res
    out = call_prepare(cur, K)
    fails = spec_failures(cur, K, out)
    res["steps"] += 1
    if fails:
      res.update(fails=[(c, "at step %d: prepare_inserts(existing=%r, keys=%r): %s" % (step, cur, K, d))
                        for c, d in fails],
                 E=list(cur), K=list(K), out=out,
                 cls={c: failure_class(cur, K, c, out) for c, _ in fails})
      return res
    _, adj, new = out[:3]
    if adj: res["relabels"] += 1
    nxt = list(cur)
    for i, k in adj: nxt[i] = k
    cur = sorted(nxt + new)
  res["final_len"] = len(cur)
  return res


def sequence_cases(tier, seed):
  n = 1200 if tier == "quick" else 40000
  steps = 70 if tier == "quick" else 120
  for s in range(n):
    yield {"rng": seed * 1000003 + s, "steps": steps}


def _seq_nontrivial(a, r, exc):
  return r is not None and (r["relabels"] > 0 or bool(r["fails"]))


# -- part 3: engine-level invariant ----------------------------------------------------------------

# ---------------------------------------------------------------------------------------------
# Moves of existing rows into crowded gaps (through the engine).
def _move_cases(tier, seed):
  crowd = (0, 3, 51, 53, 56) if tier == "quick" else (0, 1, 3, 20, 48, 50, 51, 52, 53, 54, 56, 60)
  for k in crowd:                       # number of rows squeezed in right before row 3
    for mover in (1, 2, 4, "last-inserted"):
      for target in (3, 2, "end", "same"):
        yield dict(crowd=k, mover=mover, target=target)


def _move_call(a):
  from vlib.rtc import eng
  e = eng.new_engine()
  eng.apply(e, [["AddTable", "T", [{"id": "a", "type": "Int", "isFormula": False, "formula": ""}]],
                ["BulkAddRecord", "T", [None] * 4, {"a": [1, 2, 3, 4]}]])
  def positions():
    td = e.fetch_table("T")
    return dict(zip(td.row_ids, td.columns["manualSort"]))
  for i in range(a["crowd"]):           # each insert goes right before row 3: halves the gap
    eng.apply(e, [["AddRecord", "T", None, {"manualSort": positions()[3]}]])
  before = positions()
  mover = max(before) if a["mover"] == "last-inserted" else a["mover"]
  if a["target"] == "end": want = float("inf")
  elif a["target"] == "same": want = before[mover]
  else: want = before[a["target"]]
  eng.apply(e, [["UpdateRecord", "T", mover, {"manualSort": want}]])
  return dict(before=before, after=positions(), mover=mover, want=want)


def _order(pos, skip=None):
  return [r for r, _ in sorted(pos.items(), key=lambda kv: (kv[1], kv[0])) if r != skip]


def _e_move_order(a, r):
  if _order(r["before"], r["mover"]) != _order(r["after"], r["mover"]):
    return "rows other than the moved one changed order: %r -> %r" % (
      _order(r["before"], r["mover"]), _order(r["after"], r["mover"]))
  return True


def _e_move_place(a, r):
  """The moved row goes where its requested position falls among the OTHER rows (before rows
  whose old position equals the request)."""
  others = _order(r["before"], r["mover"])
  expected_next = [x for x in others if r["before"][x] >= r["want"]]
  seq = _order(r["after"])
  i = seq.index(r["mover"])
  got_next = seq[i + 1] if i + 1 < len(seq) else None
  want_next = expected_next[0] if expected_next else None
  if got_next != want_next:
    return "moved row %r landed before %r, requested position %r falls before %r" % (
      r["mover"], got_next, r["want"], want_next)
  return True


def _e_move_distinct(a, r):
  vals = list(r["after"].values())
  if len(set(vals)) != len(vals): return "duplicate positions after the move"
  if any(v != v or v in (float("inf"), float("-inf")) for v in vals): return "non-finite position"
  return True


# ---------------------------------------------------------------------------------------------
# Position columns that were REBUILT (table renamed, column renamed, retyped, document reloaded,
# rename undone, ...) and are then used: mid-table inserts, enough inserts at one place to force
# relabelling, a move and an append.  2-state contract on Engine.apply_user_actions, checked
# after EVERY action, on every position column of the table.
POS_PREFIXES = ("none", "rename_table", "rename_table_twice", "rename_table_undone", "rename_position_column",
                "rename_other_column", "retype_other_column", "add_column", "remove_column", "reload",
                "retype_position_column_and_back")
POS_MID = ("none", "two-mid", "bulk-mid", "mid+remove")


def _poshist_cases(tier, seed):
  for prefix in POS_PREFIXES:
    for col in ("manualSort", "pos"):
      if prefix == "rename_position_column" and col != "pos": continue
      if prefix == "retype_position_column_and_back" and col != "pos": continue
      for mi, mid in enumerate(POS_MID):
        for si, spot in enumerate(("middle", "first", "inserted")):
          if tier == "quick" and si and (si + mi + seed) % 2:
            continue              # quick: the middle place always, one of the two others per pattern
          yield dict(prefix=prefix, col=col, mid=mid, spot=spot,
                     crowd=58 if tier == "quick" else 110)


def _table_positions(e, t):
  """{col_id: {row_id: value}} for every position column of table t (engine's own schema)."""
  td = e.fetch_table(t)
  return {c: dict(zip(td.row_ids, td.columns[c])) for (tt, c) in position_columns(e) if tt == t}


def _step_failures(before, after, requests):
  """Specification of one step, from the statement, for one position column.
     before/after: {row: position}; requests: {row: requested position} for the rows the step
     added or moved (a new row without an explicit request asks for +inf = the end).
     - all positions finite and pairwise distinct;
     - rows that were there before (and were not moved by the step) keep their relative order;
     - every added / moved row lies after every such row whose OLD position is < its request and
       before every such row whose old position is >= its request;
     - added rows with different requests are ordered like their requests."""
  fails = []
  vals = list(after.values())
  if not all(isinstance(v, (int, float)) and not isinstance(v, bool) and math.isfinite(v) for v in vals):
    return [("C20.all_finite_distinct", "non-finite position: %r" % (after,))]
  if len(set(vals)) != len(vals):
    dup = sorted(v for v in set(vals) if vals.count(v) > 1)
    fails.append(("C20.all_finite_distinct", "duplicate positions %r" % (dup[:4],)))
  kept = [r for r in before if r in after and r not in requests]
  o1 = sorted(kept, key=lambda r: (before[r], r))
  o2 = sorted(kept, key=lambda r: (after[r], r))
  if o1 != o2:
    i = [x != y for x, y in zip(o1, o2)].index(True)
    fails.append(("C20.existing_order_kept", "rows kept from before changed order: %r... -> %r..."
                  % (o1[max(0, i - 2):i + 4], o2[max(0, i - 2):i + 4])))
  for r, k in requests.items():
    if r not in after: continue
    bad = [x for x in kept if not ((after[x] < after[r]) if before[x] < k else (after[r] < after[x]))]
    if bad:
      fails.append(("C20.new_at_requested_place",
                    "row %r requested %r got %r; row %r had %r, now %r" %
                    (r, k, after[r], bad[0], before[bad[0]], after[bad[0]])))
      break
  rr = sorted(requests.items(), key=lambda kv: kv[1])
  for (r1, k1), (r2, k2) in zip(rr, rr[1:]):
    if k1 < k2 and r1 in after and r2 in after and not after[r1] < after[r2]:
      fails.append(("C20.new_keep_request_order", "requests %r < %r got %r, %r" % (k1, k2, after[r1], after[r2])))
      break
  return fails


def _poshist_call(a):
  from vlib.rtc import eng
  import engine as _engine
  e = eng.new_engine()
  eng.apply(e, [["AddTable", "T", [{"id": "a", "type": "Int", "isFormula": False, "formula": ""},
                                   {"id": "b", "type": "Text", "isFormula": False, "formula": ""},
                                   {"id": "pos", "type": "PositionNumber", "isFormula": False, "formula": ""}]],
                ["BulkAddRecord", "T", [None] * 5, {"a": [1, 2, 3, 4, 5]}]])
  S = {"e": e, "t": "T", "col": a["col"], "log": [], "fails": [], "steps": 0, "relabels": 0}

  def step(action, new_requests=None, moved=None):
    """Applies one action; new_requests: list of requested positions of the rows it adds (None =
    no explicit request); moved: {row: request}."""
    e, t = S["e"], S["t"]
    before = _table_positions(e, t)
    S["log"].append(action)
    try:
      group = eng.apply(e, [action])
    except Exception as ex:
      S["fails"].append(("C20.total", "step %d %r raised %r" % (S["steps"], action, ex)))
      return False
    S["steps"] += 1
    if action[0] == "RenameTable": S["t"] = action[2]
    if action[0] == "ApplyUndoActions": S["t"] = "T"
    after = _table_positions(e, S["t"])
    added = []
    if new_requests is not None:
      rv = group.retValues[0]
      added = list(rv) if isinstance(rv, (list, tuple)) else [rv]
    for c in after:
      if c not in before: continue
      req = {}
      for r, k in zip(added, new_requests or []):
        req[r] = k if (c == S["col"] and k is not None) else INF
      for r, k in (moved or {}).items():
        if c == S["col"]: req[r] = k
      if sum(1 for r in before[c] if r in after[c] and r not in req and before[c][r] != after[c][r]):
        S["relabels"] += 1
      fs = _step_failures(before[c], after[c], req)
      if fs:
        S["fails"] += [(cl, "step %d %r, column %s: %s" % (S["steps"] - 1, action, c, d)) for cl, d in fs]
        return False
    return True

  def plain(*actions):                          # schema-level prefix actions: order and values kept
    for act in actions:
      if not step(act): return False
    return True

  def pos_of(r):
    return _table_positions(S["e"], S["t"])[S["col"]][r]

  p = a["prefix"]
  ok = True
  if p == "rename_table":
    ok = plain(["RenameTable", "T", "Renamed"])
  elif p == "rename_table_twice":
    ok = plain(["RenameTable", "T", "Renamed"], ["RenameTable", "Renamed", "T"])
  elif p == "rename_table_undone":
    g = eng.apply(e, [["RenameTable", "T", "Renamed"]])
    S["log"].append(["RenameTable", "T", "Renamed"])
    S["t"] = "Renamed"
    ok = plain(["ApplyUndoActions", eng.undo_reprs(g)])
  elif p == "rename_position_column":
    ok = plain(["RenameColumn", "T", "pos", "place"]); S["col"] = "place"
  elif p == "rename_other_column":
    ok = plain(["RenameColumn", "T", "a", "a2"])
  elif p == "retype_other_column":
    ok = plain(["ModifyColumn", "T", "a", {"type": "Text"}])
  elif p == "add_column":
    ok = plain(["AddColumn", "T", "z", {"type": "Any", "isFormula": True, "formula": "$a"}])
  elif p == "remove_column":
    ok = plain(["RemoveColumn", "T", "b"])
  elif p == "retype_position_column_and_back":
    ok = plain(["ModifyColumn", "T", "pos", {"type": "Numeric"}])
    if ok:
      # while the column is Numeric it is not a position column: no clause applies to this step
      eng.apply(e, [["ModifyColumn", "T", "pos", {"type": "PositionNumber"}]])
      S["log"].append(["ModifyColumn", "T", "pos", {"type": "PositionNumber"}])
  elif p == "reload":
    f = _engine.Engine()
    rest = f.load_meta_tables(e.fetch_table("_grist_Tables"), e.fetch_table("_grist_Tables_column"))
    for t in rest:
      f.load_table(e.fetch_table(t, formulas=False))
    f.load_done()
    S["e"] = e = f
    S["log"].append("<document reloaded into a fresh engine>")
  t = S["t"]

  def insert_before(row):
    return step(["AddRecord", S["t"], None, {S["col"]: pos_of(row)}], new_requests=[pos_of(row)])

  if ok and a["mid"] == "two-mid":
    ok = insert_before(2) and insert_before(4)
  elif ok and a["mid"] == "bulk-mid":
    ks = [pos_of(2), pos_of(2), pos_of(5)]
    ok = step(["BulkAddRecord", t, [None] * 3, {S["col"]: ks}], new_requests=ks)
  elif ok and a["mid"] == "mid+remove":
    ok = insert_before(3) and step(["RemoveRecord", t, 2]) and step(["AddRecord", t, None, {}], new_requests=[None])
  rows = sorted(_table_positions(S["e"], t)[S["col"]])
  order = sorted(rows, key=pos_of) if ok else rows
  target = {"middle": 3, "first": order[0], "inserted": max(rows)}[a["spot"]]
  i = 0
  while ok and i < a["crowd"]:
    if i % 19 == 18:                          # now and then two rows at the place in one action
      k = pos_of(target)
      ok = step(["BulkAddRecord", t, [None, None], {S["col"]: [k, k]}], new_requests=[k, k]); i += 2
    else:
      ok = insert_before(target); i += 1
  if ok:                                       # a move into the crowded place, a move to the end, an append
    k = pos_of(target)
    ok = step(["UpdateRecord", t, 1, {S["col"]: k}], moved={1: k})
  if ok:
    ok = step(["UpdateRecord", t, target, {S["col"]: INF}], moved={target: INF})
  if ok:
    ok = step(["AddRecord", t, None, {}], new_requests=[None])
  return {"fails": S["fails"], "steps": S["steps"], "relabels": S["relabels"],
          "history": S["log"] if S["fails"] else None}


POSHIST_CLAUSES = ("C20.total", "C20.all_finite_distinct", "C20.existing_order_kept",
                   "C20.new_at_requested_place", "C20.new_keep_request_order")


def _poshist_clause(name):
  def pred(a, r):
    for c, d in r["fails"]:
      if c == name: return d
    return True
  return pred


def _poshist_classify(a, clause, detail):
  return "engine-history:%s" % clause.split(".", 1)[1]


def _monitor_base():
  from vlib.rtc import explore
  return explore.Monitor


def position_columns(e):
  """[(table_id, col_id)] of every ManualSortPos / PositionNumber data column, from the engine's
  own schema."""
  out = []
  for t, tab in sorted(e.schema.items()):
    for c in tab.columns.values():
      if c.type in ("ManualSortPos", "PositionNumber") and not c.isFormula:
        out.append((t, c.colId))
  return out


REQ_POOL = [0.0, -1.0, 1.0, 2.0, 0.5, 1e16, 1e308, 5e-324, INF, -INF, None, 3]


class PositionsMonitor(_monitor_base()):
  """invariant after every bundle (successful or failed):
       C20.position_columns_distinct: in every table, every ManualSortPos / PositionNumber column
       holds pairwise-distinct values (observed through fetch_table);
     2-state clause after every bundle:
       C20.existing_order_kept: in every position column (followed through table / column renames
       by its metadata refs), the rows that were there before the bundle and whose position the
       bundle did not write explicitly keep their relative order;
     closing probe of every history (finish): PROBE_INSERTS single inserts at one place of one
       table, the full 2-state contract of part 4 after each (C20.total / all_finite_distinct /
       existing_order_kept / new_at_requested_place)."""
  seeds = ("basic", "refs")
  length = 5
  weights = {"add": 14, "bulk_add": 10, "remove": 8, "bulk_remove": 4, "add_col": 6, "remove_col": 4,
             "add_table": 3, "replace_data": 2, "view": 3, "summary": 2, "modify_formula": 1,
             "add_formula_col": 2, "modify_type": 2, "rename_col": 2, "rename_table": 3, "multi": 4}

  def start(self, e, seed_name):
    return {"crowd": None, "tainted": [], "renames": 0}

  def _keyed_positions(self, e):
    """{key: (table_id, col_id, {row: value})}; key = (table ref, column ref) from the metadata for
    user tables (stable under renames), (table id, col id) for metadata tables."""
    from vlib.rtc import eng
    trefs = {t["tableId"]: t["id"] for t in eng.meta_records(e, "_grist_Tables")}
    crefs = {(c["parentId"], c["colId"]): c["id"] for c in eng.meta_records(e, "_grist_Tables_column")}
    out = {}
    for (t, c) in position_columns(e):
      if t not in e.tables: continue
      td = e.fetch_table(t)
      if c not in td.columns: continue
      key = (t, c) if t.startswith("_grist_") else (trefs.get(t), crefs.get((trefs.get(t), c)))
      if None in key: continue
      out[key] = (t, c, dict(zip(td.row_ids, td.columns[c])))
    return out

  @staticmethod
  def _explicit_writes(bundle):
    """-> ({col_id: set(row ids)} written by [Bulk]UpdateRecord, set(col ids written by an action whose
    rows cannot be told from its repr), set(table ids whose rows are replaced wholesale))."""
    rows, opaque, replaced = {}, set(), set()
    for a in bundle:
      kind = a[0] if a else None
      dicts = [x for x in a[1:] if isinstance(x, dict)]
      if kind in ("UpdateRecord", "BulkUpdateRecord") and len(a) >= 4 and isinstance(a[3], dict):
        rs = a[2] if isinstance(a[2], (list, tuple)) else [a[2]]
        for c in a[3]:
          rows.setdefault(c, set()).update(rs)
      elif kind in ("AddRecord", "BulkAddRecord", "RemoveRecord", "BulkRemoveRecord", "RenameTable",
                    "RenameColumn", "AddColumn", "RemoveColumn", "AddTable", "RemoveTable",
                    "CreateViewSection", "RemoveViewSection", "RemoveView", "ModifyColumn"):
        if kind == "ModifyColumn": opaque.add(a[2])
        if kind.endswith("Record") and len(a) >= 3:
          # a removed row id can be handed out again by a later add of the same bundle: rows named
          # by removes / adds are not 'rows that were there before'
          rs = a[2] if isinstance(a[2], (list, tuple)) else [a[2]]
          rows.setdefault("*", set()).update(r for r in rs if r is not None)
      else:
        for d in dicts: opaque.update(d)
        if len(a) > 1 and isinstance(a[1], str): replaced.add(a[1])
        if kind in ("ApplyUndoActions", "ApplyDocActions") or not isinstance(kind, str):
          opaque.add("*")
    return rows, opaque, replaced

  def _requests(self, rng, vals, n):
    out = []
    for _ in range(n):
      r = rng.random()
      if vals and r < 0.55:
        x = rng.choice(vals)
        if isinstance(x, float) and math.isfinite(x):
          out.append(rng.choice([x, nextf(x), prevf(x), x]))
          continue
      out.append(rng.choice(REQ_POOL))
    if n > 1 and rng.random() < 0.3:
      out[-1] = out[0]
    return out

  def gen_bundle(self, st, e, g):
    rng = g.rng
    from vlib.rtc import eng
    r = rng.random()
    if r < 0.40:
      return g.bundle(e)
    tabs = [t for t in eng.user_tables(e) if "manualSort" in e.fetch_table(t).columns]
    if tabs and rng.random() < 0.10:
      # the position columns are rebuilt (table renamed / user position column renamed); the
      # crowded place stays the target of the later crowding bundles
      t = st["crowd"][0] if st["crowd"] and st["crowd"][0] in tabs and rng.random() < 0.7 else rng.choice(tabs)
      pc = [c for (tt, c) in position_columns(e) if tt == t and c != "manualSort"]
      st["renames"] += 1
      if pc and rng.random() < 0.4:
        return [["RenameColumn", t, rng.choice(pc), "pos%d" % st["renames"]]]
      new_t = "Ren%d" % st["renames"]
      if st["crowd"] and st["crowd"][0] == t:
        st["crowd"] = (new_t, st["crowd"][1])
      return [["RenameTable", t, new_t]]
    if r < 0.48:                                        # metadata position columns
      cand = [(t, c) for (t, c) in position_columns(e) if t.startswith("_grist_")]
      cand = [(t, c) for (t, c) in cand if len(e.fetch_table(t).row_ids) > 0]
      if cand:
        t, c = rng.choice(cand)
        td = e.fetch_table(t)
        rows = rng.sample(list(td.row_ids), min(len(td.row_ids), rng.randint(1, 3)))
        vals = self._requests(rng, list(td.columns[c]), len(rows))
        return [["BulkUpdateRecord", t, rows, {c: vals}]]
    if not tabs:
      return g.bundle(e)
    if r < 0.50 and common.tier() == "thorough" and rng.random() < 0.25:
      # a position column born on a non-empty table (quick tier: only the directed histories in
      # main(), because every failing random history costs a shrink)
      t = rng.choice(tabs)
      if rng.random() < 0.5:
        return [["AddColumn", t, "pos", {"type": "PositionNumber", "isFormula": False}]]
      cols = [c for c in eng.schema_columns(e, t) if not c[2] and c[1] in ("Int", "Numeric")]
      if cols:
        return [["ModifyColumn", t, rng.choice(cols)[0], {"type": "PositionNumber"}]]
    t = rng.choice(tabs)
    td = e.fetch_table(t)
    pcols = [c for (tt, c) in position_columns(e) if tt == t] or ["manualSort"]
    c = rng.choice(pcols) if rng.random() < 0.3 else "manualSort"
    if c not in td.columns: c = "manualSort"
    vals = list(td.columns[c])
    rows = list(td.row_ids)
    if r < 0.62:                                        # crowd: many inserts at one place
      if st["crowd"] is None or st["crowd"][0] not in tabs:
        st["crowd"] = (t, rng.choice(["first", "last", "tie"]))
      t, how = st["crowd"]
      td = e.fetch_table(t)
      ms = sorted(v for v in td.columns["manualSort"] if isinstance(v, float) and math.isfinite(v))
      if not ms:
        return [["AddRecord", t, None, {}]]
      # requesting an existing position inserts just before that row: the gap halves every time
      p = ms[-1] if how == "last" else ms[0] if how == "first" else ms[len(ms) // 2]
      if how == "first" and len(ms) > 1: p = ms[1]
      n = rng.choice([rng.randint(20, 30), rng.randint(20, 30), rng.randint(52, 60)])
      return [["AddRecord", t, None, {"manualSort": p}] for _ in range(n)]
    if r < 0.74:
      return [["AddRecord", t, None, {c: self._requests(rng, vals, 1)[0]}]]
    if r < 0.84:
      n = rng.randint(2, 4)
      return [["BulkAddRecord", t, [None] * n, {c: self._requests(rng, vals, n)}]]
    if r < 0.92 and rows:
      return [["UpdateRecord", t, rng.choice(rows), {c: self._requests(rng, vals, 1)[0]}]]
    if rows:
      rs = rng.sample(rows, min(len(rows), rng.randint(1, 3)))
      return [["BulkUpdateRecord", t, rs, {c: self._requests(rng, vals, len(rs))}]]
    return [["AddRecord", t, None, {}]]

  def before(self, st, e, bundle):
    # a position column that is created on / converted over a table that already has rows never
    # went through prepare_inserts: remembered so that the failure gets its own class
    st["born"] = []
    try:
      st["pos_before"] = self._keyed_positions(e)
    except Exception:
      st["pos_before"] = {}
    for a in bundle:
      try:
        if a[0] == "AddColumn" and (a[3] or {}).get("type") in ("PositionNumber", "ManualSortPos"):
          if a[1] in e.tables and len(e.fetch_table(a[1]).row_ids) > 1:
            st["born"].append("AddColumn")
        if a[0] == "ModifyColumn" and (a[3] or {}).get("type") in ("PositionNumber", "ManualSortPos"):
          if a[1] in e.tables and len(e.fetch_table(a[1]).row_ids) > 1:
            st["born"].append("ModifyColumn")
      except Exception:
        pass

  def after(self, st, e, bundle, group, exc):
    out = []
    for (t, c) in position_columns(e):
      if t not in e.tables: continue
      vals = list(e.fetch_table(t).columns.get(c, []))
      keyed = [repr(v) for v in vals]
      if len(set(keyed)) != len(keyed):
        dup = sorted(set(k for k in keyed if keyed.count(k) > 1))
        born = exc is None and st.get("born") and not t.startswith("_grist_") and c != "manualSort"
        out.append(("C20.position_columns_distinct",
                    {"table": t, "column": c, "values": vals, "duplicates": dup,
                     "born_on_nonempty_table": bool(born),
                     "raised": repr(exc) if exc else None}))
        break
    if not out:
      out += self._order_failures(st, e, bundle, exc)
    return out

  def _order_failures(self, st, e, bundle, exc):
    def num(v):
      return isinstance(v, (int, float)) and not isinstance(v, bool) and v == v
    rows_w, opaque, replaced = self._explicit_writes(bundle) if exc is None else ({}, set(), set())
    if "*" in opaque:
      return []
    now = self._keyed_positions(e)
    for key, (t0, c0, before) in sorted(st.get("pos_before", {}).items(), key=repr):
      if key not in now: continue
      t1, c1, after = now[key]
      if {c0, c1} & opaque or {t0, t1} & replaced: continue
      moved = rows_w.get(c0, set()) | rows_w.get(c1, set()) | rows_w.get("*", set())
      kept = [r for r in before if r in after and r not in moved and num(before[r]) and num(after[r])]
      # strictly ordered before => strictly ordered after (rows sharing a position, e.g. in a column
      # born on a non-empty table, are not constrained)
      kept.sort(key=lambda r: (before[r], after[r]))
      hi, hi_row, group_pos, group_max, group_max_row = None, None, None, None, None
      for r in kept:
        if group_pos is None or before[r] != group_pos:
          if group_max is not None and (hi is None or group_max > hi):
            hi, hi_row = group_max, group_max_row
          group_pos, group_max, group_max_row = before[r], None, None
        if hi is not None and not hi < after[r]:
          return [("C20.existing_order_kept",
                   {"table": t1, "column": c1, "rows": [hi_row, r],
                    "before": [before[hi_row], before[r]], "after": [after[hi_row], after[r]],
                    "raised": repr(exc) if exc else None,
                    "actions": sorted(set(str(a[0]) for a in bundle))})]
        if group_max is None or after[r] > group_max:
          group_max, group_max_row = after[r], r
    return []

  PROBE_INSERTS = 56

  def finish(self, st, e):
    """Closing probe of every history: whatever the history did to the document (renames, type
    changes, removed columns, failed bundles, ...), its position columns must still work.  On one
    user table (the crowded one if any) rows are inserted ONE action at a time in front of the row
    in the middle of the manual order until relabelling is forced; after every insert the full
    2-state contract (_step_failures) is evaluated on every position column of the table that held
    finite pairwise-distinct values when the probe started."""
    from vlib.rtc import eng
    tabs = []
    for t in eng.user_tables(e):
      try:
        td = e.fetch_table(t)
      except Exception:
        continue
      if "manualSort" in td.columns and len(td.row_ids) >= 2 and \
          any(tt == t and c == "manualSort" for (tt, c) in position_columns(e)):
        tabs.append(t)
    if not tabs:
      return []
    t = st["crowd"][0] if st.get("crowd") and st["crowd"][0] in tabs else tabs[0]
    def clean(vals):
      vs = list(vals.values())
      return (all(isinstance(v, float) and math.isfinite(v) for v in vs) and len(set(vs)) == len(vs))
    start = _table_positions(e, t)
    cols = [c for c in sorted(start) if clean(start[c])]
    if "manualSort" not in cols:
      return []
    order = sorted(start["manualSort"], key=lambda r: start["manualSort"][r])
    target = order[len(order) // 2]
    for i in range(self.PROBE_INSERTS):
      before = _table_positions(e, t)
      k = before["manualSort"][target]
      action = ["AddRecord", t, None, {"manualSort": k}]
      try:
        group = eng.apply(e, [action])
      except Exception as ex:
        # is it the position handling that fails?  A table that cannot take ANY new record (e.g. a
        # data Ref column whose target table does not exist makes every AddRecord raise) says
        # nothing about positions: the same record without a position must go in for the failure
        # to count
        try:
          eng.apply(e, [["AddRecord", t, None, {}]])
        except Exception:
          return []
        return [("C20.total", {"table": t, "probe_step": i, "action": action, "raised": repr(ex)[:300],
                               "probe": True})]
      after = _table_positions(e, t)
      new_row = group.retValues[0]
      for c in cols:
        if c not in after or c not in before: continue
        fs = _step_failures(before[c], after[c], {new_row: k if c == "manualSort" else INF})
        if fs:
          return [(fs[0][0], {"table": t, "column": c, "probe_step": i, "action": action,
                              "why": fs[0][1], "probe": True})]
    return []

  def classify(self, clause, detail, bundle, history):
    if detail.get("probe"):
      return "probe-after-history:%s" % clause.split(".", 1)[1]
    if clause == "C20.existing_order_kept":
      return "%s:existing-rows-reordered" % ("meta" if str(detail.get("table", "")).startswith("_grist_")
                                             else "user")
    if detail.get("born_on_nonempty_table"):
      return "position-column-created-or-converted-on-non-empty-table"
    return "%s:%s" % ("meta" if str(detail.get("table", "")).startswith("_grist_") else "user",
                      "manualSort" if detail.get("column") == "manualSort" else "position-column")

  def nontrivial(self, st, bundle, group, exc):
    if exc is not None or not group: return exc is not None
    for a in group.stored:
      cols = getattr(a, "columns", None)
      if isinstance(cols, dict) and any(k == "manualSort" or k.endswith("Pos") or k == "pos"
                                        for k in cols):
        return True
    return False


def main():
  rep = common.Report("C20", "exploration")
  tier = common.tier()
  rep.assumptions += [
    "bounded: exhaustive enumeration of the stated pool + seeded insertion sequences + seeded "
    "engine histories; not a proof (the list-labelling algorithm over floats is outside tier P)",
    "requires (function contract): existing positions are finite floats in strictly increasing "
    "order — the invariant the property's second sentence maintains for every position column — "
    "and requests are floats, +-inf allowed, NaN excluded (sorting NaN is undefined)",
    "prepare_inserts is called as PositionColumn.prepare_new_values calls it: a SortedListWithKey "
    "of row ids keyed by position",
    "'new rows keeping the order of their requested positions' is required for requests that "
    "differ; equal requests must only get distinct positions",
    "failures of one (clause, class) are reported at most 3 times per worker process (vlib.rtc.fn "
    "keeps 40 failure records per worker); the counts under known_findings_matched are therefore "
    "capped, not totals",
    "frame clause C20.input_list_untouched is taken from the function's docstring, not the statement",
    "engine histories, C20.existing_order_kept: 'rows that were there before' = rows present before "
    "and after the bundle that no [Bulk]UpdateRecord of the bundle wrote the position column of and "
    "that no add / remove of the bundle names (a removed id can be handed out again); columns touched "
    "by ModifyColumn, tables named by any other action kind (ReplaceTableData, AddOrUpdateRecord, ...) "
    "and bundles containing ApplyUndoActions / ApplyDocActions are not constrained by this clause; rows "
    "that shared a position before (a known finding) are not constrained relative to each other",
    "engine histories / rebuilt position columns: a new row without an explicit request asks for the "
    "end (+inf, the column default); a request equal to an existing position inserts before that row",
    "closing probe: only position columns holding finite pairwise-distinct values when the probe "
    "starts are examined (the probe checks that the column still WORKS, the invariant clause "
    "C20.position_columns_distinct has already reported a column that does not hold it)",
    common.SHIM_ASSUMPTION,
  ]
  X, K = pools(tier)
  rep.coverage["rule"] = (
    "part 1: one evaluation = one call of the real relabeling.prepare_inserts on (existing, batch) "
    "with existing = every strictly increasing sub-list (size per bound) of the %d-value pool and "
    "batch = every tuple over pool+{inf,-inf}; part 2: one evaluation = one seeded insertion "
    "sequence (every step checked, results applied and fed back); part 3: one evaluation = one user "
    "bundle on the real engine followed by the distinctness invariant and the 2-state order clause on "
    "every position column; part 4 (moves, rebuilt position columns): one evaluation = one directed "
    "history on the real engine, clauses after every action. "
    "Non-trivial = (1) non-empty batch that forced at least one existing row to be relabelled, or "
    "raised; (2) sequence with at least one relabelling step; (3) bundle whose stored actions "
    "write a position column, or that raised; distinct by repr of the case." % len(X))
  rep.coverage["bound"] = {
    "pool_existing": [repr(x) for x in X], "pool_requests": [repr(x) for x in K],
    "straddle_family": "runs of 1-4 and 1-%d adjacent floats meeting at 1.0 + 2**a ulp, a=3..12, "
                       "every (left place, right place) pair" % (14 if tier == "quick" else 24),
    "single_calls": ("existing<=1 x batch<=3, existing=2..3 x batch<=2, existing=4 x batch<=1"
                     if tier == "quick" else
                     "existing<=3 x batch<=3, existing=4 x batch<=2 (complete) + 1.8M sampled: sub-lists <=6 of 64 adjacent "
                     "floats at 6 magnitudes + specials, batch<=3"),
    "sequences": "1200 x 70 steps" if tier == "quick" else "40000 x 120 steps",
    "rebuilt_position_columns": "table T(a, b, pos:PositionNumber) with 5 rows; one of %d ways of rebuilding "
                                "the column objects (%s) x column (manualSort, pos) x %d mid-table insert patterns "
                                "x crowded place (middle row; first row / a row inserted after the rebuild: "
                                "quick tier one of the two per pattern, thorough both); then %d inserts at the place (single and 2-row bulk), a move "
                                "into the place, a move to the end, an append; every clause after every action on "
                                "every position column of the table"
                                % (len(POS_PREFIXES), ", ".join(POS_PREFIXES), len(POS_MID),
                                   58 if tier == "quick" else 110),
    "engine": "seed docs basic, refs; histories of 5 bundles; table renames / position-column renames that "
              "keep the crowded place; crowding bundles of 20-30 or 52-60 inserts; every history closed by a probe "
              "of 56 single inserts at one place (full 2-state contract after each); position-focused action mix "
              "(requests from existing positions, their float neighbours, 0, -1, 1e16, 1e308, "
              "5e-324, +-inf, None; crowding bundles of 20-30 inserts at one place; metadata "
              "parentPos/pagePos/tabPos updates) + 3 directed histories (position "
              "column added to / converted on a non-empty table; a PositionNumber column created with "
              "its table and then filled); thorough tier also draws the add/convert actions at random"}

  single = fn.FnContract(
    name="relabeling.prepare_inserts", call=_single_call,
    requires=lambda a: valid_input(a["existing"], a["keys"]),
    ensures={c: _clause(c) for c in CLAUSES}, classify=_classify, nontrivial=_relabelled,
    show=lambda a: {"existing": list(a["existing"]), "keys": list(a["keys"])})
  fn.check(rep, single, single_cases, exhaustive=False, limit_quick_s=10, limit_thorough_s=420)

  seq = fn.FnContract(
    name="relabeling.prepare_inserts[insertion sequences]", call=_sequence_call,
    ensures={c: _clause(c) for c in CLAUSES + ("C20.harness",)}, classify=_classify,
    nontrivial=_seq_nontrivial)
  fn.check(rep, seq, sequence_cases, exhaustive=False, limit_quick_s=6, limit_thorough_s=200)

  # run-time contract on PositionColumn.prepare_new_values through the real engine: MOVES of
  # existing rows (UpdateRecord of manualSort) into gaps crowded enough to need relabeling
  moves = fn.FnContract(
    name="column.PositionColumn.prepare_new_values (moves of existing rows via UpdateRecord)",
    call=_move_call, ensures={"C20.move_keeps_others_in_order": _e_move_order,
                              "C20.move_lands_at_requested_place": _e_move_place,
                              "C20.positions_distinct_finite_after_move": _e_move_distinct},
    classify=lambda a, clause, detail: clause)
  fn.check(rep, moves, _move_cases, exhaustive=True, limit_quick_s=30, limit_thorough_s=200,
           warm_engine=True, procs=4)

  # the same 2-state contract along histories on position columns that were rebuilt first
  poshist = fn.FnContract(
    name="Engine.apply_user_actions (position columns used after the column object was rebuilt)",
    call=_poshist_call, ensures={c: _poshist_clause(c) for c in POSHIST_CLAUSES},
    classify=_poshist_classify,
    nontrivial=lambda a, r, exc: r is not None and (r["relabels"] > 0 or bool(r["fails"])))
  # (4 worker processes: engine-heavy cases scale badly beyond that in forked pool workers)
  fn.check(rep, poshist, _poshist_cases, exhaustive=True, limit_quick_s=30, limit_thorough_s=300,
           warm_engine=True, procs=4)

  from vlib.rtc import explore
  explore.explore(rep, "checks.C20", "PositionsMonitor", n_quick=48, n_thorough=6000,
                  budget_quick_s=6, budget_thorough_s=240)
  # directed histories: position columns that are created on / converted over a non-empty table,
  # then used (fixed inputs, examined on every run)
  directed = [("basic", [[["AddColumn", "A", "pos", {"type": "PositionNumber", "isFormula": False}]]]),
              ("basic", [[["ModifyColumn", "A", "n", {"type": "PositionNumber"}]]]),
              ("basic", [[["AddTable", "P", [{"id": "pos", "type": "PositionNumber", "isFormula": False}]]],
                         [["BulkAddRecord", "P", [None, None, None], {}]],
                         [["AddRecord", "P", None, {"pos": 1.0}]],
                         [["BulkUpdateRecord", "P", [1, 2], {"pos": [3.0, 3.0]}]]])]
  mon = PositionsMonitor()
  for seed_name, hist in directed:
    try:
      failures, stats, history = explore.run_history(mon, seed_name, hist)
    except Exception as e:
      rep.crash("directed history failed to run: %r" % (e,))
      continue
    rep.coverage["evaluations"] = rep.coverage.get("evaluations", 0) + stats["bundles"]
    for f in failures:
      rep.violation(f["clause"], {"obligation": f["clause"], "class": f["class"], "seed_doc": seed_name,
                                  "history": history, "detail": f["detail"], "tier": "bounded",
                                  "how_to_replay": "apply SEEDS[seed_doc] then `history` on a fresh engine"})
  rep.coverage["directed_histories"] = len(directed)
  rep.coverage["exhaustive"] = False
  rep.coverage["exhaustive_part"] = ("part 1's enumerated pool is complete for the sizes stated in "
                                     "bound.single_calls; parts 2 and 3 are seeded samples")
  return rep.finish()


if __name__ == "__main__":
  sys.exit(main())
