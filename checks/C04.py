"""C04 Failed bundles leave no trace — bounded run-time contract (EXCEPTIONAL postcondition) on the
real Engine.apply_user_actions, level fault_enumeration.

For every bundle b of every explored history, on the document reached so far:

 * the bundle is first run once, unfaulted, on a SHADOW engine kept in lockstep (the dry run): this
   gives the natural outcome, and the list of doc-action steps the bundle performs (every call of
   Engine.apply_doc_action, with its action name, table, whether it happens inside formula
   evaluation and whether it happens after the user-action loop);
 * NATURAL failures (validation errors, a later action failing after earlier ones succeeded, ...)
   are checked when the bundle raises on the monitored engine;
 * INJECTED faults: for every step k that is not inside formula evaluation (there the engine turns
   exceptions into cell errors by design) and each mode of
       before     - Engine.apply_doc_action raises before doing anything at step k
       after      - Engine.apply_doc_action raises after step k was applied completely
       in_method  - the DocActions method of step k raises on entry (inside apply_doc_action's try:
                    the schema-restore path runs)
       in_rebuild#i - Engine.rebuild_usercode raises on entry of the i-th call (i = 1, 2) the
                    DocActions method of step k makes (the schema was already modified: the
                    schema-restore path has work to do)
   the bundle is run with that fault.  before/after/in_method faults of the user-action loop are
   injected on the monitored engine itself (if the property holds it is unchanged afterwards, and
   all positions can be enumerated on it); faults of steps after the loop (auto-removals) and
   in_rebuild faults on forks built by replaying the history (at most FORK_CAP per bundle).

Clauses, whenever apply_user_actions raised:
  C04.state_unchanged    snapshot (every table incl. metadata, formulas included) == old(snapshot)
  C04.schema_consistent  Engine.assert_schema_consistent() passes and the independent comparison of
                         C08 (metadata vs Engine.schema, field by field) finds nothing
  C04.engine_usable      a following Calculate does not raise and returns no stored actions; and,
                         once all faults of the bundle have been tried, the engine still gives the
                         bundle the same outcome (exception type or resulting snapshot and stored
                         actions) as the shadow engine, which runs the same history with neither
                         the injected faults nor the monitor's probing Calculates (a silent
                         Calculate must be a no-op: a difference shows state a failed bundle left
                         behind)
"""
import copy, json, os, re, sys
sys.path.insert(0, os.path.dirname(os.path.dirname(os.path.abspath(__file__))))
from vlib import common
from vlib.rtc import eng, explore, gen
from checks import C02, C08

ALL_SEEDS = ("basic", "refs", "lookup", "summary", "twoway", "trigger", "choices", "prevnext")
MODES = ("before", "after", "in_method", "in_rebuild#1", "in_rebuild#2")
CAP_QUICK, CAP_THOROUGH = 60, 200
FORK_CAP = 4          # fault positions tried on replayed forks, per bundle


class InjectedFault(Exception):
  pass


class Tracer(object):
  """Wraps Engine.apply_doc_action, the DocActions methods and Engine.rebuild_usercode of ONE engine
  instance (instance attributes; nothing in /repo is edited).  With k=None it only records steps."""

  def __init__(self, e, k=None, mode=None):
    import actions
    self.e, self.k, self.mode = e, k, mode
    self.steps = []          # dicts: name, table, in_loop, post, rebuild, rollback
    self.stack = []
    self.post = False
    self.in_rollback = 0
    self.in_restore = False
    self.fired = None
    self._saved = []
    orig_apply = e.apply_doc_action
    tr = self

    def apply_doc_action(doc_action):
      idx = len(tr.steps) + 1
      name = doc_action.__class__.__name__
      table = doc_action[0] if len(doc_action) and isinstance(doc_action[0], str) else None
      tr.steps.append({"name": name, "table": table, "in_loop": bool(e._in_update_loop),
                       "post": tr.post, "rebuild": 0, "rollback": tr.in_rollback > 0})
      tr.stack.append(idx)
      try:
        if idx == tr.k and tr.mode == "before": tr.fire(idx)
        orig_apply(doc_action)
        if idx == tr.k and tr.mode == "after": tr.fire(idx)
      finally:
        tr.stack.pop()
    self._set(e, "apply_doc_action", apply_doc_action)

    for name in actions.action_types:
      orig = getattr(e.doc_actions, name, None)
      if orig is None: continue
      def method(*a, _orig=orig):
        if tr.stack and tr.stack[-1] == tr.k and tr.mode == "in_method": tr.fire(tr.k)
        return _orig(*a)
      self._set(e.doc_actions, name, method)

    orig_rebuild = e.rebuild_usercode
    def rebuild_usercode():
      if tr.stack and not tr.in_restore:
        st_ = tr.steps[tr.stack[-1] - 1]
        st_["rebuild"] += 1
        if tr.stack[-1] == tr.k and tr.mode == "in_rebuild#%d" % st_["rebuild"]: tr.fire(tr.k)
      return orig_rebuild()
    self._set(e, "rebuild_usercode", rebuild_usercode)

    orig_undo = e._undo_to_checkpoint
    def _undo_to_checkpoint(checkpoint):
      tr.in_rollback += 1     # steps performed by a rollback are not fault positions (double fault)
      try:
        return orig_undo(checkpoint)
      finally:
        tr.in_rollback -= 1
    self._set(e, "_undo_to_checkpoint", _undo_to_checkpoint)

    orig_trig = e._maybe_update_trigger_dependencies
    def _maybe_update_trigger_dependencies():
      tr.post = True          # the user-action loop (and its try/except) is behind us
      return orig_trig()
    self._set(e, "_maybe_update_trigger_dependencies", _maybe_update_trigger_dependencies)

  def _set(self, obj, name, fn):
    self._saved.append((obj, name))
    setattr(obj, name, fn)

  def fire(self, idx):
    if self.fired is None:
      self.fired = idx
      self.in_restore = True    # rebuild_usercode calls of the schema-restore path are not counted
      raise InjectedFault("injected at step %d (%s)" % (idx, self.mode))

  def close(self):
    for obj, name in self._saved:
      try: delattr(obj, name)
      except AttributeError: pass
    self._saved = []


def run_traced(e, bundle, k=None, mode=None):
  """-> (group or None, exception or None, tracer)"""
  tr = Tracer(e, k, mode)
  try:
    try:
      return eng.apply(e, bundle), None, tr
    except Exception as ex:
      return None, ex, tr
  finally:
    tr.close()


def table_kind(kinds, t):
  if t is None: return "-"
  if t.startswith("_grist_"): return t
  return kinds.get(t, "user")


def step_desc(kinds, s):
  return "%s(%s)" % (s["name"], table_kind(kinds, s["table"]))


def exc_sig(ex):
  msg = str(ex).splitlines()[0] if str(ex) else ""
  msg = re.sub(r"[0-9]+", "N", msg)
  return "%s(%s)" % (type(ex).__name__, msg[:70])


def snapshot(e):
  """Every table (metadata included), formulas included, as Node sees it: fetch_table +
  encode_object, JSON numbers compared by value (1 == 1.0, as objtypes.equal_encoding does)."""
  return C02.engine_snapshot(e)


def formula_columns(e):
  return {(tid, cid) for tid, t in e.schema.items() for cid, c in t.columns.items() if c.isFormula}


def diff_kind(e, a, b, trigger=False):
  """'unchanged' | 'only formula cells differ' | 'data or metadata differ'
  (with trigger=True also 'only trigger-formula cells differ')"""
  cells = C02.changed_cells(a, b)
  if not cells: return "unchanged"
  fc = formula_columns(e)
  plain = lambda c: len(c) == 3 and c[1] not in ("*row", "*col")
  if all(plain(c) and (c[0], c[2]) in fc for c in cells):
    return "only formula cells differ"
  if trigger:
    tc = {(tid, cid) for tid, t in e.schema.items() for cid, c in t.columns.items()
          if not c.isFormula and c.formula}
    if all(plain(c) and (c[0], c[2]) in (fc | tc) for c in cells):
      return "only trigger-formula cells differ"
  return "data or metadata differ"


def failure_clauses(e, pre, label):
  """The exceptional postcondition, evaluated on engine `e` right after apply_user_actions raised.
  -> (violations, repaired): `repaired` tells whether the document is back to `pre` afterwards (so
  that exploration may go on with this engine).  Every violation carries the whole symptom
  signature (used to name the failure class)."""
  out = []
  now = snapshot(e)
  sig = {"after_rollback": diff_kind(e, pre, now)}
  d = eng.diff_snapshots(pre, now)
  if d:
    out.append(("C04.state_unchanged", dict(label, diff=d)))
  sc = C08.schema_clauses(e)
  sig["schema"] = "consistent" if not sc else "INCONSISTENT"
  if sc:
    out.append(("C04.schema_consistent", dict(label, schema=[(c, dd) for c, dd in sc][:2])))
  try:
    g = eng.apply(e, [["Calculate"]])
    if g.stored:
      stored = eng.stored_reprs(g)
      fc = formula_columns(e)
      tc = {(tid, cid) for tid, t in e.schema.items() for cid, c in t.columns.items()
            if not c.isFormula and c.formula}
      updates = all(a[0] in ("UpdateRecord", "BulkUpdateRecord") for a in stored)
      cols = {(a[1], c) for a in stored for c in a[3]} if updates else set()
      summaries = {t["tableId"] for t in eng.meta_records(e, "_grist_Tables") if t["summarySourceTable"]}
      if updates and cols <= fc: sig["calculate"] = "rewrites formula cells"
      elif updates and cols <= (fc | tc): sig["calculate"] = "writes trigger-formula cells"
      elif all(a[0] in ("RemoveRecord", "BulkRemoveRecord") and a[1] in summaries for a in stored):
        sig["calculate"] = "removes summary rows"
      else: sig["calculate"] = "emits " + "+".join(sorted(set(a[0] for a in stored)))
      out.append(("C04.engine_usable", dict(label, calculate_stored=stored[:6])))
    else:
      sig["calculate"] = "silent"
  except Exception as ex:
    sig["calculate"] = "raises " + exc_sig(ex)
    out.append(("C04.engine_usable", dict(label, calculate_raised=exc_sig(ex))))
    try:
      eng.apply(e, [["Calculate"]])
    except Exception as ex2:
      out[-1][1]["calculate_raised_again"] = exc_sig(ex2)
  final = snapshot(e)
  sig["finally"] = diff_kind(e, pre, final)
  repaired = sig["finally"] == "unchanged" and not C08.schema_clauses(e)
  for _, detail in out:
    detail["signature"] = sig
  return out, repaired


def positions(steps, cap):
  """Injectable (step index, mode) pairs: those tried on the monitored engine itself, and those
  tried on a replayed fork (post-loop steps and rebuild_usercode failures: when the property fails
  there the engine is beyond repair, and on a fork the history can go on)."""
  main, forked = [], []
  for i, s in enumerate(steps):
    if s["in_loop"] or s["rollback"]:
      continue
    for m in MODES:
      if m.startswith("in_rebuild#"):
        if s["rebuild"] >= int(m.split("#")[1]): forked.append((i + 1, m))
      elif s["post"]:
        forked.append((i + 1, m))
      else:
        main.append((i + 1, m))
  if len(main) > cap:        # evenly spaced, always keeping the first and the last positions
    idx = sorted(set([0, len(main) - 1] + [round(j * (len(main) - 1) / (cap - 1)) for j in range(cap)]))
    main = [main[j] for j in idx]
  if len(forked) > FORK_CAP:   # one per (mode, action kind, phase) first, in step order
    seen, pick = set(), []
    for (k, m) in forked:
      key = (m, steps[k - 1]["name"], steps[k - 1]["post"])
      if key not in seen:
        seen.add(key); pick.append((k, m))
    forked = pick[:FORK_CAP]
  return main, forked


class C04Monitor(explore.Monitor):
  seeds = ALL_SEEDS
  length = 4
  weights = {"add": 6, "bulk_add": 3, "update": 8, "bulk_update": 3, "remove": 5, "bulk_remove": 2,
             "add_col": 4, "add_formula_col": 4, "remove_col": 5, "rename_col": 4, "modify_type": 4,
             "modify_formula": 4, "to_formula": 2, "to_data": 2, "add_table": 2, "remove_table": 2,
             "rename_table": 3, "meta_update": 3, "invalid": 6, "replace_data": 1, "multi": 12,
             "add_temp": 3, "upsert": 2, "summary": 2, "reverse": 1, "view": 2, "label": 1}

  def start(self, e, seed_name):
    shadow = eng.new_engine()
    for b in gen.seed_history(seed_name):
      eng.apply(shadow, b)
    return {"shadow": shadow, "seed": seed_name, "history": [], "deferred": [], "pending": [],
            "stats": {"bundles": 0, "steps": 0, "faults": 0, "faults_on_fork": 0,
                      "faults_propagated": 0, "faults_absorbed": 0, "natural_failures": 0,
                      "by_mode": {m: 0 for m in MODES}}}

  def gen_bundle(self, st, e, g):
    b = g.bundle(e)
    r = g.rng.random()
    if r < 0.15:     # a later action fails after earlier ones succeeded
      b = b + [g.rng.choice([["UpdateRecord", "NoSuchTable", 1, {"x": 1}], ["NoSuchAction"],
                             ["RemoveRecord", "_grist_Tables_column", 99999],
                             ["AddRecord", "_grist_Views_section_field", None, {"nope": 1}]])]
    return b

  # ------------------------------------------------------------------------------------------
  def before(self, st, e, bundle):
    st["pending"] = []
    if st.get("tainted"): return
    cap = CAP_QUICK if common.tier() == "quick" else CAP_THOROUGH
    stats = st["stats"]
    stats["bundles"] += 1
    kinds = {t["tableId"]: ("summary" if t["summarySourceTable"] else "user")
             for t in eng.meta_records(e, "_grist_Tables")}
    pre = st["pre"] = snapshot(e)
    # -- dry run on the shadow engine ------------------------------------------------------------
    shadow = st["shadow"]
    if eng.diff_snapshots(snapshot(shadow), pre):
      st["tainted"] = "shadow and monitored engine differ before the bundle"   # harness problem
      st["pending"] = [("C04.harness", {"error": st["tainted"]})]
      return
    g, ex, tr = run_traced(shadow, bundle)
    st["natural"] = {"raised": exc_sig(ex) if ex is not None else None,
                     "post_phase": tr.post and ex is not None,
                     "snapshot": snapshot(shadow),
                     "stored": eng.stored_reprs(g) if g is not None else None,
                     "steps": [step_desc(kinds, s) for s in tr.steps]}
    stats["steps"] += len(tr.steps)
    main, post = positions(tr.steps, cap)
    # -- injected faults of the user-action loop, on the monitored engine itself ------------------
    tried = []
    for (k, mode) in main:
      label = {"fault": "injected", "mode": mode, "step": k, "of_steps": len(tr.steps),
               "step_action": step_desc(kinds, tr.steps[k - 1]), "phase": "user-action loop",
               "faults_tried_before_on_this_engine": list(tried)}
      stats["faults"] += 1; stats["by_mode"][mode] += 1
      g2, ex2, tr2 = run_traced(e, bundle, k, mode)
      tried.append("%d:%s" % (k, mode))
      if tr2.fired is None:
        if len(tr2.steps) >= k and ex2 is not None and exc_sig(ex2) == st["natural"]["raised"]:
          # step k itself fails naturally before this position is reached: this run was the
          # natural failure once more
          stats["faults"] -= 1; stats["by_mode"][mode] -= 1
          nlabel = {"fault": "natural", "raised": exc_sig(ex2), "phase": "user-action loop",
                    "steps": st["natural"]["steps"][:30]}
          v, repaired = failure_clauses(e, pre, nlabel)
          if v and not repaired:
            st["pending"] = v[:1]
            return
          if v: st["deferred"].extend(v[:1])
          continue
        # Same state, same bundle, deterministic engine: the step must exist.
        st["pending"] = [("C04.engine_usable", dict(label, problem="the bundle no longer reaches "
                          "this step (%d steps, outcome %s; shadow engine: %d steps, outcome %s)"
                          % (len(tr2.steps), exc_sig(ex2) if ex2 is not None else "success",
                             len(tr.steps), st["natural"]["raised"] or "success")))]
        return
      if ex2 is None:
        stats["faults_absorbed"] += 1          # swallowed by the engine: the bundle succeeded
        try:
          eng.apply(e, [["ApplyUndoActions", eng.undo_reprs(g2)]])
        except Exception:
          pass
        if eng.diff_snapshots(pre, snapshot(e)):
          st["tainted"] = "a swallowed fault could not be undone"; return
        continue
      stats["faults_propagated"] += 1
      v, repaired = failure_clauses(e, pre, label)
      if v:
        if repaired:
          st["deferred"].extend(v[:1])
        else:
          st["pending"] = v[:1]
          return
    # -- post-loop faults (auto-removals) and rebuild_usercode faults, each on a fork ---------------
    for (k, mode) in post:
      label = {"fault": "injected", "mode": mode, "step": k, "of_steps": len(tr.steps),
               "step_action": step_desc(kinds, tr.steps[k - 1]), "on": "replayed fork",
               "phase": "after the user-action loop" if tr.steps[k - 1]["post"]
                        else "user-action loop"}
      fork = self.fork(st)
      if eng.diff_snapshots(pre, snapshot(fork)):
        continue                                  # replay did not reproduce the state: skip
      stats["faults"] += 1; stats["faults_on_fork"] += 1; stats["by_mode"][mode] += 1
      g2, ex2, tr2 = run_traced(fork, bundle, k, mode)
      if tr2.fired is None or ex2 is None:
        stats["faults_absorbed"] += 1
        continue
      stats["faults_propagated"] += 1
      v, _ = failure_clauses(fork, pre, label)
      st["deferred"].extend(v[:1])

  def fork(self, st):
    e = eng.new_engine()
    for b in gen.seed_history(st["seed"]):
      eng.apply(e, b)
    for b in st["history"]:
      try: eng.apply(e, b)
      except Exception: pass
    return e

  # ------------------------------------------------------------------------------------------
  def after(self, st, e, bundle, group, exc):
    if st.get("pending"):
      return st["pending"]
    if st.get("tainted"):
      return []
    nat = st["natural"]
    label = {"fault": "natural", "raised": exc_sig(exc) if exc is not None else None,
             "phase": "after the user-action loop" if nat["post_phase"] else "user-action loop",
             "steps": nat["steps"][:30]}
    # engine_usable, second half: same outcome as the engine that never saw a fault
    mine = exc_sig(exc) if exc is not None else None
    if mine != nat["raised"]:
      return [("C04.engine_usable", dict(label, problem="after the injected faults the bundle "
               "ends differently than on the shadow engine", shadow=nat["raised"], monitored=mine))]
    if exc is None:
      mine_snap = snapshot(e)
      d = eng.diff_snapshots(nat["snapshot"], mine_snap)
      if d:
        return [("C04.engine_usable", dict(label, problem="the bundle gives a different document "
                 "than on the shadow engine (%s)" % diff_kind(e, nat["snapshot"], mine_snap, True),
                 diff=d))]
      if eng.stored_reprs(group) != nat["stored"]:
        return [("C04.engine_usable", dict(label, problem="after the injected faults the bundle "
                 "emits different stored actions than on the shadow engine"))]
      st["history"].append(copy.deepcopy(bundle))
      return []
    # natural failure
    st["stats"]["natural_failures"] += 1
    v, repaired = failure_clauses(e, st["pre"], label)
    if v:
      if repaired:
        # bring the shadow to the same (repaired) state and go on
        try: eng.apply(st["shadow"], [["Calculate"]])
        except Exception: pass
        st["deferred"].extend(v[:1])
        return []
      return v[:1]
    return []

  def finish(self, st, e):
    stat_sink(st["stats"])
    # explore() reports the FIRST failure of a history.  Failures of classes that are not listed as
    # known findings go first (a new failure must never hide behind a known one); the known ones
    # are rotated so that each of them is reported by some history.
    known = known_classes("C04")
    out = list(st["deferred"])
    new = [v for v in out if (v[0], classify(v[0], v[1])) not in known]
    old = [v for v in out if v not in new]
    if len(old) > 1:
      k = st["stats"]["faults"] % len(old)
      old = old[k:] + old[:k]
    return new + old

  def nontrivial(self, st, bundle, group, exc):
    return True

  def classify(self, clause, detail, bundle, history):
    return classify(clause, detail)


def classify(clause, detail):
  """Root-cause class of a failure.  Three structural root causes are recognised by WHERE the fault
  hit; everything else is named by fault family + symptom signature, so that the same root cause
  met through another history maps to the same class while a different symptom does not."""
  sig = detail.get("signature") or {}
  injected = detail.get("fault") == "injected"
  mode, action = detail.get("mode", ""), (detail.get("step_action") or "").split("(")[0]
  if "problem" in detail:
    return "%s: %s" % (clause, re.sub(r"\d+", "N", detail["problem"])[:140])
  symptoms = "after rollback %s, schema %s, Calculate %s, finally %s" % (
    sig.get("after_rollback"), sig.get("schema"), sig.get("calculate"), sig.get("finally"))
  if detail.get("phase") == "after the user-action loop":
    return "failure after the user-action loop is not rolled back (%s)" % (
      "injected fault" if injected else "natural " + str(detail.get("raised")))
  if injected and mode == "in_rebuild#2" and action == "ModifyColumn":
    return "rebuild_usercode fails at ModifyColumn's second call: column data lost"
  if injected and mode == "in_rebuild#1" and action == "RemoveTable":
    return "rebuild_usercode fails in RemoveTable: rollback aborted"
  if injected and mode == "after" and action == "ModifyColumn" and clause == "C04.state_unchanged" \
      and sig.get("after_rollback") == "data or metadata differ" and sig.get("schema") == "consistent" \
      and detail.get("diff") and all(re.match(r"[^ ]+\[\d+\]: ", d) for d in detail["diff"]) \
      and len(set(d.split("[")[0] for d in detail["diff"])) == 1:
    return "fault right after the ModifyColumn doc action: the values it converted are not restored"
  if not injected and (sig.get("after_rollback") == "data or metadata differ"
                       or sig.get("schema") != "consistent"):
    # data or schema damaged by a natural failure: the exception (message with numbers blanked) is
    # part of the class, so that a different failing action is a different class
    return "natural %s: %s" % (detail.get("raised"), symptoms)
  return symptoms


_KNOWN = {}
def known_classes(prop):
  if prop not in _KNOWN:
    _KNOWN[prop] = {(f.get("match", {}).get("obligation"), f.get("match", {}).get("class"))
                    for f in common.load_known_findings(prop)}
  return _KNOWN[prop]


def stat_sink(stats):
  d = os.environ.get("VERIF_C04_STATS")
  if d and os.path.isdir(d):
    with open(os.path.join(d, "%d.jsonl" % os.getpid()), "a") as f:
      f.write(json.dumps(stats) + "\n")


def main():
  import glob, shutil, tempfile
  rep = common.Report("C04", "fault_enumeration")
  rep.assumptions += [
    common.SHIM_ASSUMPTION,
    "bounded: seeded random histories over 8 seed documents; for every bundle ALL injectable fault "
    "positions (step x mode) of the user-action loop are enumerated, capped at %d per bundle in the "
    "quick tier (%d thorough; evenly spaced when capped); post-loop and in_rebuild positions, which "
    "need a replayed fork each, are capped at %d per bundle (one per mode x action kind first); not "
    "a proof"
    % (CAP_QUICK, CAP_THOROUGH, FORK_CAP),
    "fault = a Python exception (InjectedFault) raised by a wrapper of Engine.apply_doc_action, of a "
    "DocActions method or of Engine.rebuild_usercode, installed as instance attributes on the engine "
    "under test; process death / MemoryError are out of scope",
    "doc-action steps performed inside formula evaluation (lookupOrAddDerived) are not faulted: the "
    "engine converts exceptions raised there into cell errors by design, the bundle does not fail",
    "doc-action steps performed by a rollback (Engine._undo_to_checkpoint) are not faulted: a failure "
    "while rolling back is a double fault",
    "a fault 'after the DocActions method completed but still inside apply_doc_action's try' is not "
    "a reachable crash point and is not injected",
    "user-action-loop faults are injected on the monitored engine itself, one after the other; a "
    "violation whose damage is repaired by the following Calculate is recorded and the history goes "
    "on, any other violation ends the history",
    "the outcome comparison of C04.engine_usable uses a shadow engine that runs the same history "
    "without faults (the engine is assumed deterministic for equal histories)"]
  rep.coverage["rule"] = ("one evaluation = one execution of a bundle that raised (natural failure "
                          "or injected fault) with the three clauses checked; distinct_nontrivial "
                          "= evaluations in which the fault propagated out of apply_user_actions "
                          "(distinct (history, bundle, step, mode) by construction)")
  d = tempfile.mkdtemp(prefix="verif-c04-")
  os.environ["VERIF_C04_STATS"] = d
  try:
    # a history costs seconds here (every bundle is run once per fault position): in the quick tier
    # failing histories are reported unshrunk (classes do not depend on minimality)
    C02.tune_explore(0 if common.tier() == "quick" else 20)
    explore.explore(rep, "checks.C04", "C04Monitor", n_quick=64, n_thorough=1600,
                    budget_quick_s=25)
    tot = {}
    for p in glob.glob(os.path.join(d, "*.jsonl")):
      for line in open(p):
        r = json.loads(line)
        for k, v in r.items():
          if isinstance(v, dict):
            for kk, vv in v.items(): tot.setdefault(k, {}); tot[k][kk] = tot[k].get(kk, 0) + vv
          else: tot[k] = tot.get(k, 0) + v
    cov = rep.coverage
    cov["bundles_applied"] = cov.get("evaluations", 0)
    cov["evaluations"] = tot.get("faults", 0) + tot.get("natural_failures", 0)
    cov["distinct_nontrivial"] = tot.get("faults_propagated", 0) + tot.get("natural_failures", 0)
    cov["fault_positions"] = tot.get("faults", 0)
    cov["fault_positions_by_mode"] = tot.get("by_mode", {})
    cov["faults_on_replayed_fork"] = tot.get("faults_on_fork", 0)
    cov["faults_swallowed_by_engine"] = tot.get("faults_absorbed", 0)
    cov["natural_failures"] = tot.get("natural_failures", 0)
    cov["doc_action_steps_seen"] = tot.get("steps", 0)
    cov["exhaustive"] = False
  finally:
    shutil.rmtree(d, ignore_errors=True)
  return rep.finish()


if __name__ == "__main__":
  sys.exit(main())
