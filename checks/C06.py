"""C06 Evaluation-order independence — bounded run-time contract on Engine._update_loop with a
ghost parameter pi = the permutation applied to the result of Engine._make_sorted_work_items.

The harness wraps the REAL `Engine._make_sorted_work_items` (class attribute, no source edit): the
real method is called, then its result is permuted subject to the engine's own rule (work items are
popped from the END of the list, '#lookup' nodes must be popped first, i.e. stay at the end).
Everything else (the update loop, OrderError re-ordering, locks, cycle detection) is the real code.

Clauses (DESIGN.md section 5, C06):
  C06.same_values          for every explored pi, the values of all columns of all tables after the
                           bundle equal those under the engine's own order;
  C06.same_action_multiset the stored actions differ at most in order (compared as a multiset of
                           per-cell changes / structural actions);
  C06.terminates           no internal error ("not making progress", assertion) under any pi when
                           the engine's own order has none.
Three ways pi is exercised on every history:
  (a) lockstep: shadow engines, each with a fixed strategy (reversed order, seeded random order),
      receive the same bundles as the monitored engine and are compared with it after every bundle;
  (b) per bundle: forks of the pre-state (fresh Engine loaded from the monitored engine's own
      fetch_table data, validated against it) apply the bundle under EVERY pi when the permutation
      space of the bundle is <= 120 (<= 5 dirty nodes), 24 sampled ones otherwise;
  (c) whole-document recalculation: load + Calculate under sampled pi (all formula nodes dirty).
Trigger-formula columns (data columns with recalcWhen / recalcDeps) get shapes of their own: seed
document c06_trigger_rows (formulas reading SEVERAL ROWS of a trigger column in one access, next to
single-row readers), role-based multi-action bundles around one trigger column and its recalc
dependencies (C06Monitor.trigger_update: rows left clean / dirty / dirty-but-exempt by one bundle),
formulas reading several rows added on the fly (multi_row_reader); c06_trigger_sum reads them through
summary-table groups ($group.tot).  Three trigger documents are
explored a second time with the mix narrowed to these shapes (seed names ending in _focus).
Lookup indexes that come into being WHILE a bundle is recalculated, keyed by formula columns: seed
document c06_fkey (lookups keyed by formula columns whose rows need other formula cells only in some
rows; every index is created during load, so (c) meets them half-built) and the bundle shape
C06Monitor.fresh_lookup (a new lookup keyed by a formula column K of the current document, by K's
own value or by a column whose values meet K's, in one bundle with an edit that leaves K dirty in
some rows only), about a fifth of the bundles of the documents without trigger columns.
Bounded: seeded random histories; never a proof."""
import itertools
import math
import os
import random
import sys
import json
import re
from collections import Counter

sys.path.insert(0, os.path.dirname(os.path.dirname(os.path.abspath(__file__))))
from vlib import common
from vlib.rtc import eng, explore, gen

import engine as _engine      # real module
import useractions
import actions
import objtypes

PERM_ATTR = "_verif_pi"


# ------------------------------------------------------------------------------------------------
# the ghost parameter: permutation strategies
# ------------------------------------------------------------------------------------------------

def nth_permutation(seq, index):
  """The index-th permutation (Lehmer code, index taken modulo n!) of seq; index 0 = identity."""
  seq = list(seq)
  n = len(seq)
  if n < 2:
    return seq
  index %= math.factorial(n)
  out = []
  for i in range(n, 0, -1):
    f = math.factorial(i - 1)
    q, index = divmod(index, f)
    out.append(seq.pop(q))
  return out


def is_lookup_item(item):
  return item.node.col_id.startswith('#lookup')


class Strategy(object):
  """mode 'log'     : do not touch the engine's list, only record the sizes of each call
     mode 'index'   : call number c gets permutation numbers idx[c] = (plain_index, lookup_index)
     mode 'reverse' : both groups reversed
     mode 'random'  : seeded random permutation per call."""
  def __init__(self, mode="log", idx=None, seed=0):
    self.mode, self.idx, self.seed = mode, dict(idx or {}), seed
    self.calls = []          # (n_plain, n_lookup) per call
    self.rule_broken = 0     # calls in which the engine's own list did not have lookups last

  def apply(self, items):
    plain = [it for it in items if not is_lookup_item(it)]
    look = [it for it in items if is_lookup_item(it)]
    if list(items) != plain + look:
      self.rule_broken += 1
    c = len(self.calls)
    self.calls.append((len(plain), len(look)))
    if self.mode == "log":
      return items
    if self.mode == "reverse":
      return plain[::-1] + look[::-1]
    if self.mode == "random":
      r = random.Random(self.seed * 7919 + c)
      r.shuffle(plain); r.shuffle(look)
      return plain + look
    pi, li = self.idx.get(c, (0, 0))
    return nth_permutation(plain, pi) + nth_permutation(look, li)

  def describe(self):
    return {"mode": self.mode, "idx": {str(k): v for k, v in self.idx.items()}, "seed": self.seed}


def install_hook():
  """Wraps the real Engine._make_sorted_work_items once per process."""
  E = _engine.Engine
  if getattr(E, "_verif_c06_hooked", False):
    return
  orig = E._make_sorted_work_items
  def _make_sorted_work_items(self, nodes):
    items = orig(self, nodes)
    strat = getattr(self, PERM_ATTR, None)
    if strat is None:
      return items
    return strat.apply(items)
  _make_sorted_work_items._verif_orig = orig
  E._make_sorted_work_items = _make_sorted_work_items
  E._verif_c06_hooked = True


def set_strategy(e, strat):
  setattr(e, PERM_ATTR, strat)


def space_of(calls):
  """Size of the permutation space of a bundle whose reference run made these calls."""
  n = 1
  for (p, l) in calls:
    n *= math.factorial(p) * math.factorial(l)
    if n > 10**9: break
  return n


def all_strategies(calls):
  """Every pi of the (finite) space given by the reference run's calls, identity excluded."""
  ranges = []
  keys = []
  for c, (p, l) in enumerate(calls):
    if p > 1 or l > 1:
      keys.append(c)
      ranges.append([(a, b) for a in range(math.factorial(p)) for b in range(math.factorial(l))])
  for combo in itertools.product(*ranges):
    if all(x == (0, 0) for x in combo):
      continue
    yield Strategy("index", dict(zip(keys, combo)))


def sampled_strategies(calls, n, rng):
  out = [Strategy("reverse")]
  for _ in range(n - 1):
    idx = {}
    for c, (p, l) in enumerate(calls):
      if p > 1 or l > 1:
        idx[c] = (rng.randrange(math.factorial(p)), rng.randrange(math.factorial(l)))
    out.append(Strategy("index", idx))
  return out


# ------------------------------------------------------------------------------------------------
# observation helpers
# ------------------------------------------------------------------------------------------------

def fork_by_load(e, strat=None):
  """Fresh real Engine holding the same document as `e`: load_meta_tables/load_table from e's own
  fetch_table data (objects handed over as they are), then Calculate.  Returns (engine, group)."""
  f = _engine.Engine()
  rest = f.load_meta_tables(e.fetch_table('_grist_Tables'), e.fetch_table('_grist_Tables_column'))
  for t in rest:
    f.load_table(e.fetch_table(t, formulas=True))
  if strat is not None:
    set_strategy(f, strat)
  g = f.apply_user_actions([useractions.from_repr(['Calculate'])])
  return f, g


def stored_cells(group):
  """Stored actions as a multiset that forgets order: data actions are exploded into per-cell
  entries, structural actions are kept whole."""
  out = Counter()
  for a in eng.stored_reprs(group):
    name = a[0]
    if name in ("BulkUpdateRecord", "BulkAddRecord", "ReplaceTableData"):
      _, t, rows, cols = a
      if name != "BulkUpdateRecord":
        for r in rows: out[(name, t, r)] += 1
      for c, vals in cols.items():
        for r, v in zip(rows, vals): out[("cell", name, t, r, c, eng._norm(v))] += 1
    elif name in ("UpdateRecord", "AddRecord"):
      _, t, r, cols = a
      if name == "AddRecord": out[(name, t, r)] += 1
      for c, v in cols.items(): out[("cell", "Bulk" + name, t, r, c, eng._norm(v))] += 1
    elif name == "BulkRemoveRecord":
      for r in a[2]: out[("RemoveRecord", a[1], r)] += 1
    else:
      out[json.dumps(a, sort_keys=True, default=repr)] += 1
  return out


def counter_diff(a, b, limit=6):
  out = []
  for k in sorted(set(a) | set(b), key=repr):
    if a.get(k, 0) != b.get(k, 0):
      out.append("%r: %d vs %d" % (k, a.get(k, 0), b.get(k, 0)))
      if len(out) >= limit: break
  return out


def user_formulas(e):
  out = {}
  for t in eng.user_tables(e):
    for (cid, ctype, is_formula, formula) in eng.schema_columns(e, t):
      if formula: out["%s.%s" % (t, cid)] = formula
  return out


SWALLOWS = re.compile(r"\b(IFERROR|ISERROR|ISERR)\b|\btry\s*:|\bexcept\b")
LOOKUP_KEY = re.compile(r"(?:lookupRecords|lookupOne|PREVIOUS|NEXT|RANK)\s*\(([^()]*(?:\([^()]*\)[^()]*)*)\)")


def special_cycles(diff_lines, formulas):
  """Static (by-name, table-blind) column reference graph of the document.  Returns the set of
  kinds {'swallow', 'lookup'} such that EVERY differing column lies on, or depends on, a cycle that
  passes through a column whose formula swallows exceptions ('swallow') / does a lookup keyed or
  ordered by a column of that same cycle ('lookup')."""
  by_name = {}
  for key, f in formulas.items():
    by_name.setdefault(key.split(".", 1)[1], []).append(f)
  names = set(by_name)
  words = lambda f: set(w for w in re.findall(r"[A-Za-z_][A-Za-z_0-9]*", f) if w in names)
  graph = {n: set(w for f in fs for w in words(f)) for n, fs in by_name.items()}
  def reach(n):
    seen, todo = set(), list(graph.get(n, ()))
    while todo:
      x = todo.pop()
      if x in seen: continue
      seen.add(x); todo.extend(graph.get(x, ()))
    return seen
  reachable = {n: reach(n) for n in names}
  def scc(n):
    return set(x for x in reachable[n] if n in reachable[x]) | ({n} if n in reachable[n] else set())
  def kinds_of_cycle(members):
    out = set()
    for x in members:
      for f in by_name.get(x, ()):
        if SWALLOWS.search(f): out.add("swallow")
        for m in LOOKUP_KEY.finditer(f):
          if words(m.group(1)) & members: out.add("lookup")
    return out
  cols = set()
  for l in diff_lines:
    m = re.search(r"([A-Za-z_][A-Za-z_0-9]*)\.([A-Za-z_][A-Za-z_0-9]*)\[", l) or \
        re.search(r"'([A-Za-z_][A-Za-z_0-9]*)', \d+, '([A-Za-z_][A-Za-z_0-9]*)'", l)
    if m: cols.add(m.group(2))
  if not cols: return set()
  result = None
  for c in cols:
    kinds = set()
    for x in (reachable.get(c, set()) | {c}):
      if x in names and x in reachable[x]:
        kinds |= kinds_of_cycle(scc(x))
    result = kinds if result is None else (result & kinds)
  return result or set()


def error_kinds(diff_lines):
  return sorted(set(x for l in diff_lines for x in
                    ("CircularRefError", "TypeError", "AttributeError", "KeyError") if x in l))


# ------------------------------------------------------------------------------------------------
# seed documents with cycles (added to gen.SEEDS at import time; gen.py itself is not edited)
# ------------------------------------------------------------------------------------------------
_col = gen._col
MY_SEEDS = {
  "c06_cycle": [
    [["AddTable", "A", [_col("n", "Int"), _col("a", "Any", "$n + ($b or 0)"), _col("b", "Any", "$c"),
                        _col("c", "Any", "$a if $n > 1 else 5"), _col("d", "Any", "$d"),
                        _col("f", "Any", "$n * 2")]]],
    [["BulkAddRecord", "A", [None, None, None], {"n": [1, 2, 3]}]],
  ],
  "c06_cross": [
    [["AddTable", "B", [_col("s", "Text")]],
     ["AddTable", "A", [_col("n", "Int"), _col("r", "Ref:B"), _col("x", "Any", "$r.y"),
                        _col("z", "Any", "len(B.lookupRecords(back=$id))")]],
     ["AddColumn", "B", "back", {"type": "Ref:A", "isFormula": False}],
     ["AddColumn", "B", "y", {"type": "Any", "isFormula": True, "formula": "($back.x or 0) + 1"}],
     ["AddColumn", "B", "w", {"type": "Any", "isFormula": True,
                              "formula": "sum(r.n or 0 for r in A.lookupRecords(r=$id))"}]],
    [["BulkAddRecord", "B", [None, None, None], {"s": ["p", "q", "r"]}],
     ["BulkAddRecord", "A", [None, None, None], {"n": [1, 2, 3], "r": [1, 2, 2]}],
     ["BulkUpdateRecord", "B", [1, 2, 3], {"back": [2, 3, 1]}]],
  ],
  "c06_rows": [     # dependencies that cross rows and columns in both directions, without a cycle
    [["AddTable", "A", [_col("n", "Int"), _col("o", "Ref:A"), _col("a", "Any", "$n + ($o.b or 0)"),
                        _col("b", "Any", "$a if rec.id == 2 else 7"),
                        _col("c", "Any", "IFERROR($a, -1) + IFERROR($o.b, -1)"),
                        _col("d", "Any", "try:\n  return $c + $b\nexcept Exception:\n  return -5")]]],
    [["BulkAddRecord", "A", [1, 2, 3], {"n": [1, 2, 3], "o": [2, 1, 3]}]],
  ],
  "c06_trigger": [  # trigger-formula columns with recalcDeps, read by formula columns that sort
                    # before and after them (col refs: manualSort 1, x 2, y 3, stamp 4, mark 5)
    [["AddTable", "A", [_col("x", "Int"), _col("y", "Int"),
                        _col("stamp", "Int", "($x or 0) * 10", isFormula=False),
                        _col("mark", "Text", "'%s/%s' % ($x, $y)", isFormula=False),
                        _col("amount", "Any", "($stamp or 0) + 1"),
                        _col("zz", "Any", "[$stamp, $mark, $amount]")]]],
    [["UpdateRecord", "_grist_Tables_column", 4, {"recalcWhen": 0, "recalcDeps": ["L", 2]}],
     ["UpdateRecord", "_grist_Tables_column", 5, {"recalcWhen": 0, "recalcDeps": ["L", 2, 3]}]],
    [["BulkAddRecord", "A", [None, None], {"x": [1, 2], "y": [5, 6]}]],
  ],
  "c06_trigger_rows": [  # trigger-formula columns read SEVERAL ROWS AT A TIME (record-set attribute:
                         # lookupRecords(...).total, O.all.total, $peers.total) by formula columns of
                         # the same and of another table, next to single-row readers; 4 rows
                         # (col refs of O: manualSort 1, q 2, price 3, k 4, total 5, stamp 6)
    [["AddTable", "O", [_col("q", "Int"), _col("price", "Int"), _col("k", "Text"),
                        _col("total", "Int", "($q or 0) * ($price or 0)", isFormula=False),
                        _col("stamp", "Int", "(value or 0) + 1", isFormula=False),
                        _col("peers", "RefList:O"),
                        _col("gross", "Any", "($total or 0) + 10"),
                        _col("all_tot", "Any", "sum(v or 0 for v in O.all.total)"),
                        _col("peer_tot", "Any", "sum(v or 0 for v in $peers.total)"),
                        _col("same_k", "Any", "list(O.lookupRecords(k=$k).stamp)")]],
     ["AddTable", "P", [_col("name", "Text"),
                        _col("spent", "Any", "sum(v or 0 for v in O.lookupRecords(p=$id).total)"),
                        _col("stamps", "Any", "list(O.lookupRecords(p=$id).stamp)")]],
     ["AddColumn", "O", "p", {"type": "Ref:P", "isFormula": False}]],
    [["UpdateRecord", "_grist_Tables_column", 5, {"recalcWhen": 0, "recalcDeps": ["L", 2, 3]}],
     ["UpdateRecord", "_grist_Tables_column", 6, {"recalcWhen": 0, "recalcDeps": ["L", 2]}]],
    [["BulkAddRecord", "P", [None, None], {"name": ["ann", "bob"]}],
     ["BulkAddRecord", "O", [None, None, None, None],
      {"p": [1, 1, 1, 2], "q": [1, 2, 3, 4], "price": [10, 20, 30, 40], "k": ["a", "a", "b", "a"],
       "peers": [["L", 2, 3], ["L", 1, 3, 4], None, ["L", 1, 2]]}]],
  ],
  "c06_trigger_sum": [   # trigger-formula columns read through summary-table groups ($group.tot:
                         # several rows in one access) and a same-table lookup; 5 rows
                         # (col refs of T: manualSort 1, a 2, b 3, grp 4, tot 5, cnt 6)
    [["AddTable", "T", [_col("a", "Int"), _col("b", "Int"), _col("grp", "Text"),
                        _col("tot", "Int", "($a or 0) + ($b or 0)", isFormula=False),
                        _col("cnt", "Int", "(value or 0) + 1", isFormula=False),
                        _col("dbl", "Any", "($tot or 0) * 2"),
                        _col("grp_tot", "Any", "sum(v or 0 for v in T.lookupRecords(grp=$grp).tot)")]]],
    [["UpdateRecord", "_grist_Tables_column", 5, {"recalcWhen": 0, "recalcDeps": ["L", 2, 3]}],
     ["UpdateRecord", "_grist_Tables_column", 6, {"recalcWhen": 0, "recalcDeps": ["L", 2]}]],
    [["BulkAddRecord", "T", [None] * 5, {"a": [1, 2, 3, 4, 5], "b": [10, 20, 30, 40, 50],
                                         "grp": ["x", "x", "y", "x", "y"]}]],
    [["CreateViewSection", 1, 0, "record", [4], None]],          # summary by grp
    [["AddColumn", "T_summary_grp", "stot", {"type": "Any", "isFormula": True,
                                             "formula": "SUM(v or 0 for v in $group.tot)"}],
     ["AddColumn", "T_summary_grp", "cnts", {"type": "Any", "isFormula": True,
                                             "formula": "list($group.cnt)"}]],
  ],
  "c06_fkey": [     # lookups KEYED BY FORMULA COLUMNS whose rows do not become ready together: Item.key
                    # needs another (cross-table) formula cell only in the rows that have no `own`
                    # value, Item.kb is derived from key and a second formula column; the indexes
                    # on them are read from another table (Board), from the same table (peers) and
                    # in sorted form (ids).  No cycle.
    [["AddTable", "Cat", [_col("name", "Text"), _col("base", "Int"),
                          _col("label", "Any", "$name.upper() if $name else 'C%d' % ($base or 0)")]],
     ["AddTable", "Item", [_col("cat", "Ref:Cat"), _col("own", "Text"), _col("n", "Int"),
                           _col("bucket", "Any", "($n or 0) // 10"),
                           _col("key", "Any", "$own or $cat.label"),
                           _col("kb", "Any", "'%s/%s' % ($key, $bucket)"),
                           _col("peers", "Any", "len(Item.lookupRecords(key=$key))")]],
     ["AddTable", "Board", [_col("k", "Text"), _col("b", "Int"),
                            _col("cnt", "Any", "len(Item.lookupRecords(key=$k))"),
                            _col("ids", "Any", "[r.id for r in Item.lookupRecords(key=$k, order_by='-n')]"),
                            _col("kbs", "Any", "len(Item.lookupRecords(kb='%s/%s' % ($k, $b)))")]]],
    [["BulkAddRecord", "Cat", [None, None], {"name": ["x", ""], "base": [1, 2]}],
     ["BulkAddRecord", "Item", [None] * 5, {"cat": [1, 1, 2, 2, 1], "own": ["M1", "", "", "", "C2"],
                                            "n": [5, 12, 17, 25, 31]}],
     ["BulkAddRecord", "Board", [None] * 4, {"k": ["X", "M1", "C2", "zz"], "b": [1, 0, 1, 2]}]],
  ],
  "c06_lookup_cycle": [
    [["AddTable", "A", [_col("n", "Int"), _col("k", "Any", "len(A.lookupRecords(k=$n))"),
                        _col("m", "Any", "A.lookupOne(n=$n + 1).m"),
                        _col("p", "Any", "(A.lookupOne(n=$n - 1).p or 0) + 1")]]],
    [["BulkAddRecord", "A", [None, None, None], {"n": [0, 1, 2]}]],
  ],
}
gen.SEEDS.update(MY_SEEDS)
# "<doc>_focus": the same seed document, explored with the mix narrowed to the trigger shapes
# (role-based multi-action updates around a trigger column, formulas reading several of its rows)
FOCUS = "_focus"
for _name in ("c06_trigger_rows", "c06_trigger_sum", "trigger_deps"):
  gen.SEEDS[_name + FOCUS] = gen.SEEDS[_name]

FRESH_PREFIX = "aL"      # columns added by C06Monitor.fresh_lookup ("aL..", "zzaL..")

CYCLE_FORMULAS = [
  "$a", "$b", "$c", "$d", "$f", "$n", "$x", "$y", "$z", "$k", "$m", "$p", "$g",
  "$a + 1 if $n > 1 else $n", "($b or 0) + ($c or 0)", "$f + $g", "$r.x", "$r.y", "$back.x",
  "$back.z", "sum(r.f or 0 for r in A.all)", "len(A.lookupRecords(f=$n))",
  "A.lookupOne(n=$n).f", "A.lookupOne(n=$id).a", "(A.lookupOne(id=$id - 1).a or 0) + 1",
  "(A.lookupOne(id=$id + 1).b or 0) + 1", "len(A.lookupRecords(a=$a))",
  "max([r.n for r in A.all if r.n is not None] or [0])", "$n * 2", "rec.id",
  # formulas that swallow exceptions: a pending OrderError must not leak into the value
  "IFERROR($a, -1)", "IFERROR($b, -1) + IFERROR($c, -2)", "IFERROR($o.a, 0)", "$o.b", "$o.a",
  "try:\n  return $b\nexcept Exception:\n  return -1", "try:\n  v = $c\nexcept:\n  v = -3\nv",
  "$a if rec.id == 2 else 7", "$n + ($o.b or 0)", "ISERROR($d)", "IF($n > 1, $a, $b)",
  # lookups keyed by a formula column, looked up by that column's own value (always a hit)
  "len(A.lookupRecords(f=$f))", "len(A.lookupRecords(c=$c))", "[r.id for r in A.lookupRecords(b=$b)]",
]


# ------------------------------------------------------------------------------------------------
# the monitor
# ------------------------------------------------------------------------------------------------

class C06Monitor(explore.Monitor):
  seeds = ("c06_cycle", "c06_cross", "c06_rows", "c06_lookup_cycle", "c06_fkey", "c06_trigger", "trigger_deps",
           "basic", "refs", "lookup", "summary", "c06_trigger_rows", "c06_trigger_sum",
           "c06_trigger_rows" + FOCUS, "c06_trigger_sum" + FOCUS, "trigger_deps" + FOCUS)
  length = 4
  weights = {"modify_formula": 12, "add_formula_col": 8, "to_formula": 4, "update": 14,
             "bulk_update": 8, "add": 8, "remove": 5, "multi": 8, "invalid": 1, "view": 0,
             "label": 0, "meta_update": 1, "add_table": 1, "remove_table": 0, "upsert": 1,
             "replace_data": 1, "summary": 1}
  max_perms_small = 120
  n_sampled = 24
  history_budget = 90       # quick tier: permuted fork runs per history (deterministic cost cap)
  n_recalc = 4

  def __init__(self):
    install_hook()
    self.counts = Counter()
    self.known = set(k.get("match", {}).get("class") for k in common.load_known_findings("C06"))
    self.reported = set()      # known-finding classes this worker process has already reported

  def _filter(self, st, failures, bundle, history=()):
    """A failure whose root-cause class is a listed known finding is returned (hence shrunk and
    reported by explore) only the first time this worker process meets the class; later
    occurrences are counted, not re-shrunk, and the history goes on (forks never touch the
    monitored engine; a lockstep shadow that diverged is dropped).  Unknown classes always pass."""
    out = []
    for clause, detail in failures:
      cls = self.classify(clause, detail, bundle, history)
      if cls in self.known:
        if cls in self.reported:
          self._count(known_class_occurrences_not_reshrunk=1)
          continue
        self.reported.add(cls)
      out.append((clause, detail))
    return out

  def _count(self, **kw):
    """Side channel for run statistics (explore() only aggregates bundles): one small JSON file per
    worker process in the directory named by C06_STATS_DIR (set and removed by main)."""
    self.counts.update(kw)
    d = os.environ.get("C06_STATS_DIR")
    if d:
      try:
        with open(os.path.join(d, "%d.json" % os.getpid()), "w") as f:
          json.dump(dict(self.counts), f)
      except OSError:
        pass

  # -- generation: the default mix plus formulas that create / break cycles ------------------------
  def trigger_tables(self, e, g):
    """[(table, trigger-formula data columns)] of the tables that have rows"""
    tabs = g.doc(e)
    cands = []
    for t in g.data_tables(tabs):
      trig = [c for c in tabs[t][0] if not c[2] and c[3] and c[0] != "manualSort"]
      if trig and tabs[t][1]: cands.append((t, trig))
    return tabs, cands

  def recalc_deps(self, e, t, trig, data):
    """{trigger column id: ids of the data columns of t whose edits make it recalculate} from the
    metadata: recalcWhen 0 -> the columns listed in recalcDeps, 2 -> every data column, 1 -> none."""
    by_ref = {r["id"]: r for r in eng.meta_records(e, "_grist_Tables_column")}
    tref = eng.table_ref(e, t)
    mine = {r["colId"]: r for r in by_ref.values() if r["parentId"] == tref}
    data_ids = [c[0] for c in data]
    out = {}
    for c in trig:
      rec = mine.get(c[0]) or {}
      when, deps = rec.get("recalcWhen"), rec.get("recalcDeps")
      if when == 2:
        out[c[0]] = list(data_ids)
      elif when == 0 and isinstance(deps, (list, tuple)):
        ids = [by_ref[d]["colId"] for d in deps if d in by_ref]
        out[c[0]] = [i for i in ids if i in data_ids]
      else:
        out[c[0]] = []
    return out

  def trigger_update(self, e, g):
    """A bundle of 1-3 UpdateRecord / BulkUpdateRecord actions on a table with trigger-formula
    columns, focused on one trigger column c and the data columns it recalculates on (read from
    recalcWhen / recalcDeps).  Every row is given one of four roles and the bundle is built from
    the roles:
      U untouched;
      D an earlier action edits a dependency of c (c is dirty, to be recalculated);
      E an earlier action sets c explicitly together with a dependency (exempt only during that
        action, dirty afterwards);
      L the LAST action touches the row: it sets c explicitly together with a dependency (the shape
        the undo of a plain edit has: dirty but exempt from recalculation until the bundle ends),
        or sets c alone, or edits a dependency alone.
    So the rows of c end the bundle in DIFFERENT states - clean, dirty, dirty-but-exempt -, which
    is what a formula reading several rows of c in one access has to cope with."""
    rng = g.rng
    tabs, cands = self.trigger_tables(e, g)
    if not cands: return None
    t, trig = rng.choice(cands)
    data = [c for c in tabs[t][0] if not c[2] and not c[3] and c[0] != "manualSort"]
    by_id = {c[0]: c for c in tabs[t][0]}
    deps = self.recalc_deps(e, t, trig, data)
    focus = rng.choice([c for c in trig if deps[c[0]]] or trig)
    fdeps = [by_id[i] for i in deps[focus[0]]] or data
    rows = list(tabs[t][1])
    if len(rows) > 5: rows = sorted(rng.sample(rows, 5))
    role = {r: rng.choice("UUUDDDELLL") for r in rows}
    if not any(v in "DL" for v in role.values()):
      role[rng.choice(rows)] = rng.choice("DL")
    def value(c, r):
      pool = gen.values_for(c[1], rng, e, g.rows_of(e))
      if rng.random() < 0.8:      # mostly well-typed values: error cells hide differences
        pool = [v for v in pool if v is not None and not isinstance(v, (str, bool))
                or c[1] not in ("Int", "Numeric")] or pool
      if rng.random() < 0.9:      # mostly a CHANGE of the cell: writing the value a cell already
        try:                      # holds is dropped from the action and dirties nothing
          cur = e.tables[t].get_column(c[0]).raw_get(r)
          pool = [v for v in pool if type(v) is not type(cur) or v != cur] or pool
        except Exception:
          pass
      return rng.choice(pool)
    def action(rs, cols):
      cols = list(cols)
      if data and rng.random() < 0.2: cols.append(rng.choice(data))
      if not rs or not cols: return []
      if len(rs) == 1:
        return [["UpdateRecord", t, rs[0], {c[0]: value(c, rs[0]) for c in cols}]]
      if rng.random() < 0.3:        # one UpdateRecord per row instead of a bulk action
        return [["UpdateRecord", t, r, {c[0]: value(c, r) for c in cols}] for r in rs]
      return [["BulkUpdateRecord", t, rs, {c[0]: [value(c, r) for r in rs] for c in cols}]]
    others = [c for c in trig if c is not focus and rng.random() < 0.25]
    dep = lambda: [rng.choice(fdeps)] if fdeps else []
    early = [action([r for r in rows if role[r] == "D"], dep()),
             action([r for r in rows if role[r] == "E"], [focus] + others + dep())]
    rng.shuffle(early)
    last_kind = rng.choice(["set+dep"] * 7 + ["set"] * 2 + ["dep"] * 1)
    last_cols = {"set+dep": [focus] + others + dep(), "set": [focus] + others, "dep": dep()}[last_kind]
    last = action([r for r in rows if role[r] == "L"], last_cols)
    return (early[0] + early[1] + last) or None

  def multi_row_reader(self, e, g):
    """AddColumn / ModifyColumn giving some formula column a formula that reads SEVERAL ROWS of a
    trigger-formula column in one access (attribute of a record set), built on the current
    document: T.all.c, T.lookupRecords(k=$k).c, $reflist.c."""
    rng = g.rng
    tabs, cands = self.trigger_tables(e, g)
    if not cands: return None
    t, trig = rng.choice(cands)
    c = rng.choice(trig)[0]
    forms = ["list(%s.all.%s)" % (t, c),
             "sum(v for v in %s.all.%s if isinstance(v, (int, float)))" % (t, c)]
    host = rng.choice(g.data_tables(tabs))
    for k in tabs[t][0]:
      if not k[2] and not k[3] and k[0] != "manualSort":
        if host == t:
          forms.append("list(%s.lookupRecords(%s=$%s).%s)" % (t, k[0], k[0], c))
        if k[1] == "Ref:" + host:
          forms += ["list(%s.lookupRecords(%s=$id).%s)" % (t, k[0], c)] * 2
    for k in tabs[host][0]:
      if k[1] == "RefList:" + t and not k[2]:
        forms += ["list($%s.%s)" % (k[0], c)] * 2
    f = rng.choice(forms)
    fcols = [k for k in tabs[host][0] if k[2] and k[0] != "manualSort"]
    if fcols and rng.random() < 0.4:
      return [["ModifyColumn", host, rng.choice(fcols)[0], {"formula": f}]]
    if len(tabs[host][0]) < 12:
      # names sorting before and after the usual trigger column names
      return [["AddColumn", host, rng.choice(["aa", "b", "m", "rd", "zz2"]),
               {"type": "Any", "isFormula": True, "formula": f}]]
    return None

  def key_inputs(self, tabs, t, k):
    """(data columns, formula columns) of table t that formula column k reads through `$name`,
    directly or through other formula columns of t (static, by name)."""
    by_id = {c[0]: c for c in tabs[t][0]}
    data, forms, todo, seen = [], [], [k], set()
    while todo:
      c = todo.pop()
      if c[0] in seen: continue
      seen.add(c[0])
      for name in re.findall(r"\$([A-Za-z_][A-Za-z_0-9]*)", c[3] or ""):
        d = by_id.get(name)
        if d is None or d[0] in seen or d[0] == "manualSort": continue
        if d[2]:
          forms.append(d); todo.append(d)
        elif not d[3] and d not in data:
          data.append(d)
    return data, forms

  def fresh_lookup(self, e, g):
    """A bundle in which a lookup KEYED BY A FORMULA COLUMN K appears (AddColumn / ModifyColumn with
    a lookupRecords / lookupOne formula on K: unless the same index exists already, it is created
    while the bundle is recalculated) together with an edit that leaves K dirty in SOME rows: an
    UpdateRecord / BulkUpdateRecord of a data column K reads (mostly not in the first row, mostly
    copying another row's value so that keys collide and lookups hit), or a ModifyColumn of a
    formula column K reads (or of K).  The lookup is by K's own value in the same table (always a
    hit), or from another table by a column whose values meet K's."""
    rng = g.rng
    tabs = g.doc(e)
    dts = g.data_tables(tabs)
    cands = [(t, c) for t in dts if len(tabs[t][1]) >= 2 for c in tabs[t][0]
             if c[2] and c[0] not in ("manualSort", "group")]
    if not cands: return None
    t, k = rng.choice(cands)
    rows = list(tabs[t][1])
    data, forms = self.key_inputs(tabs, t, k)
    def cell(tab, col, r):
      try: return e.tables[tab].get_column(col).raw_get(r)
      except Exception: return None
    # -- the edit that dirties K in some rows
    dirty = []
    how = rng.choice(["update"] * 6 + ["modify"] * 2 + ["none"])
    if how == "update" and data:
      d = rng.choice(data)
      pool = rows[1:] if rng.random() < 0.8 else rows
      rs = sorted(rng.sample(pool, min(len(pool), rng.choice([1, 1, 2]))))
      def value(r):
        if rng.random() < 0.7:
          others = [cell(t, d[0], q) for q in rows if q != r]
          others = [v for v in others if not isinstance(v, (list, tuple)) and v != cell(t, d[0], r)]
          if others: return rng.choice(others)
        return rng.choice(gen.values_for(d[1], rng, e, g.rows_of(e)))
      if len(rs) == 1:
        dirty = [["UpdateRecord", t, rs[0], {d[0]: value(rs[0])}]]
      else:
        dirty = [["BulkUpdateRecord", t, rs, {d[0]: [value(r) for r in rs]}]]
    elif how == "modify":
      f = rng.choice(forms + [k])
      dirty = [["ModifyColumn", t, f[0], {"formula": rng.choice([f[3] + " ", "(%s)" % f[3]
                                                                  if "\n" not in f[3] else f[3] + "\n"])}]]
    # -- the new lookup
    K = k[0]
    kvals = set()
    for r in rows:
      v = cell(t, K, r)
      try: kvals.add(v)
      except TypeError: pass
    hosts = [h for h in dts if h != t and tabs[h][1]]
    if hosts and rng.random() < 0.4:
      host = rng.choice(hosts)
      cols = [c for c in tabs[host][0] if c[0] not in ("manualSort", "group")]
      def meets(c):
        for r in tabs[host][1]:
          try:
            if cell(host, c[0], r) in kvals: return True
          except TypeError: pass
        return False
      hit = [c for c in cols if meets(c)]
      x = "$" + rng.choice(hit or cols)[0] if (hit or cols) else "$id"
    else:
      host, x = t, "$" + K
    form = rng.choice(["len(%s.lookupRecords(%s=%s))", "[r.id for r in %s.lookupRecords(%s=%s)]",
                       "%s.lookupOne(%s=%s, order_by='-id').id",
                       "[r.id for r in %s.lookupRecords(%s=%s, order_by='-id')]"]) % (t, K, x)
    mine = [c for c in tabs[host][0] if c[2] and c[0].startswith(FRESH_PREFIX) and c[0] != K
            and c not in forms]                      # (never a column K reads: no new cycle)
    if mine and rng.random() < 0.3:
      look = [["ModifyColumn", host, rng.choice(mine)[0], {"formula": form}]]
    elif len(tabs[host][0]) < 12:
      # names sorting before and after the usual column names
      look = [["AddColumn", host, FRESH_PREFIX + rng.choice(["", "", "z"]),
               {"type": "Any", "isFormula": True, "formula": form}]]
    else:
      return None
    if rng.random() < 0.5:
      look = [["AddColumn", host, "zz" + look[0][2], look[0][3]]] if look[0][0] == "AddColumn" else look
    return (dirty + look) if rng.random() < 0.7 else (look + dirty)

  def gen_bundle(self, st, e, g):
    r = g.rng.random()
    has_trigger = bool(self.trigger_tables(e, g)[1])
    if not st.get("focus") and g.rng.random() < (0.08 if has_trigger else 0.22):
      b = self.fresh_lookup(e, g)
      if b: return b
    if st.get("focus") and has_trigger and r < 0.9:
      b = self.trigger_update(e, g) if r < 0.8 else self.multi_row_reader(e, g)
      if b: return b
    # documents with trigger-formula columns get the trigger shapes much more often
    if r > (0.5 if has_trigger else 0.8):
      b = self.multi_row_reader(e, g) if (has_trigger and r > 0.92) else self.trigger_update(e, g)
      if b: return b
    if r < (0.12 if has_trigger else 0.3):     # (fewer formula rewrites where the trigger shapes apply)
      tabs = g.doc(e)
      dts = g.data_tables(tabs)
      if dts:
        t = g.rng.choice(dts)
        cols = [c for c in tabs[t][0] if c[0] != "manualSort"]
        fcols = [c for c in cols if c[2]]
        acts = []
        for _ in range(g.rng.randint(1, 3)):
          if fcols and g.rng.random() < 0.8:
            c = g.rng.choice(fcols)
            acts.append(["ModifyColumn", t, c[0], {"formula": g.rng.choice(CYCLE_FORMULAS)}])
          elif len(cols) < 8:
            acts.append(["AddColumn", t, g.rng.choice("abcdfgxyzkmp"),
                         {"type": "Any", "isFormula": True, "formula": g.rng.choice(CYCLE_FORMULAS)}])
        if acts:
          return acts
    return g.bundle(e)

  # -- ghost state ------------------------------------------------------------------------------
  def start(self, e, seed_name):
    st = {"shadows": [], "skipped_forks": 0, "perm_runs": 0, "rng": random.Random(common.seed()),
          "focus": seed_name.endswith(FOCUS)}
    for strat in (Strategy("reverse"), Strategy("random", seed=common.seed() + 1)):
      try:
        f, _ = fork_by_load(e)
      except Exception:
        continue
      if eng.diff_snapshots(eng.snapshot(e), eng.snapshot(f)):
        continue                  # reload differs (C05/C07 matter): no valid shadow
      set_strategy(f, strat)
      st["shadows"].append((strat, f))
    return st

  def _run(self, f, bundle):
    try:
      return eng.apply(f, bundle), None
    except Exception as ex:
      return None, ex

  def before(self, st, e, bundle):
    """(b) forks of the pre-state apply the bundle under every / sampled pi."""
    st["fail"] = []
    pre = eng.snapshot(e)
    try:
      log = Strategy("log")
      ref, _ = fork_by_load(e)
    except Exception as ex:
      st["skipped_forks"] += 1
      return
    if eng.diff_snapshots(pre, eng.snapshot(ref)):
      st["skipped_forks"] += 1      # not a faithful fork; C05/C07 look at that, not C06
      self._count(forks_skipped_not_faithful=1)
      return
    set_strategy(ref, log)
    g_ref, x_ref = self._run(ref, bundle)
    snap_ref = eng.snapshot(ref)
    cells_ref = stored_cells(g_ref) if g_ref is not None else None
    calls = list(log.calls)
    space = space_of(calls)
    st["last_space"] = space
    if space <= 1:
      return
    left = self.history_budget - st["perm_runs"] if common.tier() == "quick" else 10**9
    if space <= self.max_perms_small and space - 1 <= left:
      strategies = list(all_strategies(calls))
      self._count(bundles_all_permutations=1, permuted_runs=len(strategies))
    else:
      n_s = self.n_sampled if common.tier() != "quick" else self.n_sampled // 2
      strategies = sampled_strategies(calls, max(4, min(n_s, left)), st["rng"])
      self._count(bundles_sampled_permutations=1, permuted_runs=len(strategies))
      if space <= self.max_perms_small:
        self._count(bundles_small_space_sampled_for_budget=1)
    for strat in strategies:
      f, _ = fork_by_load(e)
      set_strategy(f, strat)
      g, x = self._run(f, bundle)
      st["perm_runs"] += 1
      fail = self._compare("fork", strat, calls, snap_ref, cells_ref, x_ref, f, g, x)
      if fail:
        cls = self.classify(fail[0], fail[1], bundle, ())
        if cls in self.known and cls in self.reported:
          self._count(known_class_occurrences_not_reshrunk=1)
          continue               # keep looking at the other permutations of this bundle
        st["fail"].append(fail)
        break

  def _compare(self, how, strat, calls, snap_ref, cells_ref, x_ref, f, g, x):
    info = {"how": how, "pi": strat.describe(), "calls": calls}
    if (x is None) != (x_ref is None) or (x is not None and type(x) is not type(x_ref)):
      internal = x is not None and type(x) in (Exception, AssertionError)
      info["error"] = "own order: %r ; under pi: %r" % (x_ref, x)
      return ("C06.terminates" if internal else "C06.same_values", info)
    d = eng.diff_snapshots(snap_ref, eng.snapshot(f))
    if d:
      info["diff"] = d
      info["formulas"] = user_formulas(f)
      return ("C06.same_values", info)
    if g is not None and cells_ref is not None:
      d = counter_diff(cells_ref, stored_cells(g))
      if d:
        info["diff"] = d
        info["formulas"] = user_formulas(f)
        return ("C06.same_action_multiset", info)
    return None

  def after(self, st, e, bundle, group, exc):
    out = self._filter(st, list(st.get("fail") or []), bundle)
    if out:
      return out
    # (a) lockstep shadows
    snap = eng.snapshot(e)
    cells = stored_cells(group) if group is not None else None
    for strat, f in list(st["shadows"]):
      g, x = self._run(f, bundle)
      self._count(lockstep_runs=1)
      fail = self._compare("lockstep", strat, [], snap, cells, exc, f, g, x)
      if fail:
        st["shadows"] = [(s_, f_) for (s_, f_) in st["shadows"] if f_ is not f]
        out = self._filter(st, [fail], bundle)
        if out:
          return out
    # (c) whole-document recalculation under sampled pi
    if exc is None and group is not None and group.stored:
      try:
        log = Strategy("log")
        ref, g_ref = fork_by_load(e, log)
      except Exception:
        return []
      snap_ref = eng.snapshot(ref)
      cells_ref = stored_cells(g_ref)
      calls = list(log.calls)
      if space_of(calls) > 1:
        self._count(recalc_documents=1, permuted_runs=self.n_recalc)
        for strat in sampled_strategies(calls, self.n_recalc, st["rng"]):
          try:
            f, g = fork_by_load(e, strat); x = None
          except Exception as ex:
            f, g, x = None, None, ex
          st["perm_runs"] += 1
          if x is not None:
            return [("C06.terminates", {"how": "recalc", "pi": strat.describe(), "calls": calls,
                                        "error": repr(x)})]
          fail = self._compare("recalc", strat, calls, snap_ref, cells_ref, None, f, g, None)
          if fail:
            out = self._filter(st, [fail], bundle)
            if out:
              return out
            break
    return []

  def nontrivial(self, st, bundle, group, exc):
    return st.get("last_space", 1) > 1

  def classify(self, clause, detail, bundle, history):
    diff0 = detail.get("diff") or []
    if any("CircularRefError" in l for l in diff0):
      kinds = special_cycles(diff0, detail.get("formulas") or {})
      if "swallow" in kinds:
        return "cycle-through-error-swallowing-formula"
      if "lookup" in kinds:
        return "cycle-through-lookup-on-own-column"
    if diff0 and all(re.match(r"(table )?[A-Za-z0-9_]*_summary_[A-Za-z0-9_]*[ .]", l) for l in diff0) and \
        any("row ids" in l for l in diff0):
      # only summary tables differ, and in their ROW SETS: a summary table grouped by formula
      # columns gets a row for every key value its source rows pass through during recalculation
      return "summary-table-rows-for-transient-keys"
    kinds = sorted(set(a[0] for a in bundle))
    diff = detail.get("diff") or [detail.get("error", "")]
    return "%s|%s|%s|%s" % (clause, detail.get("how"), ",".join(kinds), ",".join(error_kinds(diff)))


def main():
  rep = common.Report("C06", "exploration")
  rep.assumptions += [
    common.SHIM_ASSUMPTION,
    "bounded: seeded random histories (vlib/rtc/gen.py alphabet plus cycle-creating formula edits) "
    "over 13 seed documents, 3 of them with circular references, one with cross-row dependencies, "
    "one with lookups keyed by formula columns whose rows become ready at different times (about "
    "a fifth of the bundles of the documents without trigger columns add a lookup keyed by a "
    "formula column together with an edit that dirties some rows of that column), "
    "four with trigger-formula columns (recalcDeps), two of these with formulas that read several "
    "rows of a trigger column at once (record-set attributes, summary-table groups); three trigger "
    "documents are explored twice, the second "
    "time (seed name *_focus) with 80% role-based multi-action trigger updates and 10% added "
    "multi-row readers; not a proof",
    "the ghost parameter pi permutes the list returned by the real Engine._make_sorted_work_items "
    "(wrapped at class level) keeping '#lookup' items at the end of the list (popped first), which "
    "is the engine's own rule; nested re-ordering driven by OrderError is the engine's own",
    "forks of a pre-state are fresh Engines loaded from the monitored engine's fetch_table data; a "
    "fork whose snapshot differs from the monitored engine is not used (counted as skipped)",
    "volatile functions (NOW, TODAY, random, REQUEST) are not in the formula pool",
  ]
  rep.coverage["rule"] = (
    "one evaluation = one user bundle applied to the real engine; for each, (a) 2 lockstep shadow "
    "engines with reversed / random work-item order, (b) forks of the pre-state under EVERY "
    "permutation when the bundle's permutation space is <= 120 (<= 5 dirty nodes per call), 24 "
    "sampled otherwise (quick tier: 12 sampled, and at most 90 permuted fork runs per history, after which small spaces are sampled too; counted in order_statistics), (c) load+Calculate of the post-state under 4 sampled permutations; a root-cause class that is a "
    "listed known finding is reported (and shrunk) once per worker process, later occurrences are "
    "only counted (order_statistics.known_class_occurrences_not_reshrunk) and the history goes "
    "on; "
    "non-trivial = the bundle's reference run had a permutation space > 1 (at least one call of "
    "_make_sorted_work_items with >= 2 permutable nodes)")
  import tempfile, shutil, glob
  stats_dir = tempfile.mkdtemp(prefix="verif-c06-")
  os.environ["C06_STATS_DIR"] = stats_dir
  try:
    explore.explore(rep, "checks.C06", "C06Monitor", n_quick=112, n_thorough=2800,
                    budget_quick_s=30, budget_thorough_s=800)
    tot = Counter()
    for p in glob.glob(os.path.join(stats_dir, "*.json")):
      try:
        tot.update(json.load(open(p)))
      except Exception:
        pass
    rep.coverage["order_statistics"] = dict(tot)
  finally:
    shutil.rmtree(stats_dir, ignore_errors=True)
  rep.coverage["permutation_space_small_limit"] = 120
  rep.coverage["sampled_permutations_above_limit"] = 24
  return rep.finish()


if __name__ == "__main__":
  sys.exit(main())
