"""C25 Migrations are total and reach the current schema — bounded run-time contract on the real
migrations.create_migrations (+ table_data_set.TableDataSet as the document it is applied to).

A document at version v is built with the repository's own pieces: the version-0 fixture
test_migrations.schema_version0(), the real migrations 1..v applied to it, then records added to
every metadata table that exists at v: two user tables A, B described consistently in
_grist_Tables/_grist_Tables_column (with their data), N records in every other metadata table,
every Ref cell pointing at an existing record (or 0 for self-referencing columns), every typed
cell holding a value of its declared type, and every *free* Text cell (all Text columns except
tableId/colId/type/formula/parentKey) holding text from an adversarial pool.

  requires : the document is as above (valid references, declared types; no column of the
             deprecated 'Image' type, which migration 17 converts by design)
  ensures  : C25.total               create_migrations(all tables) returns, and the returned
                                     actions apply to the document (TableDataSet) without error
             C25.schema_current      afterwards the schema of every _grist_* table equals
                                     schema.schema_create_actions()
             C25.version_set         _grist_DocInfo.schemaVersion == SCHEMA_VERSION
             C25.noop_when_current   v == SCHEMA_VERSION => the only action is the schemaVersion update
             C25.user_cells_untouched  row ids and cells of the user tables' columns are unchanged
             C25.metadata_only       create_migrations(metadata tables, metadata_only=True) raises the
                                     documented 'need all tables' exception iff a migration in
                                     (v, current] needs all tables, and otherwise returns the same actions
Bounded, never a proof."""
import os, sys
sys.path.insert(0, os.path.dirname(os.path.dirname(os.path.abspath(__file__))))
import copy
import json
import logging
import random
import traceback
import warnings

from vlib import common
from vlib.rtc import fn

common.setup_grist_path()
warnings.simplefilter("ignore")
logging.disable(logging.CRITICAL)

PROP = "C25"

# Adversarial texts for free Text cells (valid JSON of the wrong shape, wrong-typed members, huge
# numbers, invalid JSON, non-JSON).
TEXTS = [
  "abc", " ", "null", "true", "0", "5", "-1", "1.5", "1e999", "\"str\"", "\"1\"", "\"Comment\"", "[]", "[1]", "[1, 2]",
  "[[1]]", "[\"a\"]", "[null]", "[{}]", "[0]", "[99]", "{}", "{\"a\": 1}", "{", "[1,", "{\"a\":", "NaN", "Infinity",
  "{\"visibleCol\": \"x\"}", "{\"visibleCol\": \"id\"}", "{\"visibleCol\": [\"x\"]}", "{\"visibleCol\": 5}",
  "{\"visibleCol\": null}", "{\"visibleCol\": {\"a\": 1}}", "{\"visibleCol\": \"y\", \"alignment\": \"left\"}",
  "{\"filterBar\": true}", "{\"filterBar\": \"yes\"}", "{\"filterBar\": []}", "{\"rulesOptions\": [1]}",
  "{\"timeCreated\": 1700000000000}", "{\"timeCreated\": 1700000000000.5, \"timeUpdated\": null, \"resolved\": 1, \"text\": \"hi\"}",
  "{\"timeCreated\": \"x\"}", "{\"timeCreated\": [1]}", "{\"timeCreated\": {}}", "{\"timeCreated\": true}",
  "{\"timeCreated\": 1e999}", "{\"timeCreated\": -1e999}", "{\"timeCreated\": NaN}", "{\"timeCreated\": 1e308}",
  "{\"timeCreated\": 1" + "0" * 400 + "}", "{\"timeUpdated\": \"x\"}", "{\"timeUpdated\": 1e999}", "{\"resolved\": \"no\"}",
  "{\"resolved\": [1]}", "[\"Comment\"]", "[\"Comment\", [\"Const\", true]]", "[\"Comment\", [\"Const\", true], \"memo\"]",
  "[\"Comment\", [\"Const\", true], 5]", "[\"Comment\", [\"Const\", true], null]", "[\"Comment\", [\"Const\", true], [1]]",
  "[\"Const\", true]", "{\"0\": \"Comment\"}", "{\"1\": {\"included\": [1]}}", "{\"1\": 5, \"2\": null, \"3\": [\"x\"]}",
  "{\"1\": 1e999}", "\"123\"", "123", "[\"1\", \"2\", \"3\"]", "\ud800", "\x00", "x" * 5000, "[" * 3000 + "]" * 3000,
  "1" + "0" * 5000, "Summary_A_1", "$x.lookupOrAddDerived($a, $b)", "A.lookupOrAddDerived($x)", "A.lookupRecords(Summary_A_1=$id)",
]
# a member that lets one branch of a migration go through (a resolvable visibleCol) next to members
# that are odd elsewhere in the same object: what is parsed successfully is re-serialised later
for _vc in ("id", "x", "y", "a", "A", "name"):
  TEXTS += ["{\"visibleCol\": \"%s\", \"zoom\": 1e999}" % _vc,
            "{\"visibleCol\": \"%s\", \"n\": NaN, \"l\": [Infinity, -Infinity]}" % _vc,
            "{\"visibleCol\": \"%s\", \"big\": 1%s}" % (_vc, "0" * 400),
            "{\"visibleCol\": \"%s\", \"deep\": %s%s, \"s\": \"\\ud800\"}" % (_vc, "[" * 200, "]" * 200)]
BENIGN = ""
STRUCTURAL = {("_grist_Tables", "tableId"), ("_grist_Tables_column", "colId"), ("_grist_Tables_column", "type"),
              ("_grist_Tables_column", "formula"), ("_grist_Views_section", "parentKey")}
N_REC = 3

_STATE = {}


def mods():
  if "m" not in _STATE:
    import actions, migrations, schema, table_data_set, test_migrations
    _STATE["m"] = (actions, migrations, schema, table_data_set, test_migrations)
  return _STATE["m"]


def empty_doc(v):
  """TableDataSet at schema version v: the v0 fixture with the real migrations 1..v applied."""
  actions, migrations, schema, table_data_set, test_migrations = mods()
  key = ("empty", v)
  if key not in _STATE:
    td = table_data_set.TableDataSet()
    td.apply_doc_actions(test_migrations.schema_version0())
    for k in range(1, v + 1):
      f = migrations.all_migrations.get(k)
      if f: f(td)
    _STATE[key] = td
  return copy.deepcopy(_STATE[key])


USER_COLS = {
  "A": [("x", "Int", [1, 2, 3]), ("r", "Ref:B", [1, 2, 0]), ("name", "Text", ["a", "b", "c"]),
        ("l", "RefList:B", [None, [1], [1, 2]]), ("d", "Date", [None, 86400.0, 0.0])],
  "B": [("y", "Numeric", [1.5, 2.5]), ("s", "Text", ["p", "q"]), ("back", "Ref:A", [3, 0]), ("any", "Any", [None, "z"])],
}
USER_ROWS = {"A": [1, 2, 3], "B": [1, 2]}


def free_text_columns(v):
  """[(table, col)] free Text columns of the metadata tables that exist at version v."""
  key = ("free", v)
  if key not in _STATE:
    td = empty_doc(v)
    out = []
    for t in sorted(td._schema):
      for c in sorted(td._schema[t]):
        info = td._schema[t][c]
        if info.get("type") == "Text" and not info.get("isFormula") and (t, c) not in STRUCTURAL:
          out.append((t, c))
    _STATE[key] = out
  return _STATE[key]


def typed_value(col_type, i, ids_of, self_table):
  """A value of the declared type for record i (deterministic)."""
  base = col_type.split(":")[0]
  if base == "Ref":
    target = col_type.split(":", 1)[1]
    if target == self_table: return 0
    ids = ids_of.get(target) or [0]
    return ids[i % len(ids)]
  if base == "RefList":
    target = col_type.split(":", 1)[1]
    ids = ids_of.get(target) or []
    return None if (i % 2 == 0 or not ids or target == self_table) else [ids[i % len(ids)]]
  if base in ("Int", "Id"): return [0, 1, 5, -1][i % 4]
  if base == "Bool": return bool(i % 2)
  if base in ("Numeric", "PositionNumber", "ManualSortPos"): return [1.0, 2.5, 3.0][i % 3]
  if base in ("DateTime", "Date"): return [1700000000.0, None, 0.0][i % 3]
  if base in ("Text", "Choice"): return BENIGN
  return None      # ChoiceList, Attachments, Any, Blob, unknown


def build_doc(v, fill):
  """fill: {(table, col): text or [texts per record]} for free Text cells; others are benign."""
  actions, migrations, schema, table_data_set, test_migrations = mods()
  td = empty_doc(v)
  sch = td._schema
  def text_for(t, c, i):
    x = fill.get((t, c), BENIGN)
    return x[i % len(x)] if isinstance(x, list) else x
  # 1. user tables: metadata rows + data
  ids_of = {"_grist_Tables": [1, 2]}
  td.apply_doc_action(actions.BulkAddRecord("_grist_Tables", [1, 2], {"tableId": ["A", "B"]}))
  col_rows, ref = [], 1
  for ti, tname in enumerate(["A", "B"]):
    for pos, (cid, ctype, _) in enumerate(USER_COLS[tname]):
      col_rows.append((ref, ti + 1, float(pos + 1), cid, ctype)); ref += 1
  ids_of["_grist_Tables_column"] = [r[0] for r in col_rows]
  cols = {"parentId": [r[1] for r in col_rows], "parentPos": [r[2] for r in col_rows],
          "colId": [r[3] for r in col_rows], "type": [r[4] for r in col_rows],
          "isFormula": [False] * len(col_rows), "formula": [""] * len(col_rows)}
  td.apply_doc_action(actions.BulkAddRecord("_grist_Tables_column", ids_of["_grist_Tables_column"], cols))
  for tname in ("A", "B"):
    td.apply_doc_action(actions.AddTable(tname, [
        {"id": cid, "type": ctype, "isFormula": False, "formula": ""} for cid, ctype, _ in USER_COLS[tname]]))
    td.apply_doc_action(actions.BulkAddRecord(tname, list(USER_ROWS[tname]),
                                              {cid: list(vals) for cid, _, vals in USER_COLS[tname]}))
  # 2. N_REC records in every other metadata table (DocInfo: exactly one), in dependency-free order:
  #    first allocate ids for all tables, then fill (so that Refs can point anywhere).
  meta = [t for t in sorted(sch) if t.startswith("_grist_") and t not in ("_grist_Tables", "_grist_Tables_column")]
  for t in meta:
    ids_of[t] = [1] if t == "_grist_DocInfo" else list(range(1, N_REC + 1))
  for t in meta:
    ids = ids_of[t]
    existing = td.all_tables[t].row_ids
    values = {}
    for c, info in sch[t].items():
      if info.get("isFormula"): continue
      ctype = info.get("type", "Any")
      if ctype == "Text" and (t, c) not in STRUCTURAL:
        values[c] = [text_for(t, c, i) for i in range(len(ids))]
      elif (t, c) == ("_grist_Views_section", "parentKey"):
        values[c] = ["record", "detail", "chart"][:len(ids)]
      elif (t, c) == ("_grist_DocInfo", "schemaVersion"):
        values[c] = [v]
      else:
        values[c] = [typed_value(ctype, i, ids_of, t) for i in range(len(ids))]
    if existing:
      td.apply_doc_action(actions.BulkUpdateRecord(t, list(existing), {c: vs[:len(existing)] for c, vs in values.items()}))
    else:
      td.apply_doc_action(actions.BulkAddRecord(t, ids, values))
  # 3. the remaining (free / typed) columns of the two tables handled specially
  for t in ("_grist_Tables", "_grist_Tables_column"):
    ids = td.all_tables[t].row_ids
    values = {}
    for c, info in sch[t].items():
      if info.get("isFormula") or c in ("tableId", "parentId", "parentPos", "colId", "type", "isFormula", "formula"):
        continue
      ctype = info.get("type", "Any")
      if ctype == "Text":
        values[c] = [text_for(t, c, i) for i in range(len(ids))]
      else:
        values[c] = [typed_value(ctype, i, ids_of, t) for i in range(len(ids))]
    if values:
      td.apply_doc_action(actions.BulkUpdateRecord(t, list(ids), values))
  if ("_grist_Tables_column", "formula") in fill:
    x = fill[("_grist_Tables_column", "formula")]
    ids = td.all_tables["_grist_Tables_column"].row_ids
    td.apply_doc_action(actions.BulkUpdateRecord("_grist_Tables_column", list(ids), {
        "formula": [(x[i % len(x)] if isinstance(x, list) else x) for i in range(len(ids))]}))
  return td


def fill_of(a):
  """The free-text assignment of a case."""
  v = a["version"]
  if a["kind"] == "benign":
    return {}
  if a["kind"] == "onehot":
    return {(a["table"], a["col"]): TEXTS[a["text"]]}
  r = random.Random(a["rng"])
  fill = {}
  for (t, c) in free_text_columns(v) + [("_grist_Tables_column", "formula")]:
    if r.random() < 0.5:
      fill[(t, c)] = [r.choice(TEXTS) if r.random() < 0.8 else BENIGN for _ in range(N_REC)]
  return fill


class Out(dict):
  def __repr__(self):
    return "{%s}" % ", ".join("%s: %s" % (k, str(self[k])[:200]) for k in ("error", "n_actions") if k in self)


def _where(exc):
  """The migrationNN function (else the innermost migrations.py function) in exc's traceback."""
  import re
  names = [fs.name for fs in traceback.extract_tb(exc.__traceback__)
           if os.path.basename(fs.filename) == "migrations.py"]
  for n in names:
    if re.match(r"^migration\d+$", n): return n
  return names[-1] if names else "?"


def run_doc(doc, v):
  """Runs the function under contract on (a copy of) the document; returns the observations."""
  actions, migrations, schema, table_data_set, test_migrations = mods()
  o = Out()
  before_user = {t: (list(doc.all_tables[t].row_ids), {c: list(vs) for c, vs in doc.all_tables[t].columns.items()})
                 for t in ("A", "B")}
  o["before_user"] = before_user
  try:
    acts = migrations.create_migrations(copy.deepcopy(doc.all_tables))
  except Exception as e:
    o["error"] = e; o["stage"] = "create_migrations"; o["where"] = _where(e)
    inner = [fs.name for fs in traceback.extract_tb(e.__traceback__) if os.path.basename(fs.filename) == "migrations.py"]
    o["innermost"] = inner[-1] if inner else None
    return o
  o["actions"] = acts
  o["n_actions"] = len(acts)
  try:
    doc.apply_doc_actions(copy.deepcopy(acts))
  except Exception as e:
    o["error"] = e; o["stage"] = "apply"; o["where"] = "apply:" + type(acts[0]).__name__
    return o
  o["doc"] = doc
  return o


def call(a):
  actions, migrations, schema, table_data_set, test_migrations = mods()
  v = a["version"]
  doc = build_doc(v, fill_of(a))
  meta_only = {t: copy.deepcopy(td) for t, td in doc.all_tables.items()
               if t.startswith("_grist_")} if a.get("meta", True) else None
  o = run_doc(doc, v)
  o["a"] = a
  # metadata_only mode (quick tier: not for the one-hot documents)
  if a.get("meta", True):
    try:
      o["meta_actions"] = migrations.create_migrations(meta_only, True)
    except Exception as e:
      o["meta_error"] = e
  if "error" in o and a["kind"] == "random":
    # find a single column that reproduces the failure on its own (canonical witness)
    fill = fill_of(a)
    for key in sorted(fill):
      o2 = run_doc(build_doc(v, {key: fill[key]}), v)
      if "error" in o2 and type(o2["error"]) is type(o["error"]) and o2.get("where") == o.get("where"):
        o["culprit"] = key
        break
  return o


def failure_class(a, o):
  e = o["error"]
  if a["kind"] == "onehot":
    col = "%s.%s" % (a["table"], a["col"])
  elif a["kind"] == "random":
    col = "%s.%s" % o["culprit"] if "culprit" in o else "several columns together"
  else:
    col = "benign document"
  if isinstance(e, RecursionError) and o.get("innermost") == "safe_parse":
    return "safe_parse lets RecursionError through (deeply nested JSON text)"
  return "%s raises %s on adversarial text in %s" % (o.get("where"), type(e).__name__, col)


def c_total(a, o):
  if "error" not in o: return True
  return "%s :: %s: %r (version %d)" % (failure_class(a, o), o["stage"], o["error"], a["version"])

def c_schema_current(a, o):
  actions, migrations, schema, table_data_set, test_migrations = mods()
  if "doc" not in o: return True
  got = {t: cols for t, cols in o["doc"].get_schema().items() if t.startswith("_grist_")}
  want = {x.table_id: {c["id"]: c for c in x.columns} for x in schema.schema_create_actions()}
  if got == want: return True
  diffs = []
  for t in sorted(set(got) | set(want)):
    if t not in got: diffs.append("missing table %s" % t)
    elif t not in want: diffs.append("extra table %s" % t)
    else:
      for c in sorted(set(got[t]) | set(want[t])):
        if got[t].get(c) != want[t].get(c):
          diffs.append("%s.%s: %r != %r" % (t, c, got[t].get(c), want[t].get(c)))
  return "from-version-%d :: %s" % (a["version"], "; ".join(diffs[:5]))

def c_version_set(a, o):
  actions, migrations, schema, table_data_set, test_migrations = mods()
  if "doc" not in o: return True
  sv = o["doc"].all_tables["_grist_DocInfo"].columns["schemaVersion"]
  return True if sv == [schema.SCHEMA_VERSION] else "from-version-%d :: schemaVersion column is %r" % (a["version"], sv)

def c_noop(a, o):
  actions, migrations, schema, table_data_set, test_migrations = mods()
  if "actions" not in o or a["version"] != schema.SCHEMA_VERSION: return True
  want = [actions.UpdateRecord("_grist_DocInfo", 1, {"schemaVersion": schema.SCHEMA_VERSION})]
  return True if o["actions"] == want else "current-version :: actions for a current document: %r" % (o["actions"][:3],)

def c_user_cells(a, o):
  if "doc" not in o: return True
  for t, (rows, cols) in o["before_user"].items():
    td = o["doc"].all_tables.get(t)
    if td is None: return "user-table-%s :: table disappeared" % t
    if list(td.row_ids) != rows: return "user-table-%s :: row ids %r -> %r" % (t, rows, td.row_ids)
    for c, vs in cols.items():
      if c not in td.columns: return "user-table-%s :: column %s disappeared" % (t, c)
      if list(td.columns[c]) != vs: return "user-table-%s :: cells of %s changed %r -> %r" % (t, c, vs, td.columns[c])
  return True

def c_metadata_only(a, o):
  actions, migrations, schema, table_data_set, test_migrations = mods()
  if not a.get("meta", True): return True
  v = a["version"]
  needs_all = any(getattr(migrations.all_migrations.get(k), "need_all_tables", False)
                  for k in range(v + 1, schema.SCHEMA_VERSION + 1))
  if needs_all:
    e = o.get("meta_error")
    if e is not None and type(e) is Exception and str(e).startswith("need all tables"): return True
    if e is not None and "error" in o and type(e) is type(o["error"]): return True    # same failure, reported by total
    return "needs-all-tables :: expected the 'need all tables' exception, got %r" % (e if e is not None else "actions",)
  if "meta_error" in o:
    if "error" in o and type(o["meta_error"]) is type(o["error"]): return True   # reported by C25.total
    return "metadata-only-raises-%s :: metadata_only=True raised %r but all-tables mode did not" % (
        type(o["meta_error"]).__name__, o["meta_error"])
  if "actions" in o and o["meta_actions"] != o["actions"]:
    return "metadata-only-differs :: different actions in metadata_only mode"
  return True


N_RANDOM = {"quick": 12, "thorough": 150}       # random documents per version

def cases(tier, seed):
  actions, migrations, schema, table_data_set, test_migrations = mods()
  V = schema.SCHEMA_VERSION
  for v in range(0, V + 1):
    yield {"kind": "benign", "version": v}
  # one-hot documents: every record of one free Text column holds one adversarial text
  for v in range(0, V + 1):
    for (t, c) in free_text_columns(v) + [("_grist_Tables_column", "formula")]:
      for ti in range(len(TEXTS)):
        if tier == "thorough" or v == _first_version(t, c):
          yield {"kind": "onehot", "version": v, "table": t, "col": c, "text": ti, "meta": tier == "thorough"}
  for v in range(0, V + 1):
    for i in range(N_RANDOM[tier]):
      yield {"kind": "random", "version": v, "rng": seed * 1000003 + v * 1009 + i}


def _first_version(t, c):
  key = ("first", t, c)
  if key not in _STATE:
    actions, migrations, schema, table_data_set, test_migrations = mods()
    for v in range(0, schema.SCHEMA_VERSION + 1):
      if (t, c) in free_text_columns(v) or (t, c) == ("_grist_Tables_column", "formula"):
        _STATE[key] = v
        break
  return _STATE[key]


def show(a):
  d = dict(a)
  if a["kind"] == "onehot": d["text"] = TEXTS[a["text"]][:120]
  return d


def main():
  rep = common.Report(PROP, "exploration")
  tier = common.tier()
  actions, migrations, schema, table_data_set, test_migrations = mods()
  V = schema.SCHEMA_VERSION
  rep.assumptions += [
    "bounded: versions 0..%d x (1 benign document + one-hot documents over (free Text column, %d adversarial "
    "texts) [quick: each pair at the first version that has the column, so that every later migration "
    "runs over it, and without the metadata_only run; thorough: every pair at every version] + %d random multi-column documents per version); not a proof" % (V, len(TEXTS), N_RANDOM[tier]),
    "documents are built from test_migrations.schema_version0() + the real migrations 1..v, two user tables "
    "A, B with data, %d records in every other metadata table; all references resolve (0 for self-references); "
    "typed cells hold values of their declared types" % N_REC,
    "structural Text cells are not fuzzed: _grist_Tables.tableId, _grist_Tables_column.colId/type, "
    "_grist_Views_section.parentKey; column formulas are fuzzed separately",
    "no user column has the deprecated 'Image' type (migration 17 rewrites such cells by design)",
    "'applying' = applying the returned doc actions to the document held in a table_data_set.TableDataSet",
  ]
  rep.coverage["rule"] = ("one evaluation = one generated document: create_migrations (all tables) + applying the "
                          "actions + create_migrations(metadata_only) with all six clauses; non-trivial and distinct = "
                          "distinct (version, free-text assignment) documents below the current version")
  rep.coverage["versions"] = V + 1
  rep.coverage["adversarial_texts"] = len(TEXTS)
  rep.coverage["free_text_columns_at_current_version"] = len(free_text_columns(V))
  contract = fn.FnContract(
    name="migrations.create_migrations", call=call,
    ensures={"C25.total": _dedup("t", c_total), "C25.schema_current": c_schema_current, "C25.version_set": c_version_set,
             "C25.noop_when_current": c_noop, "C25.user_cells_untouched": c_user_cells,
             "C25.metadata_only": _dedup("m", c_metadata_only)},
    classify=lambda a, clause, detail: str(detail).split(" :: ")[0],
    nontrivial=lambda a, o, exc: a["version"] < V,
    show=show)
  fn.check(rep, contract, cases, exhaustive=False, limit_quick_s=75, limit_thorough_s=1000)
  rep.coverage["exhaustive"] = False
  return rep.finish()


import collections
_SEEN = collections.Counter()
def _dedup(clause, pred):
  def wrapped(a, o):
    res = pred(a, o)
    if res is True: return True
    k = (clause, res.split(" :: ")[0])
    _SEEN[k] += 1
    return res if _SEEN[k] <= 2 else True
  return wrapped


if __name__ == "__main__":
  try:
    code = main()
  except Exception:          # a failure of the harness itself is a checker error, never a verdict
    import traceback
    print("CHECKER-ERROR property=%s %s" % (PROP, traceback.format_exc(limit=6).replace("\n", " | ")))
    code = common.EXIT_CRASH
  sys.exit(code)
