"""C19 Invalid formulas are isolated and valid ones mean what they say — bounded run-time contracts.

Two real entry points are put under contract, on the same formula texts:
  L1  gencode.GenCode.make_module(schema)  (which calls codebuilder.make_formula_body for every
      formula and compiles ONE shared module): schema = T(a Int, s Text, f = "$a + 1",
      g = "$s.upper()", x = <text under test>), U(n Int, h = "$n * 2").
  L2  Engine.apply_user_actions([ModifyColumn T x {formula: <text>}]) on a real engine holding the
      same document with rows, followed by a data edit (the document must keep working).
Clauses (from the statement):
  C19.isolated  the call returns normally for ANY text; every column other than x keeps its
                (error-free) values, also after a further data edit;
  C19.meaning   when the text is a valid formula by the independent specification below, every
                cell of x equals the specification's result for that row (value, or the type of
                the exception raised).
Independent specification (written from the statement; uses `tokenize`, `ast`, `exec`; shares no
code with codebuilder):  `$` immediately followed by a NAME token is read as `rec.` — tokens inside
STRING / COMMENT / f-string text are therefore untouched; common leading indentation is removed;
the text is parsed as a statement list; if the last statement is an expression statement it is
returned; the statements become the body of `def x(rec, table)` (built as an AST, so string
literals are not re-indented), compiled and run with exec on a plain record object, with the
document's generated module namespace as globals.  A text is *valid* for the meaning clause only
when all of that succeeds, a value is returned on some path (last statement an expression, or a
`return` at function level, or no statements at all), nothing is assigned to `rec`/`rec.attr`, and
it does not use yield/await or the lazily-evaluated functions IF/ISERR/ISERROR/IFERROR/PEEK.
Everything else (invalid Python, missing return, assignment to rec, unclear cases such as `a$b` or
indented multi-line strings) is only subject to C19.isolated.
Bounded: stated special cases + all texts of length <= 3 over a 12-character alphabet (L1,
exhaustive) + grammar-generated and random texts (seeded); never a proof."""
import ast
import io
import itertools
import os
import random
import sys
import tokenize
from collections import OrderedDict

sys.path.insert(0, os.path.dirname(os.path.dirname(os.path.abspath(__file__))))
from vlib import common
from vlib.rtc import eng, fn

import gencode
import schema as _schema
import objtypes

LAZY = ("IF", "ISERR", "ISERROR", "IFERROR", "PEEK")


# ------------------------------------------------------------------------------------------------
# independent specification
# ------------------------------------------------------------------------------------------------

class NotValid(Exception):
  """The text is not a valid formula for the meaning clause; .kind in 'invalid' / 'unclear'."""
  def __init__(self, kind, why):
    Exception.__init__(self, "%s: %s" % (kind, why))
    self.kind, self.why = kind, why


def spec_translate(text):
  """-> python source with `$name` read as `rec.name` outside strings and comments, dedented.
  Raises NotValid."""
  if not text.strip():
    raise NotValid("unclear", "empty formula (default value; not covered by the statement)")
  if "\x00" in text:
    raise NotValid("invalid", "NUL character")
  try:
    toks = list(tokenize.generate_tokens(io.StringIO(text).readline))
  except (tokenize.TokenError, SyntaxError, IndentationError, ValueError) as e:
    raise NotValid("invalid", "does not tokenize: %s" % type(e).__name__)
  lines = text.splitlines(True)
  if "\r" in text or "\f" in text or "\v" in text or "\x1c" in text or "\x1d" in text \
      or "\x1e" in text or "\x85" in text or "\u2028" in text or "\u2029" in text:
    raise NotValid("unclear", "line separators other than \\n")
  protected = set()
  for t in toks:
    if t.end[0] > t.start[0] and t.type not in (tokenize.NEWLINE, tokenize.NL, tokenize.ENDMARKER,
                                                 tokenize.INDENT, tokenize.DEDENT):
      protected.update(range(t.start[0] + 1, t.end[0] + 1))
  # `$` handling
  edits = []
  for i, t in enumerate(toks):
    if t.type == tokenize.OP and t.string == "$":
      nxt = toks[i + 1] if i + 1 < len(toks) else None
      prv = toks[i - 1] if i > 0 else None
      j = i - 1                  # the previous significant token (a dot may sit on an earlier line)
      while j >= 0 and toks[j].type in (tokenize.NL, tokenize.COMMENT, tokenize.NEWLINE):
        j -= 1
      if j >= 0 and toks[j].string == ".":
        raise NotValid("unclear", "`$` after a dot")
      if prv is not None and ((prv.end == t.start and prv.type in (tokenize.NAME, tokenize.NUMBER))
                              or prv.string == "."):
        raise NotValid("unclear", "`$` glued to a preceding name / number, or after a dot")
      if nxt is not None and nxt.type == tokenize.NAME and nxt.start == t.end:
        if not nxt.string.isascii():
          raise NotValid("unclear", "`$` before a non-ASCII name (column ids are ASCII)")
        edits.append(t.start)
      else:
        raise NotValid("invalid", "`$` not followed by a name")
  for (ln, col) in sorted(edits, reverse=True):
    s = lines[ln - 1]
    lines[ln - 1] = s[:col] + "rec." + s[col + 1:]
  # common indentation
  indents = []
  for n, s in enumerate(lines, 1):
    if n in protected or not s.strip(): continue
    indents.append(s[:len(s) - len(s.lstrip(" \t"))])
  common_indent = os.path.commonprefix(indents) if indents else ""
  if common_indent:
    if protected:
      raise NotValid("unclear", "indented text with multi-line tokens")
    lines = [s[len(common_indent):] if s.strip() else s for s in lines]
  return "".join(lines)


def _function_level(nodes):
  """ast.walk that does not descend into nested function / class / lambda bodies."""
  todo = list(nodes)
  while todo:
    n = todo.pop()
    yield n
    for c in ast.iter_child_nodes(n):
      if isinstance(c, (ast.FunctionDef, ast.AsyncFunctionDef, ast.ClassDef, ast.Lambda)):
        yield c          # the definition itself, not its inside
        continue
      todo.append(c)


def spec_function(text, globs):
  """-> the function `x(rec, table)` the statement describes.  Raises NotValid."""
  src = spec_translate(text)
  try:
    tree = ast.parse(src)
  except (SyntaxError, ValueError, MemoryError, RecursionError) as e:
    raise NotValid("invalid", "does not parse: %s" % type(e).__name__)
  for n in ast.walk(tree):
    if isinstance(n, ast.Name) and n.id == "rec" and not isinstance(n.ctx, ast.Load):
      raise NotValid("invalid", "assignment to rec")
    if isinstance(n, ast.Attribute) and isinstance(n.value, ast.Name) and n.value.id == "rec" \
        and not isinstance(n.ctx, ast.Load):
      raise NotValid("invalid", "assignment to rec.attr")
    if isinstance(n, ast.Attribute) and isinstance(n.value, ast.Name) and n.value.id == "rec" \
        and n.attr == "x":
      raise NotValid("unclear", "reads its own column (a circular reference in the engine)")
    if isinstance(n, (ast.arg,)) and n.arg == "rec":
      raise NotValid("unclear", "parameter named rec")
    if isinstance(n, (ast.Yield, ast.YieldFrom, ast.Await, ast.AsyncFor, ast.AsyncWith)):
      raise NotValid("unclear", "generator / coroutine body")
    if isinstance(n, ast.Call) and isinstance(n.func, ast.Name) and n.func.id in LAZY:
      raise NotValid("unclear", "lazily evaluated function")
    if isinstance(n, (ast.Global, ast.Nonlocal)):
      raise NotValid("unclear", "global / nonlocal declaration")
    if isinstance(n, (ast.Import, ast.ImportFrom)):
      raise NotValid("unclear", "import")
    if isinstance(n, ast.alias) or (isinstance(n, ast.ExceptHandler) and n.name == "rec"):
      raise NotValid("unclear", "binds rec")
  body = list(tree.body)
  if body:
    last = body[-1]
    if isinstance(last, ast.Expr):
      body[-1] = ast.copy_location(ast.Return(value=last.value), last)
    elif not any(isinstance(n, ast.Return) for n in _function_level(body)):
      raise NotValid("invalid", "no value returned (missing return)")
  else:
    body = [ast.Pass()]
  fdef = ast.FunctionDef(
    name="_c19_spec_function", args=ast.arguments(posonlyargs=[], args=[ast.arg(arg="rec"), ast.arg(arg="table")],
                                 kwonlyargs=[], kw_defaults=[], defaults=[]),
    body=body, decorator_list=[], type_params=[])
  mod = ast.Module(body=[fdef], type_ignores=[])
  ast.fix_missing_locations(mod)
  try:
    code = compile(mod, "<C19 spec>", "exec")
  except (SyntaxError, ValueError, RecursionError) as e:
    raise NotValid("invalid", "does not compile as a function body: %s" % type(e).__name__)
  ns = dict(globs)
  exec(code, ns)
  f = ns.pop("_c19_spec_function")      # not visible to the formula as a global
  f.__globals__.pop("_c19_spec_function", None)
  return f


class PlainRecord(object):
  """A plain record object: attributes are the cell values, nothing else."""
  def __init__(self, **kw):
    self.__dict__.update(kw)


def outcome(f, rec):
  """('v', canonical encoded value) or ('E', exception type name); output is swallowed."""
  old = sys.stdout, sys.stderr
  sys.stdout = sys.stderr = io.StringIO()
  try:
    try:
      v = f(rec, None)
    except BaseException as e:        # formulas may raise anything
      if isinstance(e, (KeyboardInterrupt, MemoryError)): raise
      return ("E", type(e).__name__)
    try:
      return ("v", eng._norm(objtypes.encode_object(v)))
    except Exception as e:
      return ("v", ("unencodable", type(e).__name__))
  finally:
    sys.stdout, sys.stderr = old


def cell_outcome(cell):
  if isinstance(cell, tuple) and len(cell) >= 3 and cell[0] == "l" and cell[1] == "E":
    return ("E", cell[2])
  return ("v", cell)


def _has_repr(v):
  """Does the canonical value contain (at any depth) an object repr ('U') or an unencodable?"""
  if isinstance(v, tuple):
    if len(v) >= 2 and v[0] == "l" and v[1] == "U": return True
    if v and v[0] == "unencodable": return True
    return any(_has_repr(x) for x in v)
  return False


def comparable(o):
  """Values whose encoding carries an object address / is lossy are not compared."""
  return o[0] == "E" or not _has_repr(o[1])


# ------------------------------------------------------------------------------------------------
# the documents
# ------------------------------------------------------------------------------------------------

ROWS = [{"id": 1, "a": 1, "s": "p"}, {"id": 2, "a": 2, "s": "Q r"}, {"id": 3, "a": 0, "s": ""}]

def plain(row):
  return PlainRecord(id=row["id"], a=row["a"], s=row["s"], f=row["a"] + 1, g=row["s"].upper())


def make_schema(text):
  SC, ST = _schema.SchemaColumn, _schema.SchemaTable
  t = OrderedDict()
  for c in (SC("a", "Int", False, "", None), SC("s", "Text", False, "", None),
            SC("f", "Any", True, "$a + 1", None), SC("g", "Text", True, "$s.upper()", None),
            SC("x", "Any", True, text, None)):
    t[c.colId] = c
  u = OrderedDict()
  for c in (SC("n", "Int", False, "", None), SC("h", "Any", True, "$n * 2", None)):
    u[c.colId] = c
  return OrderedDict([("T", ST("T", t)), ("U", ST("U", u))])


def call_l1(a):
  text = a["text"]
  out = {"raised": None, "others": None, "x": None, "spec": None}
  gc = gencode.GenCode()
  try:
    gc.make_module(make_schema(text))        # REAL module assembly (calls make_formula_body)
  except BaseException as e:
    if isinstance(e, (KeyboardInterrupt, MemoryError)): raise
    out["raised"] = "%s: %s" % (type(e).__name__, str(e)[:120])
    return out
  u = gc.usercode
  T, U = u.T.Model, u.U.Model
  recs = [plain(r) for r in ROWS]
  out["others"] = {"f": [outcome(T.f, r) for r in recs], "g": [outcome(T.g, r) for r in recs],
                   "h": [outcome(U.h, PlainRecord(id=1, n=4))]}
  out["x"] = [outcome(T.x, r) for r in recs]
  out["spec"] = run_spec(text, u.__dict__, recs)
  return out


def run_spec(text, globs, recs):
  try:
    f = spec_function(text, globs)
  except NotValid as e:
    return {"valid": False, "kind": e.kind, "why": e.why}
  return {"valid": True, "x": [outcome(f, r) for r in recs]}


N = eng._norm          # canonical form of an encoded value (whatever tags vlib uses)
EXPECT_OTHERS = {"f": [("v", N(r["a"] + 1)) for r in ROWS],
                 "g": [("v", N(r["s"].upper())) for r in ROWS], "h": [("v", N(8))]}


def ens_isolated_l1(a, r):
  if r["raised"]:
    return "make_module raised %s" % r["raised"]
  if r["others"] != EXPECT_OTHERS:
    return "other columns changed: %r" % (r["others"],)
  return True


def ens_meaning(a, r):
  if r["raised"] or not r["spec"] or not r["spec"]["valid"]:
    return True
  for got, want in zip(r["x"], r["spec"]["x"]):
    if comparable(got) and comparable(want) and got != want:
      return "x holds %r, the text means %r" % (got, want)
  return True


# -- L2: the engine -------------------------------------------------------------------------------

_eng = {}

def _copy_of(e):
  """Fresh real Engine holding the same document (load_meta_tables/load_table + Calculate)."""
  import engine as _engine, useractions
  f = _engine.Engine()
  for t in f.load_meta_tables(e.fetch_table('_grist_Tables'), e.fetch_table('_grist_Tables_column')):
    f.load_table(e.fetch_table(t, formulas=True))
  f.apply_user_actions([useractions.from_repr(['Calculate'])])
  return f


def engine_doc():
  if "pristine" not in _eng:
    from vlib.rtc import gen
    e = eng.new_engine()
    c = gen._col
    eng.apply(e, [["AddTable", "T", [c("a", "Int"), c("s", "Text"), c("f", "Any", "$a + 1"),
                                     c("g", "Text", "$s.upper()"), c("x", "Any", "0")]],
                  ["AddTable", "U", [c("n", "Int"), c("r", "Ref:T"), c("h", "Any", "$n * 2"),
                                     c("via", "Any", "$r.f")]]])
    eng.apply(e, [["BulkAddRecord", "T", [r["id"] for r in ROWS],
                   {"a": [r["a"] for r in ROWS], "s": [r["s"] for r in ROWS]}],
                  ["BulkAddRecord", "U", [1, 2], {"n": [4, 5], "r": [1, 2]}]])
    _eng["pristine"] = e
  if "e" not in _eng:          # after a failed bundle the working engine is replaced by a new copy
    _eng["e"] = _copy_of(_eng["pristine"])
  return _eng["e"]


def others_of(e):
  t = eng.table_snapshot(e, "T")[1]
  u = eng.table_snapshot(e, "U")[1]
  return {"f": list(t["f"]), "g": list(t["g"]), "a": list(t["a"]), "s": list(t["s"]),
          "h": list(u["h"]), "via": list(u["via"])}


def call_l2(a):
  text, mode = a["text"], a.get("mode", "modify")
  e = engine_doc()
  out = {"raised": None, "spec": None, "x": None, "others": None, "others2": None,
         "raised2": None}
  try:
    if mode == "modify":
      eng.apply(e, [["ModifyColumn", "T", "x", {"formula": text}]])
    elif mode == "add":
      eng.apply(e, [["RemoveColumn", "T", "x"],
                    ["AddColumn", "T", "x", {"type": "Any", "isFormula": True, "formula": text}]])
    else:   # 'table': a new table whose only formula is the text, next to T and U
      eng.apply(e, [["AddTable", "V", [{"id": "a", "type": "Int", "isFormula": False, "formula": ""},
                                       {"id": "x", "type": "Any", "isFormula": True, "formula": text}]],
                    ["AddRecord", "V", None, {"a": 1}], ["RemoveTable", "V"]])
  except BaseException as ex:
    if isinstance(ex, (KeyboardInterrupt, MemoryError)): raise
    out["raised"] = "%s: %s" % (type(ex).__name__, str(ex)[:120])
    _eng.pop("e", None)
    return out
  t = eng.table_snapshot(e, "T")
  out["x"] = [cell_outcome(v) for v in t[1]["x"]]
  out["others"] = others_of(e)
  recs = [plain(r) for r in ROWS]
  if mode != "table":
    out["spec"] = run_spec(text, e.gencode.usercode.__dict__, recs)
  # the document keeps working: a data edit recalculates the other columns
  try:
    eng.apply(e, [["UpdateRecord", "T", 1, {"a": 7, "s": "zz"}]])
    out["others2"] = others_of(e)
    eng.apply(e, [["UpdateRecord", "T", 1, {"a": ROWS[0]["a"], "s": ROWS[0]["s"]}]])
  except BaseException as ex:
    if isinstance(ex, (KeyboardInterrupt, MemoryError)): raise
    out["raised2"] = "%s: %s" % (type(ex).__name__, str(ex)[:120])
    _eng.pop("e", None)
  return out


def _expect_l2(a0, s0):
  a = [a0] + [r["a"] for r in ROWS[1:]]
  s = [s0] + [r["s"] for r in ROWS[1:]]
  return {"f": [N(v + 1) for v in a], "g": [N(v.upper()) for v in s], "a": [N(v) for v in a],
          "s": [N(v) for v in s], "h": [N(8), N(10)], "via": [N(a[0] + 1), N(a[1] + 1)]}


def ens_isolated_l2(a, r):
  if r["raised"]:
    return "apply_user_actions raised %s" % r["raised"]
  if r["others"] != _expect_l2(ROWS[0]["a"], ROWS[0]["s"]):
    return "other columns changed: %r" % (r["others"],)
  if r["raised2"]:
    return "a following data edit raised %s" % r["raised2"]
  if r["others2"] != _expect_l2(7, "zz"):
    return "other columns wrong after a data edit: %r" % (r["others2"],)
  return True


# ------------------------------------------------------------------------------------------------
# formula texts
# ------------------------------------------------------------------------------------------------

SPECIAL = [
  # the statement's special cases
  "'$a'", '"$a" + $s', "# $a\n$a", "$a # $s", "'''$a\n$s'''", '"""\n$a\n"""\n$a', "f'{$a}'",
  "f'{$a!r:>{$a}}'", "f'''{$a}\n$s'''", "f'${$a}'", "'it''s $a' + $s", "r'\\$a'", "b'$a'",
  "x = $a", "x = $a\ny = 2", "$a = 1", "$a == 1", "rec.a = 2\n1", "rec = 5\n1", "$a += 1\n$a",
  "for rec in [1]:\n  pass\n1", "del rec.a\n1", "x = $a\nx", "x = $a\nreturn x", "return $a",
  "return", "pass", "if $a:\n  return 1", "if $a:\n  return 1\nelse:\n  return 2",
  "if $a:\n  1\nelse:\n  2", "if $a > 1:\n  'big'\n'small'", "for i in range(3):\n  i",
  "for i in range(3):\n  if i == $a:\n    return i", "def h(v):\n  return v * 2\nh($a)",
  "def h(v):\n  return v * 2", "lambda: $a", "(lambda v: v + $a)(1)", "[v * $a for v in range(3)]",
  "{k: $a for k in 'ab'}", "try:\n  1 / $a\nexcept ZeroDivisionError:\n  'div'",
  "try:\n  return 1 / $a\nexcept ZeroDivisionError:\n  return 'div'", "with open('/nonexistent') as f:\n  1",
  "while False:\n  pass\n$a", "class K:\n  v = 3\nK.v + $a", "assert $a, 'zero'\n$a", "raise ValueError($s)",
  "$a if $a else $s", "$a\\\n+ 1", "($a\n + 1)", "[\n$a,\n$s\n]", "$a;$s", "$a; $s;", "x = 1;",
  "$nosuch", "$a.nosuch", "$s.upper().lower()", "$s[0]", "$s[5]", "1/0", "$a / $a", "$id * 10",
  "$f + 1", "$g + '!'", "rec.a + rec.f", "rec", "table", "None", "True", "...", "1_000", "0x1F",
  "1e400", "-0.0", "float('nan')", "10 ** 20", "'é' + $s", "'\\N{BULLET}'", "'\\u20ac$a'",
  # invalid python / arbitrary strings
  "$", "$$a", "$1", "$ a", "a$b", "1$a", "$a.$s", "$a$s", "$if", "$None", "$a +", "+", "(", ")", "[$a",
  "'", '"', "'''", "f'{", "f'{$a'", "'\\x'", "'\\N{BAD}'", "b'é'", "0x", "1 if $a else", "def", "def $a():\n  1",
  "f($a=1)", "print($a=1)", "lambda $a: 1", "class", "return return", "  1\n 2", " $a", "\t$a", "  $a\n  + 1",
  "  if $a:\n    1\n  else:\n    2", "if $a:\n1", "$a\n  $s", "\ufeff1", "€", "§a", "1 2", "a b c", "Hello, world!",
  "=", "==", "=1", "= $a", "$a =", "$a := 1", "(x := $a) + x", "x: int = $a\nx", "x: int", "`$a`", "$a <> 1",
  "$a ? 1 : 2", "$a && $s", "!$a", "#", "# only a comment", "#\n", "\n", " ", "", "\n\n$a\n\n", "$a\n#end",
  "$a\n\n\n", "\\", "$a\\", "\\\n$a", "1\\\n", "a\x00b", "\x00", "$a\r\n+1", "1\r2", "1\f2", "\x0c$a", "1\x0b2",
  # parses, but is not a legal function body / module member
  "break", "continue", "yield 5", "(yield)", "await $a", "lambda a, a: 1", "nonlocal q\n1", "global f\n1",
  "from math import *\n1", "import os\n1", "class A:\n  return 1\n2", "__debug__ = 1\n2", "del __debug__\n1",
  "[(yield 1) for x in range(2)]", "async def f():\n  pass\n1", "def f(a, a):\n  pass\n1",
  "def f():\n  nonlocal z\n1", "x = 1\nglobal x\nx", "def f():\n  x = 1\n  global x\n1", "f'{$a!z}'",
  "try:\n  pass\nexcept* E:\n  pass\nexcept:\n  pass\n1", "for i in range(2):\n  pass\nelse:\n  continue\n1",
  "def f():\n  break\n1", "class A:\n  yield 1\n1", "return 1\n$", "None = 1\n1", "True = 1", "1 = $a",
  "del 1", "(a, *b, *c) = [1]\n1", "*a = [1]\n1", "f(**k, *a)", "{**$a}", "print(*$s)\n1",
  "match $a:\n  case 1:\n    'one'\n  case _:\n    'other'", "match $a:\n  case x:\n    1\n  case y:\n    2\n3",
  "type X = int\n1", "def f[T](v: T): return v\nf($a)", "from __future__ import annotations\n1",
  "from __future__ import braces\n1", "from __future__ import nope\n1", "import\n", "1 if 2",
  # things that could escape the function body in the shared module
  "1\ndef x(rec, table):\n  return 99", "1\n\nclass U:\n  pass", "1\n@grist.UserTable\nclass T:\n  pass",
  "return 1\n  pass", "'''", '"""\nreturn 1', "1 #'''", "'''\n'''\n$a", "x = '''\n  a\n  '''\nx",
  "  x = '''a\n  b'''\n  x", "if 1:\n  y = '''\nq'''\n  y", "1\n\treturn 2", "1\n  ", "\n  1", "if 1:\n\t1\n        2",
]

ALPHABET12 = ["$", "a", "(", ")", "'", "#", "\n", " ", "=", "1", "+", ":"]

ATOMS = ["$a", "$s", "$id", "$f", "$g", "1", "2", "0", "2.5", "'t'", "'$a'", "\"q $s\"", "None", "True",
         "$nosuch", "rec.a", "len($s)", "str($a)", "$s.upper()", "[$a, 2]", "($a, $s)", "f'{$a}-{$s}'",
         "'''m\n$a'''", "{'k': $a}", "abs($a)", "max($a, 1)"]
BINOPS = ["+", "-", "*", "/", "//", "%", "==", "!=", "<", ">", "and", "or", "in", "is"]


def gen_expr(rng, depth):
  if depth <= 0 or rng.random() < 0.3:
    return rng.choice(ATOMS)
  k = rng.random()
  if k < 0.45:
    return "%s %s %s" % (gen_expr(rng, depth - 1), rng.choice(BINOPS), gen_expr(rng, depth - 1))
  if k < 0.55:
    return "(%s)" % gen_expr(rng, depth - 1)
  if k < 0.65:
    return "%s if %s else %s" % (gen_expr(rng, depth - 1), gen_expr(rng, depth - 1), gen_expr(rng, depth - 1))
  if k < 0.72:
    return "not %s" % gen_expr(rng, depth - 1)
  if k < 0.8:
    return "[%s for v in range(%s)]" % (gen_expr(rng, depth - 1), rng.choice(["2", "$a"]))
  if k < 0.86:
    return "(lambda v: %s)(%s)" % (gen_expr(rng, depth - 1), gen_expr(rng, depth - 1))
  if k < 0.92:
    return "-%s" % gen_expr(rng, depth - 1)
  return "(%s  # $a\n)" % gen_expr(rng, depth - 1)


def gen_program(rng):
  k = rng.random()
  e = lambda d=2: gen_expr(rng, d)
  ind = rng.choice(["  ", "    ", "\t"])
  if k < 0.3:
    return e(3)
  if k < 0.4:
    return "x = %s\nx" % e()
  if k < 0.5:
    return "x = %s\ny = %s\n# $a\nx if y else y" % (e(), e())
  if k < 0.6:
    return "if %s:\n%sreturn %s\nreturn %s" % (e(), ind, e(), e())
  if k < 0.68:
    return "if %s:\n%s%s\nelse:\n%s%s" % (e(), ind, e(), ind, e())
  if k < 0.75:
    return "t = 0\nfor i in range(3):\n%st += i\n%s" % (ind, "t + " + e(1))
  if k < 0.82:
    return "try:\n%sreturn %s\nexcept Exception as ex:\n%sreturn type(ex).__name__" % (ind, e(), ind)
  if k < 0.88:
    return "def h(v):\n%sreturn %s\nh(%s)" % (ind, e(1), e(1))
  if k < 0.92:
    return "x = %s" % e()                 # missing return
  if k < 0.95:
    return "$a = %s" % e(1)               # assignment to rec
  pre = rng.choice([" ", "  ", "\t"])
  return "\n".join(pre + line for line in ("x = %s\nx" % e(1)).split("\n"))


def mutate(rng, text):
  if not text: return "$"
  i = rng.randrange(len(text))
  k = rng.random()
  pool = "$'\"#\n ()[]:=\\.,ab1"
  if k < 0.4: return text[:i] + text[i + 1:]
  if k < 0.8: return text[:i] + rng.choice(pool) + text[i:]
  return text[:i] + rng.choice(pool) + text[i + 1:]


def random_text(rng):
  pool = "$$$aas1 ()'\"#\n\n  :=+.,[]{}\\\tfré%!?@;-*/<>|&^~`"
  return "".join(rng.choice(pool) for _ in range(rng.randint(1, 12)))


def all_short_texts():
  for n in (1, 2, 3):
    for t in itertools.product(ALPHABET12, repeat=n):
      yield "".join(t)


def sampled_texts(seed, n_grammar, n_mut, n_rand):
  rng = random.Random(seed * 1009 + 19)
  for _ in range(n_grammar):
    yield gen_program(rng)
  for _ in range(n_mut):
    yield mutate(rng, gen_program(rng) if rng.random() < 0.7 else rng.choice(SPECIAL))
  for _ in range(n_rand):
    yield random_text(rng)


def cases_l1_exhaustive(tier, seed):
  for t in all_short_texts():
    yield {"text": t}


def cases_l1(tier, seed):
  for t in SPECIAL:
    yield {"text": t}
  n = (2500, 2500, 1500) if tier == "quick" else (40000, 40000, 20000)
  for t in sampled_texts(seed, *n):
    yield {"text": t}


def cases_l2(tier, seed):
  for t in SPECIAL:
    for mode in ("modify", "add", "table"):
      yield {"text": t, "mode": mode}
  n = (350, 350, 150) if tier == "quick" else (5000, 5000, 2500)
  rng = random.Random(seed + 5)
  for t in sampled_texts(seed + 77, *n):
    yield {"text": t, "mode": rng.choice(["modify", "modify", "add", "table"])}
  for t in itertools.islice(all_short_texts(), 0, None, 7 if tier == "quick" else 1):
    yield {"text": t, "mode": "modify"}


# ------------------------------------------------------------------------------------------------
# classification of failures (root cause from the failing input)
# ------------------------------------------------------------------------------------------------

def text_category(text):
  """A canonical description of WHY a text is special, computed from the text alone with the
  standard library (tokenize / ast / compile)."""
  if "\x00" in text:
    return "contains-NUL"
  import re
  if re.search(r"\r(?!\n)", text):
    return "contains-lone-CR"
  if "\f" in text:
    return "contains-form-feed"
  try:
    src = spec_translate(text)
  except NotValid as e:
    return "spec-%s:%s" % (e.kind, e.why.split(":")[0])
  try:
    tree = ast.parse(src)
  except Exception as e:
    return "does-not-parse"
  try:
    compile("def x(rec, table):\n" + "".join(" " + l for l in src.splitlines(True)) + "\n pass",
            "<c>", "exec")
  except SyntaxError:
    return "parses-but-does-not-compile-as-function-body"
  except Exception as e:
    return "compile-raises-%s" % type(e).__name__
  return "compiles"


def classify(a, clause, detail):
  d = str(detail)
  if "raised" in d:
    exc = d.split("raised", 1)[1].strip().split(":")[0]
    if exc in ("IndentationError", "TabError"): exc = "SyntaxError"     # same family
    return "%s|raised %s" % (text_category(a["text"]), exc)
  return "%s|%s" % (text_category(a["text"]), "other-columns" if "other columns" in d else "value")


def nontrivial(a, r, exc):
  return True


def main():
  rep = common.Report("C19", "exploration")
  rep.assumptions += [
    common.SHIM_ASSUMPTION,
    "bounded: the listed special cases, all texts of length <= 3 over a 12-character alphabet "
    "(L1), seeded grammar-generated / mutated / random texts; not a proof",
    "the independent specification decides validity conservatively: texts it cannot classify "
    "(empty text, `$` glued to a preceding name / number / dot as in `a$b`, `$a.$s`, `$` before a non-ASCII name, indented text with multi-line strings, yield / "
    "await, IF/ISERR/ISERROR/IFERROR/PEEK, imports, global/nonlocal, non-\\n line separators) are "
    "checked for isolation only",
    "values whose encoding is an object repr ('U') are not compared",
    "the specification function runs with the generated module's namespace as globals (the "
    "document's environment) and a plain record object",
  ]
  rep.coverage["rule"] = (
    "one evaluation = one formula text put through the real GenCode.make_module (L1) or the real "
    "Engine.apply_user_actions + a following data edit (L2), with C19.isolated checked on every "
    "other column and C19.meaning on every row when the text is valid by the independent "
    "specification; distinct = distinct (text, mode); every case is non-trivial (each text is a "
    "different program)")
  import warnings
  warnings.simplefilter("ignore", SyntaxWarning)     # generated texts such as `1 is 1`
  call_l1({"text": "$a"})        # warm-up in the parent: the forked workers inherit the imported
  engine_doc()                   # astroid state and a ready engine document
  fn.check(rep, fn.FnContract(
    "gencode.GenCode.make_module [all texts of length<=3 over %r]" % "".join(ALPHABET12),
    call_l1, {"C19.isolated": ens_isolated_l1, "C19.meaning": ens_meaning},
    classify=classify, nontrivial=nontrivial, show=lambda a: a), cases_l1_exhaustive,
    exhaustive=True, limit_quick_s=15)
  ex = rep.coverage.get("exhaustive", False)
  fn.check(rep, fn.FnContract(
    "gencode.GenCode.make_module [special cases + sampled texts]",
    call_l1, {"C19.isolated": ens_isolated_l1, "C19.meaning": ens_meaning},
    classify=classify, nontrivial=nontrivial, show=lambda a: a), cases_l1, limit_quick_s=20)
  fn.check(rep, fn.FnContract(
    "Engine.apply_user_actions [ModifyColumn / AddColumn / AddTable with the text]",
    call_l2, {"C19.isolated": ens_isolated_l2, "C19.meaning": ens_meaning},
    classify=classify, nontrivial=nontrivial, show=lambda a: a), cases_l2, limit_quick_s=30)
  rep.coverage["exhaustive"] = False
  rep.coverage["exhaustive_parts"] = (
    "L1 over all %d texts of length <= 3 over the alphabet %r: %s" % (
      sum(12 ** n for n in (1, 2, 3)), "".join(ALPHABET12),
      "completely enumerated" if ex else "NOT completed within the time limit"))
  return rep.finish()


if __name__ == "__main__":
  sys.exit(main())
