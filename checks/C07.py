"""C07 Reopening a saved document changes nothing — bounded run-time contract on
Engine.load_meta_tables / Engine.load_table / main.table_data_from_db (+ _decode_db_value).

After every successful bundle of every explored history the monitored engine's document is "saved
and reopened":
  1. every table (metadata tables included, stored formula values included) is fetched with the
     engine's own fetch_table and encoded as in its replies (actions.get_action_repr), then sent
     through marshal.dumps / marshal.loads (the sandbox pipe);
  2. each column is brought into the form the document database hands to the sandbox
     (DocStorage._encodeValue / allMarshal, app/server/lib/DocStorage.ts): encoded objects (lists)
     become marshalled blobs — except ChoiceList / RefList lists of plain strings / numbers, which
     are stored as JSON text —, booleans in Bool columns come back as 1 / 0, booleans elsewhere,
     NaN, -0.0 and number-like strings in numeric columns are marshalled blobs; the whole table is
     a marshalled dict of byte-string column names;
  3. the REAL main.table_data_from_db (with _decode_db_value) decodes it, a fresh REAL Engine gets
     load_meta_tables(_grist_Tables, _grist_Tables_column) then load_table for every other table,
     then the user action Calculate is applied.
Clauses:
  C07.loads              steps 1-3 complete without an exception
  C07.no_stored_actions  the Calculate action group has no stored actions
  C07.same_data          fetch_table of the reopened engine equals fetch_table of the engine that
                         produced the data, for every table and column (formula columns included)
The action mix includes the life cycle of EMPTY columns (formula columns with an empty formula, what
the UI creates as a new column) and other formulas that read nothing: created, cleared, retyped,
removed and re-created under the same name with another type, filled with data (seed document
c07_empty, C07Monitor.empty_column_bundle).
When the save / decode round trip itself is faithful and the difference comes from live formula
values that were stale, the failure is C05's subject (known class) ONLY if another cell could have
made the value stale: a differing formula cell whose formula reads nothing (empty formula, literal)
is a function of its column's type and formula text alone and gets a class of its own
(live-value-of-input-free-formula-differs|...), which is not a known finding.
Excluded as in the statement: volatile formulas (none in the formula pool), Node-side number
typing (numbers are handed over unchanged).  Bounded: seeded random histories; never a proof."""
import json
import marshal
import math
import os
import re
import sys

sys.path.insert(0, os.path.dirname(os.path.dirname(os.path.abspath(__file__))))
from vlib import common
from vlib.rtc import eng, explore, gen

import engine as _engine
import actions
import useractions
import main as _main          # real sandbox entry module: table_data_from_db, _decode_db_value


# ------------------------------------------------------------------------------------------------
# "save": what the database would hand back (DocStorage._encodeValue + SQLite + allMarshal)
# ------------------------------------------------------------------------------------------------

NUMERIC_AFFINITY = ("Int", "Numeric", "Date", "DateTime", "Ref", "Id", "ManualSortPos",
                    "PositionNumber", "Bool")

def sql_affinity(col_type):
  base = col_type.split(":")[0]
  if base in ("Int", "Ref", "Id"): return "INTEGER"
  if base in ("Numeric", "ManualSortPos", "PositionNumber"): return "NUMERIC"
  if base in ("Date", "DateTime"): return "NUMERIC"      # DATE / DATETIME have numeric affinity
  if base == "Bool": return "BOOLEAN"
  if base in ("Text", "Choice", "ChoiceList", "RefList", "Attachments"): return "TEXT"
  return "BLOB"


def db_value(col_type, val):
  """The value the sandbox receives for `val` (already in reply encoding) stored in a column of
  this Grist type: the composition DocStorage._encodeValue -> SQLite -> allMarshal."""
  base = col_type.split(":")[0]
  blob = lambda: marshal.dumps(val)
  if isinstance(val, list):
    if base == "ChoiceList" and val and val[0] == "L" and all(isinstance(t, str) for t in val):
      return json.dumps(val[1:], separators=(",", ":"), ensure_ascii=False)
    if base == "RefList" and val and val[0] == "L" and all(
        isinstance(t, (int, float)) and not isinstance(t, bool) for t in val[1:]):
      return json.dumps(val[1:], separators=(",", ":"))
    return blob()
  if isinstance(val, bytes):
    return blob()
  if val is None:
    return None
  aff = sql_affinity(col_type)
  if isinstance(val, bool):
    return int(val) if aff == "BOOLEAN" else blob()
  if isinstance(val, str):
    if aff in ("TEXT", "BLOB"): return val
    if not re.match(r"[-+ \t\n\r\v0-9.]", val[:1] or "x"): return val
    return blob()
  if isinstance(val, (int, float)):
    if aff == "TEXT" or (isinstance(val, float) and (math.isnan(val) or (val == 0 and math.copysign(1, val) < 0))) \
        or (aff == "BOOLEAN" and val in (0, 1)):
      return blob()
    if isinstance(val, int) and not (-2 ** 63 <= val < 2 ** 63):
      return blob()             # not storable as an SQLite integer; kept exact as a blob
    return val
  return blob()


def save(e):
  """{table_id: marshalled table data as DocStorage.fetchTable would return it}"""
  out = {}
  for t in sorted(e.tables):
    td = e.fetch_table(t, formulas=True)
    reply = actions.get_action_repr(td)                    # as in the engine's replies
    reply = marshal.loads(marshal.dumps(reply))            # the pipe
    _, table_id, row_ids, cols = reply
    types = {c.colId: c.type for c in e.schema[t].columns.values()} if t in e.schema else {}
    data = {b"id": list(row_ids)}
    for c, vals in cols.items():
      data[c.encode("utf8")] = [db_value(types.get(c, "Any"), v) for v in vals]
    out[t] = marshal.dumps(data)
  return out


def reopen_raw(e):
  """Comparator used only to NAME the cause of a violation: the same load + Calculate, but from the
  engine's own objects (fetch_table incl. formula values) without the encode / marshal / database /
  decode steps.  If this engine equals the properly reopened one, the round trip is faithful and the
  difference to the live engine comes from live formula values that were stale (C05)."""
  f = _engine.Engine()
  rest = f.load_meta_tables(e.fetch_table("_grist_Tables"), e.fetch_table("_grist_Tables_column"))
  for t in rest:
    f.load_table(e.fetch_table(t, formulas=True))
  g = f.apply_user_actions([useractions.from_repr(["Calculate"])])
  return f, g


def reopen(saved):
  """Fresh real Engine loaded from the saved blobs; returns (engine, Calculate's action group)."""
  f = _engine.Engine()
  meta_tables = _main.table_data_from_db("_grist_Tables", saved["_grist_Tables"])
  meta_columns = _main.table_data_from_db("_grist_Tables_column", saved["_grist_Tables_column"])
  rest = f.load_meta_tables(meta_tables, meta_columns)
  for t in rest:
    f.load_table(_main.table_data_from_db(t, saved.get(t)))
  g = f.apply_user_actions([useractions.from_repr(["Calculate"])])
  return f, g


# ------------------------------------------------------------------------------------------------
# classification (root cause from the shrunk witness)
# ------------------------------------------------------------------------------------------------

def _col_type(e_schema, table, col):
  try:
    return e_schema[table].columns[col].type.split(":")[0]
  except Exception:
    return "?"


def describe_cell_diff(line):
  """'T.c[r]: X != Y' -> canonical kinds of X and Y"""
  m = re.match(r"(\S+)\.(\S+)\[(\d+)\]: (.*) != (.*)$", line)
  if not m:
    return None
  return m.group(1), m.group(2), kind_of(m.group(4)), kind_of(m.group(5))


def kind_of(r):
  if r.startswith("('l', 'E'"):
    m = re.match(r"\('l', 'E', '(\w+)'", r)
    return "error:" + (m.group(1) if m else "?")
  if r.startswith("('l', 'L'") or r.startswith("('l',"): return "list"
  if r.startswith("('i'") or r.startswith("('f'") or r.startswith("('n'"): return "number"
  if r.startswith("('b'"): return "bool"
  if r.startswith("('nan'"): return "nan"
  if r == "None": return "None"
  if r.startswith("'") or r.startswith('"'): return "str"
  return "other"


# A seed document whose formulas notice the Python TYPE of list-valued cells (tuple vs list,
# hashable or not), not only their encoded form: lookups keyed by a ChoiceList / RefList cell, sets
# and dict keys built from such cells, tuple concatenation and comparison.
_col = gen._col
gen.SEEDS["c07_lists"] = [
  [["AddTable", "Tasks", [
    _col("title", "Text"), _col("tags", "ChoiceList"), _col("deps", "RefList:Tasks"),
    _col("same_tags", "Any", "len(Tasks.lookupRecords(tags=$tags))"),
    _col("with_tag", "Any", "len(Tasks.lookupRecords(tags=CONTAINS($title)))"),
    _col("all_tags", "Any", "sorted(set(Tasks.all.tags), key=repr)"),
    _col("plus", "Any", "$tags + ('x',)"),
    _col("is_a", "Any", "$tags == ('a',)"),
    _col("as_key", "Any", "{$tags: $title}.get($tags)"),
    _col("tag_type", "Any", "type($tags).__name__"),
    _col("same_deps", "Any", "len(Tasks.lookupRecords(deps=$deps))"),
    _col("dep_ids", "Any", "sorted(set(r.id for r in $deps))"),
    _col("rev", "Any", "[r.id for r in Tasks.lookupRecords(deps=CONTAINS($id))]"),
  ]]],
  [["BulkAddRecord", "Tasks", [None, None, None, None],
    {"title": ["a", "b", "c", "d"], "tags": [["L", "a"], ["L", "a"], ["L", "a", "b"], None],
     "deps": [["L", 2, 3], ["L", 2, 3], None, ["L", 1]]}]],
  [["UpdateRecord", "Tasks", 3, {"tags": ["L", "a"]}]],
]


# A seed document with EMPTY columns: formula columns whose formula text is empty (what the UI
# creates as a new column).  Their cells hold the default of the column's type, so the value of such
# a cell is a function of (type, formula) alone; other formulas read them, and some rows exist.
gen.SEEDS["c07_empty"] = [
  [["AddTable", "Items", [
    _col("name", "Text"), _col("qty", "Int"),
    _col("note", "Any", "", isFormula=True), _col("cnt", "Int", "", isFormula=True),
    _col("label", "Text", "", isFormula=True),
    _col("double", "Int", "$qty * 2"),
    _col("uses", "Any", "[$note, $cnt, $label]"),
    _col("five", "Int", "5"),
  ]]],
  [["BulkAddRecord", "Items", [None, None, None], {"name": ["a", "b", "c"], "qty": [1, 2, 3]}]],
  [["AddColumn", "Items", "blank", {}]],        # exactly what the UI sends for a new column
]

# Formulas that read nothing: their value depends on the column's type and formula text only.
CONSTANT_FORMULAS = ["", "", "", "None", "5", "'x'", "1.5", "True", "[1, 2]", "return 7", "1/0"]
EMPTY_TYPES = ["Any", "Int", "Numeric", "Text", "Bool", "Choice", "ChoiceList", "Date"]


def reads_nothing(formula):
  """True when the formula text names nothing at all (no $col, rec, table, function): empty, a
  literal, arithmetic on literals, or text that does not parse.  Such a cell's value is determined
  by the column's type and formula alone - no other cell can make it stale."""
  import ast
  src = re.sub(r"\$([A-Za-z_]\w*)", r"rec.\1", formula or "")
  for text in (src, "def _f():\n" + "\n".join("  " + l for l in src.split("\n"))):
    try:
      tree = ast.parse(text)
    except (SyntaxError, ValueError):
      continue
    return not any(isinstance(n, ast.Name) for n in ast.walk(tree))
  return True


class C07Monitor(explore.Monitor):
  seeds = ("basic", "refs", "lookup", "summary", "twoway", "twoway_list", "trigger", "prevnext",
           "choices", "c07_lists", "c07_empty")
  length = 8
  weights = {"modify_type": 7, "update": 14, "bulk_update": 7, "add": 10, "invalid": 1}

  # -- generation: the default mix plus the life cycle of empty / constant formula columns ---------
  def empty_column_bundle(self, e, g):
    """Bundles around columns whose formula reads nothing (empty formula = the UI's new column):
    create one, clear a formula, turn a data column into one, change its type, re-create it under
    the same name with another type (in one bundle or as the start of two), type data into it."""
    rng = g.rng
    tabs = g.doc(e)
    dts = [t for t in g.data_tables(tabs)]
    if not dts: return None
    with_const = [(t, c) for t in dts for c in tabs[t][0]
                  if c[2] and c[0] != "manualSort" and reads_nothing(c[3])]
    new_type = lambda old=None: rng.choice([x for x in EMPTY_TYPES if x != old])
    shape = rng.choice(["add", "add", "clear", "to_empty", "retype", "retype", "retype",
                        "recreate", "recreate", "fill", "set_constant"])
    if shape in ("retype", "recreate", "fill", "set_constant") and not with_const:
      shape = "add"
    if shape == "add":
      t = rng.choice(dts)
      if len(tabs[t][0]) >= 10: return None
      name = rng.choice(["e", "blank", "note", "x", "New Col"])
      info = {} if rng.random() < 0.3 else {"type": new_type(), "isFormula": True,
                                            "formula": rng.choice(CONSTANT_FORMULAS)}
      return [["AddColumn", t, name, info]]
    if shape == "clear":
      cands = [(t, c) for t in dts for c in tabs[t][0] if c[2] and c[3] and c[0] != "manualSort"]
      if not cands: return None
      t, c = rng.choice(cands)
      return [["ModifyColumn", t, c[0], {"formula": ""}]]
    if shape == "to_empty":
      cands = [(t, c) for t in dts for c in tabs[t][0] if not c[2] and c[0] != "manualSort"]
      if not cands: return None
      t, c = rng.choice(cands)
      return [["ModifyColumn", t, c[0], {"isFormula": True, "formula": ""}]]
    t, c = rng.choice(with_const)
    if shape == "retype":
      info = {"type": new_type(c[1])}
      if rng.random() < 0.15: info["formula"] = c[3]          # same text sent along
      return [["ModifyColumn", t, c[0], info]]
    if shape == "recreate":
      again = ["AddColumn", t, c[0], {"type": new_type(c[1]), "isFormula": True, "formula": c[3]}]
      if rng.random() < 0.5:
        return [["RemoveColumn", t, c[0]], again]
      later = [[again]]
      if rng.random() < 0.3:      # a data edit in between does not rebuild the schema
        later.insert(0, [["AddRecord", t, None, {}]])
      return ("THEN", [["RemoveColumn", t, c[0]]], later)
    if shape == "set_constant":
      return [["ModifyColumn", t, c[0], {"formula": rng.choice(CONSTANT_FORMULAS)}]]
    # fill: typing a value into an empty column turns it into a data column
    rows = tabs[t][1]
    if not rows: return [["AddRecord", t, None, {c[0]: rng.choice(gen.values_for(c[1], rng))}]]
    return [["UpdateRecord", t, rng.choice(rows), {c[0]: rng.choice(gen.values_for(c[1], rng))}]]

  def gen_bundle(self, st, e, g):
    if st.get("todo"):
      return st["todo"].pop(0)
    if g.rng.random() < 0.22:
      b = self.empty_column_bundle(e, g)
      if isinstance(b, tuple):
        st["todo"] = b[2]
        return b[1]
      if b: return b
    return g.bundle(e)

  def start(self, e, seed_name):
    st = {"types": {}, "first": self.after({}, e, [], True, None)}   # the seed document itself
    return st

  def after(self, st, e, bundle, group, exc):
    if exc is not None:
      return []
    if st.get("first"):                 # a failure of the seed document, reported at bundle 1
      f, st["first"] = st["first"], None
      return f
    try:
      saved = save(e)
      f, g = reopen(saved)
    except Exception as ex:
      return [("C07.loads", {"error": "%s: %s" % (type(ex).__name__, str(ex)[:200])})]
    stored = eng.stored_reprs(g)
    a, b = eng.snapshot(e), eng.snapshot(f)
    d = eng.diff_snapshots(a, b, limit=12)
    types = {}
    for line in d:
      m = describe_cell_diff(line)
      if m: types["%s.%s" % (m[0], m[1])] = _col_type(e.schema, m[0], m[1]) + (
          ":formula" if _is_formula(e, m[0], m[1]) else ":data")
    if not stored and not d:
      return []
    explained = None
    try:
      r, gr = reopen_raw(e)
      explained = (not eng.diff_snapshots(eng.snapshot(r), b)
                   and _canon(eng.stored_reprs(gr)) == _canon(stored))
      rdiff = eng.diff_snapshots(eng.snapshot(r), b, limit=12)
    except Exception as ex:
      rdiff = ["raw reopen failed: %r" % (ex,)]
    detail = {"stored": stored[:6], "diff": d, "col_types": types,
              "round_trip_faithful": bool(explained), "encoded_vs_raw_reopen": rdiff,
              "input_free": input_free_columns(e, d, stored)}
    clause = "C07.no_stored_actions" if stored else "C07.same_data"
    if not explained:
      try:
        detail["loaded_delta"] = loaded_delta(e, saved)
      except Exception as ex:
        detail["loaded_delta"] = ["not computed: %r" % (ex,)]
      if detail["loaded_delta"]:
        # one failure per kind of change, kinds that are not known findings first (only the first
        # failure of a history is shrunk and reported)
        known = set(k.get("match", {}).get("class") for k in common.load_known_findings("C07"))
        kinds = sorted(detail["loaded_delta"], key=lambda k: ("round-trip-changes|" + k in known, k))
        return [(clause, dict(detail, delta=k)) for k in kinds]
    return [(clause, detail)]

  def classify(self, clause, detail, bundle, history):
    if clause == "C07.loads":
      return "loads|" + detail.get("error", "").split(":")[0]
    if detail.get("round_trip_faithful"):
      # "The live formula values were stale" is C05's subject only when some OTHER cell could have
      # made them stale.  A differing formula cell whose formula reads nothing (empty formula,
      # literal) is a function of its column's type and formula text: no missed invalidation
      # explains it, so it gets a class of its own.
      if detail.get("input_free"):
        return "live-value-of-input-free-formula-differs|" + ",".join(
          sorted(set(x.split(" ", 1)[1] for x in detail["input_free"])))
      return "live-formula-values-were-stale(C05)"
    if detail.get("delta"):
      return "round-trip-changes|" + detail["delta"]
    kinds = set()
    for line in detail.get("diff", []):
      m = describe_cell_diff(line)
      if m:
        kinds.add("%s %s->%s" % (detail.get("col_types", {}).get("%s.%s" % (m[0], m[1]), "?"),
                                 m[2], m[3]))
      else:
        kinds.add(re.sub(r"[0-9]+", "N", line)[:60])
    if not kinds and detail.get("stored"):
      for a in detail["stored"]:
        kinds.add("stored %s %s" % (a[0], "meta" if str(a[1]).startswith("_grist_") else "user"))
    return "%s|%s" % (clause.split(".")[1], ";".join(sorted(kinds)[:4]))


def _kind(v):
  import objtypes
  if isinstance(v, objtypes.RaisedException):
    err = getattr(v, "error", None)
    return "Error(%s%s)" % (type(err).__name__ if err is not None else "no error object",
                            ",user_input" if v.has_user_input() else "")
  return type(v).__name__


def loaded_delta(e, saved, limit=8):
  """Names what the save / decode round trip changed in the data the fresh engine STARTS from:
  both engines are loaded (no Calculate), one from the decoded blobs, one from the live engine's
  own objects, and their stored cells are compared by Python type and value.  Used only to name the
  root cause of an established violation."""
  def load(get):
    f = _engine.Engine()
    rest = f.load_meta_tables(get("_grist_Tables"), get("_grist_Tables_column"))
    for t in rest: f.load_table(get(t))
    return f
  enc = load(lambda t: _main.table_data_from_db(t, saved.get(t)))
  raw = load(lambda t: e.fetch_table(t, formulas=True))
  out = set()
  for t in sorted(raw.tables):
    if t not in enc.tables: out.add("table missing"); continue
    for cid, col in raw.tables[t].all_columns.items():
      other = enc.tables[t].all_columns.get(cid)
      if other is None or cid.startswith("#"): continue
      for r in raw.tables[t].row_ids:
        x, y = col.raw_get(r), other.raw_get(r)
        same = type(x) is type(y) and (x == y or (x != x and y != y) or _kind(x).startswith("Error"))
        if _kind(x) != _kind(y) or not same:
          if _kind(x) == _kind(y) and _kind(x).startswith("Error"): continue
          ctype = _col_type(e.schema, t, cid)
          kx, ky = _kind(x), _kind(y)
          if kx.startswith("Error(") and ky.startswith("Error("):
            if _is_formula(e, t, cid): continue    # formula cells are recomputed by Calculate
            what = "data-cell-error-object-lost"
          else:
            plain = ("list", "tuple", "str", "int", "float", "bool", "NoneType")
            if _is_formula(e, t, cid) and (kx == ky or not (kx in plain and ky in plain)):
              continue       # formula cells are recomputed anyway: only a change of a plain Python
                             # type in a stored formula value is a cause, not a consequence
            what = "%s:%s->%s" % (ctype, kx, ky)
            if kx == ky: what += "(value)"
          out.add(what)
          if len(out) >= limit: return sorted(out)
  return sorted(out)


def input_free_columns(e, diff_lines, stored):
  """['Table.col <kind>'] for the formula columns among the differing cells (diff lines and the
  cells Calculate stored) whose formula reads nothing; kind = empty-formula / constant-formula /
  unparsable-formula."""
  cols = set()
  for line in diff_lines:
    m = describe_cell_diff(line)
    if m: cols.add((m[0], m[1]))
  for a in stored:
    if a[0] in ("BulkUpdateRecord", "UpdateRecord", "BulkAddRecord", "AddRecord") and \
        not str(a[1]).startswith("_grist_") and isinstance(a[3], dict):
      cols.update((a[1], c) for c in a[3])
  out = []
  for (t, c) in sorted(cols):
    if not _is_formula(e, t, c): continue
    try:
      f = e.schema[t].columns[c].formula
    except Exception:
      continue
    if reads_nothing(f):
      kind = "empty-formula" if not (f or "").strip() else "constant-formula"
      try:
        import ast
        src = re.sub(r"\$([A-Za-z_]\w*)", r"rec.\1", f or "") or "pass"
        ast.parse("def _f():\n" + "\n".join("  " + l for l in src.split("\n")))
      except (SyntaxError, ValueError):
        kind = "unparsable-formula"
      out.append("%s.%s %s" % (t, c, kind))
  return out


def _canon(action_reprs):
  return sorted(json.dumps(a, sort_keys=True, default=repr) for a in action_reprs)


def _is_formula(e, t, c):
  try:
    return bool(e.schema[t].columns[c].isFormula)
  except Exception:
    return False


def main():
  rep = common.Report("C07", "exploration")
  rep.assumptions += [
    common.SHIM_ASSUMPTION,
    "bounded: seeded random histories over the seed documents and action alphabet of "
    "vlib/rtc/gen.py plus two seed documents of this check (list-valued cells; empty / constant "
    "formula columns) and the empty-column action shapes (22% of the bundles); not a proof",
    "the database step is emulated from DocStorage._encodeValue (app/server/lib/DocStorage.ts): "
    "lists -> marshalled blobs (ChoiceList/RefList lists of plain strings/numbers -> JSON text), "
    "Bool columns return 1/0, other booleans / NaN / -0.0 / number-like strings in numeric columns "
    "-> marshalled blobs; numbers are handed over unchanged (Node-side number typing is excluded "
    "by the statement)",
    "decoding is the real main.table_data_from_db / _decode_db_value; loading is the real "
    "Engine.load_meta_tables / load_table followed by the Calculate user action",
    "no volatile function (NOW, TODAY, RAND, REQUEST) is in the formula pool",
  ]
  rep.coverage["rule"] = (
    "one evaluation = one successful user bundle after which the whole document is saved "
    "(fetch_table + reply encoding + marshal + database form), decoded with main.table_data_from_db, "
    "loaded into a fresh Engine and Calculate applied, with the three clauses checked on every "
    "table; non-trivial = the bundle changed the document (stored actions non-empty) or raised")
  explore.explore(rep, "checks.C07", "C07Monitor", n_quick=144, n_thorough=4000,
                  budget_quick_s=38, budget_thorough_s=800)
  return rep.finish()


if __name__ == "__main__":
  sys.exit(main())
