"""C02 Emitted doc actions are a faithful persistence delta — bounded run-time contract on the real
Engine.apply_user_actions.

Ghost state: `mirror`, the repository's own independent doc-action interpreter
(table_data_set.TableDataSet), fed from document creation (InitNewDoc) onward with nothing but the
`stored` actions of every ActionGroup the engine returned, in the encoded form Node receives
(actions.encode_objects).  Clauses, evaluated after every bundle of every explored history:

  C02.mirror_applies       every stored action can be applied by the independent interpreter
  C02.mirror_equals_engine tables, row ids (no duplicates) and all non-private cells (formula
                           results included) of the mirror == engine snapshot (fetch_table +
                           encode_object; NaN == NaN)
  C02.no_silent_change     stored == []  ==>  engine snapshot == old(engine snapshot)
  C02.no_phantom_action    cells that differ between old(mirror) and mirror are a subset of the
                           cells that differ between old(engine snapshot) and engine snapshot
"""
import math, os, sys
sys.path.insert(0, os.path.dirname(os.path.dirname(os.path.abspath(__file__))))
from vlib import common
from vlib.rtc import eng, explore, gen

ALL_SEEDS = ("basic", "refs", "lookup", "summary", "twoway", "twoway_list", "trigger", "prevnext",
             "choices")


def new_mirror(seed_name):
  """TableDataSet advanced with the stored actions of InitNewDoc and of the seed document's bundles
  (on a private engine, so that the mirror is fed since document creation)."""
  import engine as _engine, table_data_set
  e2 = _engine.Engine()
  e2.load_empty()
  m = table_data_set.TableDataSet()
  feed(m, eng.apply(e2, [["InitNewDoc"]]))
  for b in gen.seed_history(seed_name):
    feed(m, eng.apply(e2, b))
  return m


def feed(mirror, group):
  import actions
  for a in group.stored:
    mirror.apply_doc_action(actions.encode_objects(a))


def norm(v):
  """Canonical form of an ENCODED cell value as Node sees it: JSON numbers do not distinguish 1 from
  1.0 (the engine's own objtypes.equal_encoding treats them as the same encoding and emits no action
  for such a change), bools stay distinct from numbers, NaN equals NaN."""
  if isinstance(v, bool): return ("b", v)
  if isinstance(v, float):
    if math.isnan(v): return ("nan",)
    if math.isinf(v): return ("n", repr(v))
    return ("n", int(v)) if v == int(v) else ("n", repr(v))
  if isinstance(v, int): return ("n", v)
  if isinstance(v, (list, tuple)): return ("l",) + tuple(norm(x) for x in v)
  if isinstance(v, dict): return ("d",) + tuple(sorted((str(k), norm(x)) for k, x in v.items()))
  if isinstance(v, bytes): return ("y", v)
  return v


def mirror_snapshot(mirror):
  """Same shape as eng.snapshot, rows sorted by id; also returns duplicate row ids."""
  out, dups = {}, []
  for t, td in mirror.all_tables.items():
    ids = list(td.row_ids)
    if len(set(ids)) != len(ids):
      dups.append((t, sorted(r for r in set(ids) if ids.count(r) > 1)))
    order = sorted(range(len(ids)), key=lambda i: (ids[i] is None, ids[i]))
    cols = {}
    for c, vals in td.columns.items():
      if c.startswith("#"): continue      # private helper columns are never sent
      cols[c] = tuple(norm(vals[i]) if i < len(vals) else ("missing",) for i in order)
    out[t] = (tuple(ids[i] for i in order), cols)
  return out, dups


def engine_snapshot(e):
  """{table: (row ids sorted, {col: cells})} through fetch_table(formulas=True, private=False) and
  objtypes.encode_object, the encoding of the engine's replies."""
  import objtypes
  out = {}
  for t in sorted(e.tables):
    td = e.fetch_table(t, formulas=True, private=False)
    ids = list(td.row_ids)
    order = sorted(range(len(ids)), key=lambda i: ids[i])
    out[t] = (tuple(ids[i] for i in order),
              {c: tuple(norm(objtypes.encode_object(v[i])) for i in order)
               for c, v in td.columns.items()})
  return out


def changed_cells(a, b):
  """Set of (table, row, col) / (table, '*row', id) / (table,) items that differ."""
  out = set()
  for t in set(a) | set(b):
    if t not in a or t not in b:
      out.add((t,)); continue
    (ra, ca), (rb, cb) = a[t], b[t]
    for r in set(ra) ^ set(rb): out.add((t, "*row", r))
    for c in set(ca) ^ set(cb): out.add((t, "*col", c))
    ia = {r: i for i, r in enumerate(ra)}
    ib = {r: i for i, r in enumerate(rb)}
    for c in set(ca) & set(cb):
      for r in set(ra) & set(rb):
        if ca[c][ia[r]] != cb[c][ib[r]]: out.add((t, r, c))
  return out


def failure_signature(bundle, exc):
  """Root-cause signature of a failed bundle: exception type and message, numbers blanked (the
  action kinds of the bundle are not part of it: a witness that is not fully shrunk must map to
  the same class)."""
  import re
  msg = re.sub(r"\d+", "N", str(exc).splitlines()[0] if str(exc) else "")[:80]
  return "%s(%s)" % (type(exc).__name__, msg)


def tune_explore(shrink_budget_s=8):
  """explore.shrink spends up to 20 s per failing history; with several known findings per run that
  does not fit the quick budget.  Same shrinker, smaller budget (classes are computed from details
  that do not depend on full minimality)."""
  if common.tier() != "quick":
    shrink_budget_s = 20
  os.environ["VERIF_SHRINK_BUDGET_S"] = str(shrink_budget_s)


class StatSink(object):
  """Per-history counters written by worker processes (Monitor.finish) and summed by main()."""
  def __init__(self, env):
    self.env = env
  def open(self):
    import tempfile
    self.dir = tempfile.mkdtemp(prefix="verif-stats-")
    os.environ[self.env] = self.dir
  def put(self, stats):
    import json
    d = os.environ.get(self.env)
    if d and os.path.isdir(d):
      with open(os.path.join(d, "%d.jsonl" % os.getpid()), "a") as f:
        f.write(json.dumps(stats) + "\n")
  def total(self):
    import glob, json, shutil
    tot = {}
    def add(dst, src):
      for k, v in src.items():
        if isinstance(v, dict): add(dst.setdefault(k, {}), v)
        else: dst[k] = dst.get(k, 0) + v
    for path in glob.glob(os.path.join(self.dir, "*.jsonl")):
      for line in open(path):
        add(tot, json.loads(line))
    shutil.rmtree(self.dir, ignore_errors=True)
    return tot


def _kinds(bundle):
  return sorted(set(a[0] for a in bundle if isinstance(a, list) and a))


class C02Monitor(explore.Monitor):
  seeds = ALL_SEEDS
  length = 8

  def start(self, e, seed_name):
    m = new_mirror(seed_name)
    ms, dups = mirror_snapshot(m)
    d = eng.diff_snapshots(ms, engine_snapshot(e))
    if d or dups:
      # The seed documents themselves are part of the bound: report through `after` of bundle 0.
      return {"mirror": m, "seed_problem": {"diff": d, "duplicates": dups}}
    return {"mirror": m}

  def before(self, st, e, bundle):
    st["pre"] = engine_snapshot(e)
    st["pre_mirror"] = mirror_snapshot(st["mirror"])[0]

  def after(self, st, e, bundle, group, exc):
    if st.get("seed_problem"):
      return [("C02.mirror_equals_engine", dict(st.pop("seed_problem"), where="seed document"))]
    if exc is not None:
      # Nothing was returned, the mirror does not move.  What the engine looks like right after a
      # failed bundle is C04's exceptional postcondition; here the history simply goes on, and the
      # mirror must again equal the engine after the next successful bundle.  (If the failed bundle
      # left a trace, its signature is remembered so that the later divergence is attributed to it.)
      now = engine_snapshot(e)
      if eng.diff_snapshots(st["pre"], now):
        fc = {(tid, cid) for tid, t in e.schema.items() for cid, c in t.columns.items() if c.isFormula}
        cells = changed_cells(st["pre"], now)
        if all(len(c) == 3 and c[1] not in ("*row", "*col") and (c[0], c[2]) in fc for c in cells):
          # root cause recorded under C04: the rollback re-creates formula columns without
          # recomputing them
          sig = "only formula cells differ right after it"
        else:
          sig = "data or metadata differ right after it, it raised " + failure_signature(bundle, exc)
        st.setdefault("rollback_traces", []).append(sig)
      return []
    post = engine_snapshot(e)
    stored = eng.stored_reprs(group)
    try:
      feed(st["mirror"], group)
    except Exception as ex:
      return [("C02.mirror_applies", {"error": "%s: %s" % (type(ex).__name__, str(ex)[:200]),
                                      "stored": stored})]
    if not stored:
      d = eng.diff_snapshots(st["pre"], post)
      if d:
        return [("C02.no_silent_change", {"diff": d})]
    ms, dups = mirror_snapshot(st["mirror"])
    if dups:
      return [("C02.mirror_equals_engine", {"duplicate_row_ids_in_mirror": dups, "stored": stored,
                                            "after_failed_bundles": st.get("rollback_traces", [])})]
    d = eng.diff_snapshots(ms, post)
    if d:
      return [("C02.mirror_equals_engine", {"diff (mirror != engine)": d, "stored": stored,
                                            "after_failed_bundles": st.get("rollback_traces", [])})]
    st.pop("rollback_traces", None)
    extra = changed_cells(st["pre_mirror"], ms) - changed_cells(st["pre"], post)
    if extra:
      return [("C02.no_phantom_action", {"cells": sorted(map(repr, extra))[:6], "stored": stored})]
    return []

  def classify(self, clause, detail, bundle, history):
    if detail.get("after_failed_bundles"):
      return "engine changed by a failed bundle: " + detail["after_failed_bundles"][0]
    return "%s after %s" % (clause, "+".join(_kinds(bundle)))


def main():
  rep = common.Report("C02", "exploration")
  rep.assumptions += [
    common.SHIM_ASSUMPTION,
    "bounded: seeded random histories over the seed documents and action alphabet of "
    "vlib/rtc/gen.py; not a proof",
    "table_data_set.TableDataSet (the repository's doc-action interpreter used by migrations) is "
    "trusted as the independent interpreter the statement names; it is fed the stored actions in "
    "their encoded form (actions.encode_objects), from InitNewDoc onward",
    "engine state is observed through Engine.fetch_table(formulas=True, private=False) + "
    "objtypes.encode_object; rows are compared by row id, not by position"]
  rep.coverage["rule"] = ("one evaluation = one user bundle applied to the real engine, its stored "
                          "actions applied to the ghost TableDataSet, and the four clauses checked "
                          "over every table (metadata included); non-trivial = the bundle emitted "
                          "stored actions or raised")
  tune_explore(4)
  explore.explore(rep, "checks.C02", "C02Monitor", n_quick=160, budget_quick_s=30)
  return rep.finish()


if __name__ == "__main__":
  sys.exit(main())
