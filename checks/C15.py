"""C15 Trigger formulas recalculate exactly when configured.

Tier B: run-time contract on the REAL Engine.apply_user_actions for bundles of ONE user action and
for bundles of SEVERAL record updates of one table (exemptions are per user action), on
documents whose trigger formulas are COUNTERS (`(value or 0) + 1`): every recalculation is visible
in fetch_table as +1.  A reference model written from the statement says, per (row, trigger
column), whether the action MUST recalculate it, MUST NOT, or MAY (the statement leaves a gap
between "a recalcDeps cell changes value" and "none of them was written or recomputed"):
   C15.fires_when_required        MUST  -> new value == old value + 1 (new rows: 1)
   C15.silent_otherwise           MUST NOT -> value unchanged (new rows with NEVER: default)
   C15.explicit_value_kept        a value supplied by the action is stored as given (unless the
                                  column depends on itself: then it is recalculated from it)
   C15.schema_change_no_trigger   renames of dependencies / tables / labels change no counter
MAY cases accept old or old + 1.  Configuration (recalcWhen, recalcDeps) is read from the metadata
before each action.

Every bundle of record actions / renames is checked against EVERY table that has counter columns:
the table the action is about with model() / model_multi(), every OTHER table with model_other()
("and never otherwise": an action on another table is no user-requested update of this table's
rows, so MANUAL_UPDATES and NEVER columns stay silent whatever recalcDeps list is stored on them;
DEFAULT columns fire exactly when a dependency cell of the row changed - a formula column reading
the other table, a reference cleared because its target record was removed).  Seed document
c15_cross has MANUAL_UPDATES / NEVER columns WITH stored recalcDeps (schema.py: the list "only
applies when recalcWhen is DEFAULT"), dependencies that are formula columns reading another table
and Ref columns whose targets get removed."""
import json, os, re, sys
sys.path.insert(0, os.path.dirname(os.path.dirname(os.path.abspath(__file__))))
from vlib import common
from vlib.rtc import eng, explore, gen

_col = gen._col
DEFAULT, NEVER, MANUAL = 0, 1, 2


def config(e, table_id):
  """Trigger columns of the table that are counters over themselves.
  -> {colId: {'when', 'deps': set(colId), 'selfdep'}}, plus {formula colId: set(input colIds)}"""
  tref = eng.table_ref(e, table_id)
  recs = [c for c in eng.meta_records(e, "_grist_Tables_column") if c["parentId"] == tref]
  by_ref = {c["id"]: c for c in recs}
  trig, fin = {}, {}
  for c in recs:
    if c["isFormula"]:
      fin[c["colId"]] = set(re.findall(r"(?:\$|rec\.)(\w+)", c["formula"] or ""))
      continue
    f = c["formula"] or ""
    if not f: continue
    if f.strip() == "(value or 0) + 1" and c["type"] == "Int":
      deps = c["recalcDeps"] or []
      deps = [d for d in deps if isinstance(d, int)]
      trig[c["colId"]] = {"when": c["recalcWhen"], "selfdep": c["id"] in deps and c["recalcWhen"] == DEFAULT,
                          "deps": {by_ref[d]["colId"] for d in deps if d in by_ref}}
    else:
      trig[c["colId"]] = None          # a trigger formula the model does not understand
  return trig, fin


def table_rows(e, table_id):
  td = e.fetch_table(table_id, formulas=True)
  return {r: {c: v[i] for c, v in td.columns.items()} for i, r in enumerate(td.row_ids)}


def _is_int(v): return isinstance(v, int) and not isinstance(v, bool)


def model(action, table_id, pre_rows, post_rows, trig, fin, col_map):
  """-> list of expectations (row, col, kind, allowed set of values, clause).
  col_map: pre colId -> post colId (renames)."""
  name = action[0]
  exp = []
  tcols = {c: k for c, k in trig.items() if k is not None}
  def old(r, c): return pre_rows[r].get(c)
  def new_cell(r, c): return post_rows.get(r, {}).get(col_map.get(c, c))
  if name in ("AddRecord", "BulkAddRecord"):
    bulk = name.startswith("Bulk")
    vals = action[3]
    n = len(action[2]) if bulk else 1
    new_ids = sorted(set(post_rows) - set(pre_rows))
    if len(new_ids) != n: return None
    for i, r in enumerate(new_ids):
      for c, k in tcols.items():
        if c in vals:
          v = vals[c][i] if bulk else vals[c]
          if not _is_int(v): return None
          if k["selfdep"]: exp.append((r, c, {v, v + 1}, "C15.explicit_value_kept"))
          else: exp.append((r, c, {v}, "C15.explicit_value_kept"))
        elif k["when"] == NEVER:
          exp.append((r, c, {0}, "C15.silent_otherwise"))
        else:
          exp.append((r, c, {1}, "C15.fires_when_required"))
    for r in pre_rows:
      for c in tcols: exp.append((r, c, {old(r, c)}, "C15.silent_otherwise"))
    return exp
  if name in ("UpdateRecord", "BulkUpdateRecord"):
    bulk = name.startswith("Bulk")
    rows = action[2] if bulk else [action[2]]
    vals = action[3]
    if len(set(rows)) != len(rows) or not all(r in pre_rows for r in rows): return None
    if any(c in fin for c in vals): return None           # writing a formula column: not modelled
    given = {}
    for i, r in enumerate(rows):
      given[r] = {c: (v[i] if bulk else v) for c, v in vals.items()}
    for r in pre_rows:
      for c, k in tcols.items():
        o = old(r, c)
        if not _is_int(o) and o is not None: return None
        o0 = o or 0
        g = given.get(r)
        if g is None:
          exp.append((r, c, {o}, "C15.silent_otherwise")); continue
        if c in g:
          v = g[c]
          if not _is_int(v): return None
          if not k["selfdep"]:
            exp.append((r, c, {v}, "C15.explicit_value_kept"))
          elif v != o:
            exp.append((r, c, {v + 1}, "C15.fires_when_required"))
          else:
            exp.append((r, c, {v, v + 1}, "C15.explicit_value_kept"))
          continue
        if k["when"] == NEVER:
          exp.append((r, c, {o}, "C15.silent_otherwise")); continue
        if k["when"] == MANUAL:
          changed = any(new_cell(r, d) != old(r, d) for d in g if d not in fin and d != c)
          if changed: exp.append((r, c, {o0 + 1}, "C15.fires_when_required"))
          elif all(type(v) is type(old(r, d)) and v == old(r, d) for d, v in g.items()):
            # "and never otherwise": every value given for this row IS the stored one, so the update
            # does not change the row (other rows of the same bulk action may change)
            exp.append((r, c, {o}, "C15.silent_otherwise"))
          elif g:    # a given value differed but the cell ends as before (converted / recomputed)
            exp.append((r, c, {o, o0 + 1}, "C15.silent_otherwise"))
          else: exp.append((r, c, {o}, "C15.silent_otherwise"))
          continue
        # DEFAULT
        deps = k["deps"]
        must = any(new_cell(r, d) != old(r, d) for d in deps if d != c)
        may = any((d in g) or (d in fin and (fin[d] & set(g))) for d in deps)
        if must: exp.append((r, c, {o0 + 1}, "C15.fires_when_required"))
        elif may: exp.append((r, c, {o, o0 + 1}, "C15.silent_otherwise"))
        else: exp.append((r, c, {o}, "C15.silent_otherwise"))
    return exp
  if name in ("RemoveRecord", "BulkRemoveRecord", "RenameColumn", "RenameTable") or (
      name == "UpdateRecord_meta"):
    clause = "C15.silent_otherwise" if "Remove" in name else "C15.schema_change_no_trigger"
    for r in pre_rows:
      if r not in post_rows: continue
      for c in tcols: exp.append((r, c, {old(r, c)}, clause))
    return exp
  return None


def cross_formulas(e, table_id, fin):
  """Formula columns of the table whose value may change without any write to the table itself:
  the formula follows a reference ($r.x), names a table, or reads such a column."""
  tref = eng.table_ref(e, table_id)
  text = {c["colId"]: c["formula"] or "" for c in eng.meta_records(e, "_grist_Tables_column")
          if c["parentId"] == tref and c["isFormula"]}
  names = set(eng.user_tables(e))
  cross = {c for c, f in text.items()
           if re.search(r"(?:\$|rec\.)\w+\s*\.", f) or (set(re.findall(r"\b[A-Za-z_]\w*\b", f)) & names)}
  grew = True
  while grew:
    grew = False
    for c in fin:
      if c not in cross and fin[c] & cross:
        cross.add(c); grew = True
  return cross


def model_other(names, pre_rows, post_rows, trig, fin, cross, ref_cols):
  """Expectations for a table NONE of whose records the bundle's user actions address (record
  actions / renames on other tables only).  ref_cols: data columns of type Ref / RefList (the only
  data cells of this table such a bundle may rewrite: cleared when the target record is removed)."""
  if set(pre_rows) != set(post_rows): return None
  tcols = {c: k for c, k in trig.items() if k is not None}
  schema_only = all(n in ("RenameColumn", "RenameTable") for n in names)
  exp = []
  for r in pre_rows:
    for c, k in tcols.items():
      o = pre_rows[r].get(c)
      if not _is_int(o) and o is not None: return None
      if schema_only:
        exp.append((r, c, {o}, "C15.schema_change_no_trigger")); continue
      if k["when"] != DEFAULT:
        exp.append((r, c, {o}, "C15.silent_otherwise")); continue
      deps = [d for d in k["deps"] if d != c]
      must = any(post_rows[r].get(d) != pre_rows[r].get(d) for d in deps)
      may = any(d in cross or d in ref_cols for d in deps)
      if must: exp.append((r, c, {(o or 0) + 1}, "C15.fires_when_required"))
      elif may: exp.append((r, c, {o, (o or 0) + 1}, "C15.silent_otherwise"))
      else: exp.append((r, c, {o}, "C15.silent_otherwise"))
  return exp


NEED = {"NO": 0, "MAY": 1, "MUST": 2}


def model_multi(actions, pre_rows, post_rows, trig, fin):
  """Bundles of several UpdateRecord / BulkUpdateRecord actions on one table.  The statement's
  exemption ("a value set explicitly in the same user action is kept") is PER USER ACTION, while
  recalculation happens once, when the bundle ends: per (row, counter column) the actions are
  folded in order into (stored value, need) with need in NO < MAY < MUST:
    - an explicit value (column not depending on itself) replaces the stored value and exempts the
      column from the triggers of THAT action only; a recalculation already owed because of an
      EARLIER action becomes MAY (the statement does not order the two);
    - a trigger raised by a LATER action is owed in full (MUST) - it recalculates from the
      explicitly stored value.
  Data cells are simulated by applying the writes in order; a formula dependency counts as changed
  (MUST) only when its value differs over the whole bundle and exactly one action wrote its inputs,
  otherwise as possibly recomputed (MAY)."""
  tcols = {c: k for c, k in trig.items() if k is not None}
  sim = {r: dict(v) for r, v in pre_rows.items()}
  state = {}
  for r in pre_rows:
    for c in tcols:
      o = pre_rows[r].get(c)
      if not _is_int(o) and o is not None: return None
      state[(r, c)] = [o, "NO", False]
  writers = {}          # formula column -> number of actions that wrote one of its inputs, per row
  steps = []
  for a in actions:
    bulk = a[0].startswith("Bulk")
    rows = a[2] if bulk else [a[2]]
    vals = a[3]
    if len(set(rows)) != len(rows) or not all(r in pre_rows for r in rows): return None
    if any(c in fin for c in vals): return None
    given = {r: {c: (v[i] if bulk else v) for c, v in vals.items()} for i, r in enumerate(rows)}
    steps.append(given)
    for r, g in given.items():
      for f, inputs in fin.items():
        if inputs & set(g): writers[(r, f)] = writers.get((r, f), 0) + 1
  def bump(cell, level):
    if NEED[level] > NEED[cell[1]]: cell[1] = level
  for given in steps:
    for r, g in given.items():
      stored = {d: state[(r, d)][0] for d in tcols}
      for c, k in tcols.items():
        cell = state[(r, c)]
        if c in g:
          v = g[c]
          if not _is_int(v): return None
          if not k["selfdep"]:
            cell[0] = v
            cell[1] = "MAY" if cell[1] != "NO" else "NO"
            cell[2] = True
            continue
          if v != cell[0]: bump(cell, "MUST")
          else: bump(cell, "MAY")
          cell[0] = v
          continue
        if k["when"] == NEVER: continue
        if k["when"] == MANUAL:
          changed = any(g[d] != (stored[d] if d in tcols else sim[r].get(d))
                        for d in g if d not in fin and d != c)
          if changed: bump(cell, "MUST")
          elif g: bump(cell, "MAY")
          continue
        for d in k["deps"]:
          if d == c: continue
          if d in fin:
            if fin[d] & set(g):
              once = writers.get((r, d), 0) == 1
              differs = post_rows.get(r, {}).get(d) != pre_rows[r].get(d)
              bump(cell, "MUST" if (once and differs) else "MAY")
          elif d in g:
            bump(cell, "MUST" if g[d] != sim[r].get(d) else "MAY")
      for d, v in g.items():
        if d not in tcols: sim[r][d] = v
  exp = []
  for (r, c), (val, need, explicit) in state.items():
    base = val or 0
    if need == "MUST": exp.append((r, c, {base + 1}, "C15.fires_when_required"))
    elif need == "MAY": exp.append((r, c, {val, base + 1}, "C15.silent_otherwise"))
    else:
      exp.append((r, c, {val}, "C15.explicit_value_kept" if explicit else "C15.silent_otherwise"))
  return exp


# ------------------------------------------------------------------------------------------------
# histories
# ------------------------------------------------------------------------------------------------

def _cnt(id_):
  return _col(id_, "Int", "(value or 0) + 1", isFormula=False)

# column refs in table A: manualSort 1, n 2, m 3, s 4, f 5, t1 6, t2 7, t3 8, t4 9, t5 10, t6 11, t7 12
gen.SEEDS["c15_counters"] = [
  [["AddTable", "A", [_col("n", "Int"), _col("m", "Int"), _col("s", "Text"), _col("f", "Any", "$n * 2 if $n else 0"),
                      _cnt("t1"), _cnt("t2"), _cnt("t3"), _cnt("t4"), _cnt("t5"), _cnt("t6"), _cnt("t7")]]],
  [["BulkUpdateRecord", "_grist_Tables_column", [6, 7, 8, 12],
    {"recalcDeps": [["L", 2], ["L", 2, 3], ["L", 5], ["L", 12, 4]]}],
   ["BulkUpdateRecord", "_grist_Tables_column", [10, 11], {"recalcWhen": [NEVER, MANUAL]}]],
  [["BulkAddRecord", "A", [None, None, None], {"n": [1, 2, 3], "m": [5, 6, 7], "s": ["a", "b", "c"]}]],
]

# Two tables.  R(rate) is "the other table"; A has a reference into it, a formula column following
# the reference (g), one looking R up (h), a row-local one (f), and counters of every mode WITH a
# stored recalcDeps list.  Column refs: R: manualSort 1, rate 2; A: manualSort 3, n 4, s 5, r 6, f 7,
# g 8, h 9, then the counters 10.. in the order of CROSS_COUNTERS.
CROSS_COUNTERS = [            # (colId, recalcWhen, recalcDeps as colIds)
  ("d_n", DEFAULT, ["n"]), ("d_r", DEFAULT, ["r"]), ("d_g", DEFAULT, ["g"]), ("d_h", DEFAULT, ["h"]),
  ("m_n", MANUAL, ["n"]), ("m_r", MANUAL, ["r"]), ("m_g", MANUAL, ["g"]), ("m_h", MANUAL, ["h", "f"]),
  ("v_n", NEVER, ["n"]), ("v_r", NEVER, ["r", "g"]), ("v_h", NEVER, ["h"]),
]
_CROSS_REF = dict({"n": 4, "s": 5, "r": 6, "f": 7, "g": 8, "h": 9},
                  **{c: 10 + i for i, (c, _w, _d) in enumerate(CROSS_COUNTERS)})
gen.SEEDS["c15_cross"] = [
  [["AddTable", "R", [_col("rate", "Int")]],
   ["AddTable", "A", [_col("n", "Int"), _col("s", "Text"), _col("r", "Ref:R"),
                      _col("f", "Any", "$n * 2 if $n else 0"), _col("g", "Any", "$r.rate"),
                      _col("h", "Any", "len(R.lookupRecords(rate=$n))")]
                     + [_cnt(c) for c, _w, _d in CROSS_COUNTERS]]],
  [["BulkUpdateRecord", "_grist_Tables_column", [_CROSS_REF[c] for c, _w, _d in CROSS_COUNTERS],
    {"recalcWhen": [w for _c, w, _d in CROSS_COUNTERS],
     "recalcDeps": [["L"] + [_CROSS_REF[d] for d in deps] for _c, _w, deps in CROSS_COUNTERS]}]],
  [["BulkAddRecord", "R", [None, None, None], {"rate": [1, 2, 2]}]],
  [["BulkAddRecord", "A", [None, None, None], {"n": [1, 2, 3], "s": ["a", "b", "c"], "r": [1, 2, 3]}]],
]

VALS = {"n": [0, 1, 2, 3, 4, 7], "m": [5, 6, 7, 8], "s": ["a", "b", "c", "d", ""], "r": [0, 1, 2, 3, 4],
        "rate": [0, 1, 2, 3, 7]}
NAMES = ["n", "m", "x", "nn", "dep", "s", "t1", "New Col", "q"]


class C15Monitor(explore.Monitor):
  seeds = ("c15_counters", "c15_cross")
  length = 12
  weights = {"add": 12, "update": 16, "bulk_update": 8, "remove": 4, "rename_col": 5, "bulk_add": 5,
             "rename_table": 2, "add_col": 2, "add_formula_col": 1, "label": 2,
             "modify_type": 0, "modify_formula": 0, "to_formula": 0, "to_data": 0, "remove_col": 0,
             "meta_update": 0, "replace_data": 0, "multi": 0, "add_temp": 0, "upsert": 0,
             "invalid": 1, "summary": 0, "view": 0, "reverse": 0, "remove_table": 0, "add_table": 0}

  def start(self, e, seed_name):
    return {"seed": seed_name}

  def _table(self, e):
    for t in eng.user_tables(e):
      trig, _ = config(e, t)
      if any(v for v in trig.values()): return t
    return None

  def gen_bundle(self, st, e, g):
    st["exploring"] = True
    rng = g.rng
    t = self._table(e)
    if t is None or rng.random() < 0.15:
      return g.bundle(e)
    others = [x for x in eng.user_tables(e) if x != t and not any(config(e, x)[0].values())]
    if others and rng.random() < 0.35:
      b = self.other_table_bundle(e, rng, rng.choice(others))
      if b: return b
    trig, fin = config(e, t)
    rows = list(e.tables[t].row_ids)
    cur = table_rows(e, t)
    data = [c.colId for c in e.schema[t].columns.values()
            if not c.isFormula and c.colId != "manualSort" and c.colId not in trig]
    tc = [c for c, k in trig.items() if k]
    def val(c, r=None):
      pool = VALS.get(c)
      if pool is None:
        typ = e.schema[t].columns[c].type
        pool = VALS["s"] if typ == "Text" else VALS["n"]
      if r is not None and rng.random() < 0.25: return cur[r].get(c)       # write the same value
      return rng.choice(pool)
    x = rng.random()
    if rows and tc and rng.random() < 0.3:
      # several user actions in one bundle on the same row(s): explicit writes to counter columns
      # and changes of their dependencies, in either order
      r = rng.choice(rows)
      acts = []
      for _ in range(rng.randint(2, 3)):
        y = rng.random()
        rr = r if rng.random() < 0.8 else rng.choice(rows)
        if y < 0.45:
          acts.append(["UpdateRecord", t, rr, {rng.choice(tc): rng.choice([0, 5, 10, 42])}])
        elif y < 0.9 and data:
          cols = rng.sample(data, rng.randint(1, min(2, len(data))))
          acts.append(["UpdateRecord", t, rr, {c: val(c, rr) for c in cols}])
        elif data:
          acts.append(["UpdateRecord", t, rr, {rng.choice(tc): rng.choice([1, 7]), data[0]: val(data[0], rr)}])
      if len(acts) >= 2: return acts
    if x < 0.5 and rows:
      r = rng.choice(rows)
      cols = rng.sample(data, rng.randint(0, min(2, len(data)))) if data else []
      vals = {c: val(c, r) for c in cols}
      if tc and rng.random() < 0.35:
        vals[rng.choice(tc)] = rng.choice([0, 5, 10, 50, cur[r].get(tc[0]) if _is_int(cur[r].get(tc[0])) else 3])
      if not vals and data: vals = {rng.choice(data): val(data[0])} if False else {data[0]: val(data[0], r)}
      return [["UpdateRecord", t, r, vals]]
    if x < 0.65 and rows:
      rs = rng.sample(rows, rng.randint(1, min(3, len(rows))))
      cols = rng.sample(data, rng.randint(1, min(2, len(data)))) if data else []
      vals = {c: [val(c, r) for r in rs] for c in cols}
      if tc and rng.random() < 0.25:
        vals[rng.choice(tc)] = [rng.choice([0, 5, 9]) for _ in rs]
      return [["BulkUpdateRecord", t, rs, vals]] if vals else g.bundle(e)
    if x < 0.8:
      cols = [c for c in data if rng.random() < 0.6]
      vals = {c: val(c) for c in cols}
      if tc and rng.random() < 0.3: vals[rng.choice(tc)] = rng.choice([0, 5, 40])
      if rng.random() < 0.7: return [["AddRecord", t, None, vals]]
      n = rng.randint(2, 3)
      return [["BulkAddRecord", t, [None] * n, {c: [val(c) for _ in range(n)] for c in vals}]]
    if x < 0.86 and rows:
      return [["RemoveRecord", t, rng.choice(rows)]]
    if x < 0.96:
      cols = [c.colId for c in e.schema[t].columns.values() if c.colId != "manualSort"]
      return [["RenameColumn", t, rng.choice(cols), rng.choice(NAMES)]]
    return [["RenameTable", t, rng.choice(["A", "B", "Renamed", "T2"])]]

  def other_table_bundle(self, e, rng, o):
    """Actions on a table WITHOUT trigger columns that other tables refer to / look up: updates
    (recompute formula cells elsewhere), removals (clear references elsewhere), adds, renames."""
    rows = list(e.tables[o].row_ids)
    data = [(c.colId, c.type) for c in e.schema[o].columns.values()
            if not c.isFormula and c.colId != "manualSort"]
    def val(c, typ):
      pool = VALS.get(c)
      if pool is None: pool = VALS["s"] if typ == "Text" else VALS["n"]
      return rng.choice(pool)
    def update():
      r = rng.choice(rows)
      cols = rng.sample(data, rng.randint(1, min(2, len(data))))
      return ["UpdateRecord", o, r, {c: val(c, typ) for c, typ in cols}]
    x = rng.random()
    if x < 0.4 and rows and data: return [update()]
    if x < 0.5 and rows and data: return [update() for _ in range(rng.randint(2, 3))]
    if x < 0.6 and rows and data:
      rs = rng.sample(rows, rng.randint(1, min(3, len(rows))))
      c, typ = rng.choice(data)
      return [["BulkUpdateRecord", o, rs, {c: [val(c, typ) for _ in rs]}]]
    if x < 0.75 and data:
      return [["AddRecord", o, None, {c: val(c, typ) for c, typ in data}]]
    if x < 0.88 and rows:
      if len(rows) > 2 and rng.random() < 0.3:
        return [["BulkRemoveRecord", o, rng.sample(rows, 2)]]
      return [["RemoveRecord", o, rng.choice(rows)]]
    if x < 0.96 and data:
      return [["RenameColumn", o, rng.choice(data)[0], rng.choice(NAMES)]]
    return [["RenameTable", o, rng.choice(["R", "Rates", "Other"])]]

  RECORD_ACTIONS = ("AddRecord", "BulkAddRecord", "UpdateRecord", "BulkUpdateRecord", "RemoveRecord",
                    "BulkRemoveRecord", "RenameColumn", "RenameTable")

  def watch_other_tables(self, st, e, bundle):
    """Ghost state for model_other: every table with counter columns that no action of the bundle
    addresses (only for bundles made of record actions / renames on existing user tables)."""
    st["others"] = []
    if not bundle or not all(isinstance(x, list) and len(x) >= 3 and x[0] in self.RECORD_ACTIONS
                             and isinstance(x[1], str) and x[1] in e.tables
                             and not x[1].startswith("_grist_") for x in bundle):
      return
    acted = {x[1] for x in bundle}
    for w in eng.user_tables(e):
      if w in acted: continue
      trig, fin = config(e, w)
      if not any(trig.values()): continue
      ref_cols = {c.colId for c in e.schema[w].columns.values()
                  if not c.isFormula and c.type.startswith(("Ref:", "RefList:"))}
      st["others"].append((w, eng.table_ref(e, w), table_rows(e, w), trig, fin,
                           cross_formulas(e, w, fin), ref_cols))

  def check_other_tables(self, st, e, bundle):
    names = sorted(set(x[0] for x in bundle))
    tabs = {x["id"]: x["tableId"] for x in eng.meta_records(e, "_grist_Tables")}
    for (w, tref, pre_rows, trig, fin, cross, ref_cols) in st.get("others") or []:
      w_now = tabs.get(tref)
      if w_now is None or w_now not in e.tables: continue
      post_rows = table_rows(e, w_now)
      try:
        exp = model_other(names, pre_rows, post_rows, trig, fin, cross, ref_cols)
      except Exception as ex:
        return [("C15.model_error", {"error": repr(ex), "action": bundle})]
      if exp is None:
        ST["unmodelled"] += 1; continue
      ST["other_table_bundles_checked"] += 1
      for (r, c, allowed, clause) in exp:
        ST["other_table_cells_checked"] += 1
        if len(allowed) == 1 and clause == "C15.fires_when_required": ST["other_table_must_fire"] += 1
        got = post_rows.get(r, {}).get(c)
        if got not in allowed or isinstance(got, bool):
          k = trig[c]
          return [(clause, {
            "action": ["OTHER-TABLE:" + "+".join(names), bundle], "table": w, "row": r, "column": c,
            "recalcWhen": k["when"], "recalcDeps": sorted(k["deps"]), "depends_on_itself": k["selfdep"],
            "before": pre_rows[r].get(c), "after": got, "allowed": sorted(allowed, key=repr),
            "row_before": {x: repr(v) for x, v in pre_rows[r].items()},
            "row_after": {x: repr(v) for x, v in post_rows.get(r, {}).items()}})]
    return []

  def before(self, st, e, bundle):
    st["case"] = None
    self.watch_other_tables(st, e, bundle)
    if len(bundle) > 1:
      if not all(len(x) == 4 and x[0] in ("UpdateRecord", "BulkUpdateRecord") and x[1] == bundle[0][1]
                 and isinstance(x[3], dict) for x in bundle): return
      t = bundle[0][1]
      if not isinstance(t, str) or t not in e.tables or t.startswith("_grist_"): return
      trig, fin = config(e, t)
      if not any(trig.values()): return
      tref = eng.table_ref(e, t)
      refs = {c["id"]: c["colId"] for c in eng.meta_records(e, "_grist_Tables_column") if c["parentId"] == tref}
      st["case"] = (("MULTI", list(bundle)), t, tref, table_rows(e, t), trig, fin, refs)
      return
    if len(bundle) != 1: return
    a = bundle[0]
    name = a[0]
    if name not in ("AddRecord", "BulkAddRecord", "UpdateRecord", "BulkUpdateRecord", "RemoveRecord",
                    "BulkRemoveRecord", "RenameColumn", "RenameTable"): return
    t = a[1]
    if not isinstance(t, str) or t not in e.tables or t.startswith("_grist_"): return
    if name in ("AddRecord", "BulkAddRecord", "UpdateRecord", "BulkUpdateRecord") and not isinstance(a[3], dict):
      return
    trig, fin = config(e, t)
    if not any(trig.values()): return
    tref = eng.table_ref(e, t)
    refs = {c["id"]: c["colId"] for c in eng.meta_records(e, "_grist_Tables_column") if c["parentId"] == tref}
    st["case"] = (a, t, tref, table_rows(e, t), trig, fin, refs)

  def after(self, st, e, bundle, group, exc):
    case, st["case"] = st.get("case"), None
    if exc is None and st.get("others"):
      bad = self.check_other_tables(st, e, bundle)
      if bad:
        _flush()
        return bad
    if not case or exc is not None: return []
    a, t, tref, pre_rows, trig, fin, refs = case
    tabs = {x["id"]: x["tableId"] for x in eng.meta_records(e, "_grist_Tables")}
    t_now = tabs.get(tref)
    if t_now is None or t_now not in e.tables: return []
    refs_now = {c["id"]: c["colId"] for c in eng.meta_records(e, "_grist_Tables_column") if c["parentId"] == tref}
    col_map = {refs[r]: refs_now[r] for r in refs if r in refs_now}
    post_rows = table_rows(e, t_now)
    try:
      if a[0] == "MULTI":
        exp = model_multi(a[1], pre_rows, post_rows, trig, fin)
        if exp is not None: ST["multi_action_bundles_checked"] += 1
      else:
        exp = model(a, t, pre_rows, post_rows, trig, fin, col_map)
    except Exception as ex:
      return [("C15.model_error", {"error": repr(ex), "action": a})]
    if exp is None:
      ST["unmodelled"] += 1
      return []
    ST["actions_checked"] += 1
    fails = []
    for (r, c, allowed, clause) in exp:
      ST["cells_checked"] += 1
      if len(allowed) == 1 and clause == "C15.fires_when_required": ST["must_fire"] += 1
      got = post_rows.get(r, {}).get(col_map.get(c, c))
      if got not in allowed or (isinstance(got, bool)):
        k = trig[c]
        fails.append((clause, {
          "action": a, "row": r, "column": c, "recalcWhen": k["when"], "recalcDeps": sorted(k["deps"]),
          "depends_on_itself": k["selfdep"], "before": pre_rows.get(r, {}).get(c), "after": got,
          "allowed": sorted(allowed, key=repr),
          "row_before": {x: repr(v) for x, v in pre_rows.get(r, {}).items()},
          "row_after": {x: repr(v) for x, v in post_rows.get(r, {}).items()}}))
        break
    if not fails: return []
    _flush()
    for clause, d in fails:
      k = (clause, self.classify(clause, d, bundle, None))
      if st.get("exploring") and k in _known_classes() and k in _REPORTED: continue
      _REPORTED.add(k)
      return [(clause, d)]
    return []

  def finish(self, st, e):
    _flush()
    return []

  def classify(self, clause, detail, bundle, history):
    when = {0: "DEFAULT", 1: "NEVER", 2: "MANUAL_UPDATES"}.get(detail.get("recalcWhen"), "?")
    if detail.get("depends_on_itself"): when += "+self"
    act = detail.get("action", ["?"])[0]
    b, a = detail.get("before"), detail.get("after")
    if clause == "C15.explicit_value_kept" and act == "MULTI" and not detail.get("depends_on_itself"):
      acts = detail["action"][1]
      col, row = detail.get("column"), detail.get("row")
      allowed = detail.get("allowed") or [None]
      def writes(x):
        rows = x[2] if isinstance(x[2], list) else [x[2]]
        return row in rows and col in x[3]
      idx = [i for i, x in enumerate(acts) if writes(x)]
      if idx and _is_int(a) and _is_int(allowed[0]) and a == allowed[0] + 1:
        def written(i):
          x = acts[i]
          return x[3][col][x[2].index(row)] if isinstance(x[2], list) else x[3][col]
        v = written(idx[-1])
        stored_before = written(idx[-2]) if len(idx) > 1 else b
        if v == stored_before:
          return "explicit_value_kept:update:supplied-value-equals-stored-value-so-not-protected"
        if idx[-1] < len(acts) - 1:
          return ("explicit_value_kept:bundle:value-supplied-by-a-non-last-action-recalculated-"
                  "by-that-action's-own-trigger")
    if clause == "C15.explicit_value_kept" and not detail.get("depends_on_itself"):
      allowed = detail.get("allowed") or [None]
      if "Add" in act and detail.get("recalcDeps") and _is_int(a) and a == allowed[0] + 1:
        return "explicit_value_kept:new-record:column-with-recalcDeps-recalculated-from-the-supplied-value"
      if "Update" in act and b == allowed[0] and _is_int(a) and a == (b or 0) + 1:
        return "explicit_value_kept:update:supplied-value-equals-stored-value-so-not-protected"
    delta = (a - (b or 0)) if _is_int(a) and (_is_int(b) or b is None) else "?"
    return "%s:%s after %s delta=%s" % (clause.split(".", 1)[1], when, act, delta)


ST = {"actions_checked": 0, "cells_checked": 0, "must_fire": 0, "unmodelled": 0,
      "multi_action_bundles_checked": 0, "other_table_bundles_checked": 0,
      "other_table_cells_checked": 0, "other_table_must_fire": 0}
_REPORTED = set()
_KNOWN = []

def _known_classes():
  if not _KNOWN:
    _KNOWN.append({(f["match"].get("obligation"), f["match"].get("class"))
                   for f in common.load_known_findings("C15")})
  return _KNOWN[0]


def _flush():
  d = os.environ.get("C15_COUNT_DIR")
  if not d: return
  with open(os.path.join(d, "%d.json" % os.getpid()), "w") as f:
    json.dump(ST, f)


def main():
  import shutil, tempfile
  rep = common.Report("C15", "exploration")
  rep.assumptions += [
    common.SHIM_ASSUMPTION,
    "bounded: seeded random histories of single-action bundles and of 2-3-action update bundles "
    "(explicit writes to counter columns and changes of their dependencies, in either order, on "
    "the same or different rows) on seed documents c15_counters "
    "(table A(n, m, s, f=$n*2) with seven counter trigger columns: DEFAULT with recalcDeps [n], "
    "[n, m], [f] (a formula column), [] , [itself, s]; NEVER; MANUAL_UPDATES); actions: record updates (incl. writing the same value, explicit values for "
    "trigger columns), bulk updates, adds with/without explicit values, removals, renames of "
    "columns (incl. dependencies and the trigger columns) and of the table; not a proof",
    "the model gives MAY (old or old+1) where the statement is silent: a dependency written with "
    "an unchanged value or possibly recomputed; MANUAL_UPDATES with all-equal values; an explicit "
    "value equal to the old one on a self-dependent column; adds with an explicit value on a "
    "self-dependent column. Bundles of several UpdateRecord / BulkUpdateRecord actions on one "
    "table are folded action by action (an explicit value exempts the column from the triggers of "
    "ITS OWN action only; a trigger raised by a later action is owed in full; a recalculation owed "
    "from an earlier action followed by an explicit write is MAY). Actions the model does not cover "
    "(other multi-action bundles, writes to formula columns, non-integer explicit values, "
    "configuration changes) are skipped (counted)",
    "seed document c15_cross: R(rate) and A(n, s, r: Ref:R, f=$n*2, g=$r.rate, "
    "h=len(R.lookupRecords(rate=$n))) with eleven counters: DEFAULT with recalcDeps [n], [r], [g], [h]; "
    "MANUAL_UPDATES and NEVER WITH stored recalcDeps ([n], [r], [g], [h, f], [r, g]); about a third of "
    "its bundles act on R only (1-3 record updates, bulk update, add, removal of one or two records - "
    "which clears A.r -, renames of R.rate / R) and are checked against table A with model_other: "
    "MANUAL_UPDATES / NEVER counters unchanged, DEFAULT counters +1 exactly when a dependency cell "
    "of the row differs afterwards, MAY when a dependency is a formula reading another table or a "
    "reference column and its value is the same afterwards, renames change nothing",
    "a recalculation is observed as +1 of a counter formula; only Int trigger columns whose formula "
    "is exactly `(value or 0) + 1` are modelled"]
  rep.coverage["rule"] = (
    "one evaluation = one bundle checked against the model of one table on every (row, counter "
    "column) of that table (the table the bundle is about, and every other table with counters); "
    "non-trivial = the bundle changed the document")
  d = tempfile.mkdtemp(prefix="c15-count-")
  os.environ["C15_COUNT_DIR"] = d
  tot = dict.fromkeys(ST, 0)
  try:
    # the first column rename of a process spends seconds filling astroid's caches: do it once here,
    # before the workers are forked, instead of once in every worker (bundle time limit under load)
    w = eng.new_engine()
    for b in gen.seed_history("c15_cross"): eng.apply(w, b)
    eng.apply(w, [["RenameColumn", "R", "rate", "q"]])
    explore.explore(rep, "checks.C15", "C15Monitor", n_quick=600, n_thorough=8000,
                    budget_quick_s=45, budget_thorough_s=800)
    for f in os.listdir(d):
      with open(os.path.join(d, f)) as fh:
        for k, v in json.load(fh).items(): tot[k] += v
  finally:
    shutil.rmtree(d, ignore_errors=True)
  cov = rep.coverage
  cov["history_bundles"] = cov.get("evaluations", 0)
  cov["evaluations"] = tot["actions_checked"]
  cov["distinct_nontrivial"] = min(cov.get("distinct_nontrivial", 0), tot["actions_checked"])
  cov["cells_checked"] = tot["cells_checked"]
  cov["cells_required_to_fire"] = tot["must_fire"]
  cov["actions_outside_the_model"] = tot["unmodelled"]
  cov["multi_action_bundles_checked"] = tot["multi_action_bundles_checked"]
  cov["other_table_bundles_checked"] = tot["other_table_bundles_checked"]
  cov["other_table_cells_checked"] = tot["other_table_cells_checked"]
  cov["other_table_cells_required_to_fire"] = tot["other_table_must_fire"]
  cov["evaluations"] += tot["other_table_bundles_checked"]
  cov["exhaustive"] = False
  if tot["actions_checked"] == 0:
    rep.undecided_obligation("C15.fires_when_required", "no action was checked against the model")
  if tot["other_table_bundles_checked"] == 0:
    rep.undecided_obligation("C15.silent_otherwise", "no action on another table was checked")
  return rep.finish()


if __name__ == "__main__":
  sys.exit(main())
