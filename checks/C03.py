"""C03 Redo after undo reproduces the post-bundle state — bounded run-time contract on
Engine.apply_user_actions (shares the undo/redo monitor of checks/C01.py)."""
import os, sys
sys.path.insert(0, os.path.dirname(os.path.dirname(os.path.abspath(__file__))))
from vlib import common
from vlib.rtc import explore


def main():
  rep = common.Report("C03", "exploration")
  rep.assumptions += [common.SHIM_ASSUMPTION,
                      "bounded: seeded random histories over the seed documents and action "
                      "alphabet of vlib/rtc/gen.py; not a proof",
                      "after every successful bundle the monitor undoes it (ApplyUndoActions) and "
                      "re-applies its stored actions (ApplyDocActions) on the same engine"]
  rep.coverage["rule"] = ("one evaluation = one user bundle applied, undone and redone on the real "
                          "engine, with snapshot(after redo) == snapshot(after bundle) over every "
                          "table incl. metadata; non-trivial = the bundle changed the document or raised")
  explore.explore(rep, "checks.C01", "C03Monitor")
  return rep.finish()


if __name__ == "__main__":
  sys.exit(main())
