"""C08 Internal schema always matches the metadata — bounded run-time contract (invariant) on the
real Engine.apply_user_actions, evaluated after EVERY bundle: successful ones and rolled-back ones.

  C08.assert_schema_consistent  the engine's own Engine.assert_schema_consistent() passes (it is
                                only run by the engine when a bundle touched the schema; here it is
                                unconditional)
  C08.schema_equal              an independent comparison, field by field: for every record of
                                _grist_Tables, engine.schema has a table of that tableId whose
                                columns are exactly the _grist_Tables_column records with that
                                parentId (colId, type, bool(isFormula), formula, reverseColId =
                                colId of the record `reverseCol` points to), every other table of
                                engine.schema is a built-in _grist_* table equal to its definition in
                                schema.schema_create_actions(), and schema.build_schema(...) of the
                                two fetched metadata tables agrees with engine.schema as well
  C08.no_orphan_columns         every _grist_Tables_column.parentId is the id of a _grist_Tables
                                record; tableIds and (parentId, colId) pairs are unique
The history generator emphasises metadata-only edit paths (record edits on _grist_Tables_column and
_grist_Tables), failing bundles (rollback), and undo of the previous bundle."""
import os, sys
sys.path.insert(0, os.path.dirname(os.path.dirname(os.path.abspath(__file__))))
from vlib import common
from vlib.rtc import eng, explore, gen

ALL_SEEDS = ("basic", "refs", "lookup", "summary", "twoway", "twoway_list", "trigger", "choices")


# ------------------------------------------------------------------------------------------------
# the clauses (also used by C04)
# ------------------------------------------------------------------------------------------------

def expected_user_schema(e):
  """{tableId: {colId: (type, isFormula, formula, reverseColId)}} written from the statement, from
  the two metadata tables as fetched through fetch_table; plus the list of problems met."""
  tables = eng.meta_records(e, "_grist_Tables")
  cols = eng.meta_records(e, "_grist_Tables_column")
  problems = []
  table_ids = {t["id"] for t in tables}
  by_ref = {c["id"]: c for c in cols}
  exp = {}
  for t in tables:
    if t["tableId"] in exp:
      problems.append("two _grist_Tables records with tableId %r" % (t["tableId"],))
    exp[t["tableId"]] = {}
  name_of = {t["id"]: t["tableId"] for t in tables}
  for c in cols:
    if c["parentId"] not in table_ids:
      problems.append("column record #%s %r belongs to nonexistent table #%s"
                      % (c["id"], c["colId"], c["parentId"]))
      continue
    tcols = exp[name_of[c["parentId"]]]
    if c["colId"] in tcols:
      problems.append("two column records %r in table %r" % (c["colId"], name_of[c["parentId"]]))
    rev = by_ref.get(c.get("reverseCol") or 0)
    tcols[c["colId"]] = (c["type"], bool(c["isFormula"]), c["formula"],
                         rev["colId"] if rev else None)
  return exp, problems


def actual_schema(e):
  out = {}
  for tid, t in e.schema.items():
    entry = {}
    if t.tableId != tid:
      entry["<tableId field>"] = t.tableId
    for cid, c in t.columns.items():
      entry[cid] = (c.type, c.isFormula, c.formula, c.reverseColId)
      if c.colId != cid: entry[cid] += ("colId field %r" % (c.colId,),)
    out[tid] = entry
  return out


def builtin_schema():
  import schema
  out = {}
  for a in schema.schema_create_actions():
    out[a.table_id] = {c["id"]: (c["type"], bool(c["isFormula"]), c["formula"],
                                 c.get("reverseColId")) for c in a.columns}
  return out


def diff_schema(exp, act, limit=6):
  out = []
  for t in sorted(set(exp) | set(act), key=str):
    if t not in act: out.append("table %r in metadata, not in engine.schema" % (t,)); continue
    if t not in exp: out.append("table %r in engine.schema, not in metadata" % (t,)); continue
    for c in sorted(set(exp[t]) | set(act[t]), key=str):
      if c not in act[t]: out.append("%s.%s in metadata only: %r" % (t, c, exp[t][c]))
      elif c not in exp[t]: out.append("%s.%s in engine.schema only: %r" % (t, c, act[t][c]))
      elif exp[t][c] != act[t][c]:
        out.append("%s.%s metadata %r != engine.schema %r" % (t, c, exp[t][c], act[t][c]))
    if len(out) >= limit: break
  return out[:limit]


def schema_clauses(e):
  """-> list of (clause, detail) violated right now."""
  import schema
  out = []
  try:
    e.assert_schema_consistent()
  except Exception as ex:
    out.append(("C08.assert_schema_consistent",
                {"error": type(ex).__name__, "message": str(ex)[:600]}))
  exp, problems = expected_user_schema(e)
  if problems:
    out.append(("C08.no_orphan_columns", {"problems": problems[:6]}))
  act = actual_schema(e)
  full = dict(builtin_schema())
  full.update(exp)
  d = diff_schema(full, act)
  if d:
    out.append(("C08.schema_equal", {"diff": d}))
  else:
    try:
      built = schema.build_schema(e.fetch_table("_grist_Tables"),
                                  e.fetch_table("_grist_Tables_column"))
    except Exception as ex:
      return out + [("C08.schema_equal", {"error": "schema.build_schema raised %r" % (ex,)})]
    b = {tid: {cid: (c.type, c.isFormula, c.formula, c.reverseColId)
               for cid, c in t.columns.items()} for tid, t in built.items()}
    d = diff_schema(b, act)
    if d:
      out.append(("C08.schema_equal", {"diff": d, "via": "schema.build_schema"}))
  return out


# ------------------------------------------------------------------------------------------------
# metadata-only edit paths
# ------------------------------------------------------------------------------------------------

def meta_edit(e, g):
  """One bundle editing _grist_Tables / _grist_Tables_column records directly."""
  rng = g.rng
  cols = [c for c in eng.meta_records(e, "_grist_Tables_column")]
  tabs = eng.meta_records(e, "_grist_Tables")
  if not cols or not tabs:
    return g.bundle(e)
  c = rng.choice(cols)
  c2 = rng.choice(cols)
  t = rng.choice(tabs)
  name = lambda: rng.choice(gen.NAMES)
  formula = lambda: g.formula_for(c["formula"])
  typ = lambda: rng.choice(gen.NEW_TYPES + ["Ref:Nope", "Text", "Int"])
  k = rng.randrange(20)
  if k in (6, 8, 13) and rng.random() < 0.7:
    k = rng.choice([0, 1, 2, 3, 5, 9, 11, 16, 17])     # keep the three direct-insert paths rare
  if k == 0: b = [["UpdateRecord", "_grist_Tables_column", c["id"], {"colId": name()}]]
  elif k == 1: b = [["UpdateRecord", "_grist_Tables_column", c["id"], {"formula": formula()}]]
  elif k == 2: b = [["UpdateRecord", "_grist_Tables_column", c["id"], {"type": typ()}]]
  elif k == 3: b = [["UpdateRecord", "_grist_Tables_column", c["id"],
                     {"isFormula": not c["isFormula"], "formula": formula()}]]
  elif k == 4: b = [["UpdateRecord", "_grist_Tables_column", c["id"], {"isFormula": not c["isFormula"]}]]
  elif k == 5:   # simultaneous renames, possibly a swap
    b = [["BulkUpdateRecord", "_grist_Tables_column", [c["id"], c2["id"]],
          {"colId": [c2["colId"], c["colId"]] if rng.random() < 0.5 else [name(), name()]}]]
  elif k == 6: b = [["UpdateRecord", "_grist_Tables_column", c["id"], {"parentId": t["id"]}]]
  elif k == 7: b = [["UpdateRecord", "_grist_Tables_column", c["id"], {"parentPos": rng.choice([0, 1.5, 100, None])}]]
  elif k == 8: b = [["AddRecord", "_grist_Tables_column", None,
                     {"parentId": t["id"], "colId": name(), "type": typ(),
                      "isFormula": rng.random() < 0.5, "formula": formula()}]]
  elif k == 9: b = [["RemoveRecord", "_grist_Tables_column", c["id"]]]
  elif k == 10: b = [["BulkRemoveRecord", "_grist_Tables_column", sorted({c["id"], c2["id"]})]]
  elif k == 11: b = [["UpdateRecord", "_grist_Tables", t["id"], {"tableId": rng.choice(["A", "B", "Zed", "x y", ""])}]]
  elif k == 12: b = [["RemoveRecord", "_grist_Tables", t["id"]]]
  elif k == 13: b = [["AddRecord", "_grist_Tables", None, {"tableId": rng.choice(["Zed", "A", "T2"])}]]
  elif k == 14: b = [["UpdateRecord", "_grist_Tables_column", c["id"], {"reverseCol": rng.choice([0, c2["id"]])}]]
  elif k == 15: b = [["BulkUpdateRecord", "_grist_Tables_column", [c["id"], c2["id"]],
                      {"type": [typ(), typ()], "formula": [formula(), formula()]}]]
  elif k == 16:  # table rename and column rename in one bundle
    b = [["UpdateRecord", "_grist_Tables", t["id"], {"tableId": rng.choice(["Zed", "B", "A"])}],
         ["UpdateRecord", "_grist_Tables_column", c["id"], {"colId": name()}]]
  elif k == 17: b = [["UpdateRecord", "_grist_Tables_column", c["id"],
                      {"colId": name(), "type": typ(), "formula": formula()}]]
  elif k == 18: b = [["UpdateRecord", "_grist_Tables_column", c["id"],
                      {"label": name(), "untieColIdFromLabel": rng.random() < 0.5}]]
  else: b = [["UpdateRecord", "_grist_Tables", t["id"], {"onDemand": rng.random() < 0.5}]]
  r = rng.random()
  if r < 0.2:      # a later action fails after the metadata edit succeeded
    b = b + [rng.choice([["UpdateRecord", "NoSuchTable", 1, {"x": 1}], ["NoSuchAction"],
                         ["RemoveRecord", "_grist_Tables_column", 99999]])]
  elif r < 0.35:
    b = b + g.bundle(e)
  return b


class C08Monitor(explore.Monitor):
  seeds = ALL_SEEDS
  length = 10
  weights = {"add": 2, "bulk_add": 1, "update": 3, "bulk_update": 1, "remove": 1, "bulk_remove": 1,
             "add_col": 6, "add_formula_col": 6, "remove_col": 5, "rename_col": 7, "modify_type": 6,
             "modify_formula": 5, "to_formula": 4, "to_data": 4, "add_table": 4, "remove_table": 3,
             "rename_table": 5, "meta_update": 10, "invalid": 4, "replace_data": 0, "multi": 10,
             "add_temp": 0, "upsert": 0, "summary": 3, "reverse": 3, "view": 1, "label": 5}

  def start(self, e, seed_name):
    return {"last_undo": None, "n_meta": 0, "n_rolled_back": 0}

  def gen_bundle(self, st, e, g):
    r = g.rng.random()
    if r < 0.08 and st.get("last_undo"):
      return [["ApplyUndoActions", st["last_undo"]]]
    if r < 0.5:
      return meta_edit(e, g)
    if r < 0.65:
      # a schema-changing user action followed, in the same bundle, by an action that fails: the
      # rollback has to restore the internal schema of EVERY kind of schema action (two-way
      # reference links and unlinks included)
      kind = g.rng.choice(["reverse", "reverse", "add_col", "add_formula_col", "remove_col",
                           "rename_col", "modify_type", "modify_formula", "to_formula", "to_data",
                           "add_table", "remove_table", "rename_table", "summary"])
      a = g.action(e, kind)
      acts = a[1] if isinstance(a, tuple) else [a]
      return acts + [g.rng.choice([["UpdateRecord", "NoSuchTable", 1, {"x": 1}],
                                   ["RenameColumn", "A", "no_such_column", "z"],
                                   ["RemoveRecord", "_grist_Tables_column", 98765]])]
    return g.bundle(e)

  def after(self, st, e, bundle, group, exc):
    st["last_undo"] = eng.undo_reprs(group) if group is not None and group.undo else None
    out = schema_clauses(e)
    for clause, detail in out:
      detail["after"] = "rollback of %s" % type(exc).__name__ if exc is not None else "success"
      if exc is not None: detail["raised"] = repr(exc)[:200]
    return out[:1]

  def classify(self, clause, detail, bundle, history):
    for a in bundle:
      if not (isinstance(a, list) and len(a) > 1): continue
      if a[0] in ("AddRecord", "BulkAddRecord") and a[1] in ("_grist_Tables", "_grist_Tables_column"):
        return "record added directly to %s" % a[1]
      if (a[0] in ("UpdateRecord", "BulkUpdateRecord") and a[1] == "_grist_Tables_column"
          and isinstance(a[-1], dict) and "parentId" in a[-1]):
        return "parentId of a column record edited directly"
    kinds = sorted(set(("%s(%s)" % (a[0], a[1]) if len(a) > 1 and isinstance(a[1], str)
                        and a[1].startswith("_grist_") else a[0])
                       for a in bundle if isinstance(a, list) and a))
    return "%s [%s] after %s" % (clause, detail.get("after", "").split(" of ")[0], "+".join(kinds))


def main():
  rep = common.Report("C08", "exploration")
  rep.assumptions += [
    common.SHIM_ASSUMPTION,
    "bounded: seeded random histories (seed documents of vlib/rtc/gen.py; action mix weighted "
    "towards schema actions, with half of the bundles direct record edits of _grist_Tables_column / "
    "_grist_Tables, 20% of those followed by a failing action; 15% a schema-changing user action "
    "(incl. AddReverseColumn) followed by a failing action; 8% undo of the previous bundle); "
    "not a proof",
    "column order inside a table is not compared (the statement lists ids, types, formula flags, "
    "formulas and reverse columns)",
    "metadata is observed through Engine.fetch_table"]
  rep.coverage["rule"] = ("one evaluation = one bundle applied to the real engine followed by the "
                          "three clauses (whether the bundle succeeded or was rolled back); "
                          "non-trivial = the bundle changed the document or raised")
  from checks import C02
  C02.tune_explore(4)
  explore.explore(rep, "checks.C08", "C08Monitor", n_quick=160, budget_quick_s=30)
  return rep.finish()


if __name__ == "__main__":
  sys.exit(main())
