"""C14 Sorted searches and PREVIOUS/NEXT/RANK agree with a linear scan — deductive (tier P) on
records.FindOps.* and on the sort key it relies on, plus a bounded twin through real formulas."""
import functools, itertools, os, sys
from numbers import Number
sys.path.insert(0, os.path.dirname(os.path.dirname(os.path.abspath(__file__))))
from vlib import common
from vlib.pysym import runner

OPS = ["lt", "le", "gt", "ge", "eq"]
POOLS = {
  "Int": ([1, 2, 2, 3, None, 5], [0, 1, 2, 2.5, 3, 6, None, "a", True]),
  "Numeric": ([1.5, 2.0, 2.0, -1.0, None], [1.5, 2, 1.75, -2, None, "x"]),
  "Text": (["a", "b", "b", "", None], ["a", "aa", "b", "", "c", None, 1]),
  "Any": ([1, "a", None, 2.5, "b", 1], [1, 2, "a", "ab", None, 2.5, 0]),
}


def _cases(tier, seed):
  n_rows = (3,) if tier == "quick" else (3, 4)
  for typ, (keys, probes) in POOLS.items():
    for n in n_rows:
      seen = set()
      k = 0
      for combo in itertools.product(keys, repeat=n):
        if tuple(sorted(map(repr, combo))) in seen and tier == "quick": continue
        seen.add(tuple(sorted(map(repr, combo))))
        k += 1
        for oi, order in enumerate(("k", "-k")):
          if tier == "quick" and (k + oi) % 2: continue      # quick: every multiset, one order each
          yield dict(type=typ, keys=list(combo), order=order, probes=probes)


def _cmp_values(a, b):
  """The documented comparison: Python's `<`, falling back (when types do not compare) on
  None < numbers < other types by type name."""
  try:
    if a < b: return -1
    if b < a: return 1
    return 0
  except TypeError:
    def cls(v): return (0 if v is None else 1, 0 if isinstance(v, Number) else 1, type(v).__name__)
    ca, cb = cls(a), cls(b)
    return -1 if ca < cb else (1 if cb < ca else 0)


def _call(a):
  from vlib.rtc import eng
  e = eng.new_engine()
  cols = [{"id": "g", "type": "Text", "isFormula": False, "formula": ""},
          {"id": "k", "type": a["type"], "isFormula": False, "formula": ""}]
  order = a["order"]
  for name, f in (("prev", "PREVIOUS(rec, group_by='g', order_by=%r).id" % order),
                  ("next", "NEXT(rec, group_by='g', order_by=%r).id" % order),
                  ("rank", "RANK(rec, group_by='g', order_by=%r)" % order),
                  ("rankd", "RANK(rec, group_by='g', order_by=%r, order='desc')" % order)):
    cols.append({"id": name, "type": "Any", "isFormula": True, "formula": f})
  pcols = [{"id": "probe", "type": "Any", "isFormula": False, "formula": ""}]
  for op in OPS:
    pcols.append({"id": op, "type": "Any", "isFormula": True, "formula":
                  "T.lookupRecords(g='x', order_by=%r).find.%s($probe).id" % (order, op)})
  eng.apply(e, [["AddTable", "T", cols], ["AddTable", "P", pcols]])
  n = len(a["keys"])
  eng.apply(e, [["BulkAddRecord", "T", [None] * (n + 1), {"g": ["x"] * n + ["other"], "k": a["keys"] + [a["keys"][0]]}],
                ["BulkAddRecord", "P", [None] * len(a["probes"]), {"probe": a["probes"]}]])
  t = e.fetch_table("T"); p = e.fetch_table("P")
  return dict(T={c: list(v) for c, v in t.columns.items()}, T_ids=list(t.row_ids),
              P={c: list(v) for c, v in p.columns.items()})


def _ordered(a, r):
  sign = -1 if a["order"].startswith("-") else 1
  rows = [(rid, ms, k) for rid, ms, k, g in zip(r["T_ids"], r["T"]["manualSort"], r["T"]["k"], r["T"]["g"])
          if g == "x"]
  def cmp_rows(x, y):
    c = sign * _cmp_values(x[2], y[2])
    if c: return c
    return -1 if (x[1], x[0]) < (y[1], y[0]) else 1
  return sorted(rows, key=functools.cmp_to_key(cmp_rows)), sign


def e_find(a, r):
  ordered, sign = _ordered(a, r)
  for i, v in enumerate(r["P"]["probe"]):
    before = [x[0] for x in ordered if sign * _cmp_values(x[2], v) < 0]
    equal = [x[0] for x in ordered if _cmp_values(x[2], v) == 0]
    after = [x[0] for x in ordered if sign * _cmp_values(x[2], v) > 0]
    want = {"lt": before[-1] if before else 0, "le": (before + equal)[-1] if before or equal else 0,
            "gt": after[0] if after else 0, "ge": (equal + after)[0] if equal or after else 0,
            "eq": equal[0] if equal else 0}
    for op in OPS:
      got = r["P"][op][i]
      if got != want[op]:
        return "find.%s(%r) over %s keys %r order %r gave row %r, linear scan gives %r" % (
          op, v, a["type"], [x[2] for x in ordered], a["order"], got, want[op])
  return True


def e_prevnext(a, r):
  ordered, _ = _ordered(a, r)
  ids = [x[0] for x in ordered]
  for pos, rid in enumerate(ids):
    i = r["T_ids"].index(rid)
    want = dict(prev=ids[pos - 1] if pos > 0 else 0, next=ids[pos + 1] if pos + 1 < len(ids) else 0,
                rank=pos + 1, rankd=len(ids) - pos)
    for c, w in want.items():
      if r["T"][c][i] != w:
        return "%s of row %d in ordered group %r gave %r, expected %r" % (c, rid, ids, r["T"][c][i], w)
  return True


def main():
  common.setup_grist_path()
  rep = common.Report("C14", "proof")
  rep.assumptions += [
    "the record set is sorted strictly by its sort key (what sorted(ids, key=SortKey) yields); row "
    "ids are positive ints below 10**300 (so the +-float-max probes bound them)",
    "SortKey obeys its contract - values kept as given / the row's own cell values, compared by "
    "the signed lexicographic order with the row id as last resort; that contract is itself "
    "PROVED here from the real source of sort_key.SortKey.__init__/__lt__ for sort specs of up to "
    "3 columns (contracts/C13_sort.py); the element-wise `<` being a strict weak order is the "
    "statement's hypothesis of mutually comparable sort values",
    "bisect_left/bisect_right return the partition point of a sorted list (assumed contract; its "
    "sortedness precondition is itself an obligation: *.pre.bisect_sorted)",
    "table.Record(row_id, relation) builds a record with that row id (assumed)",
    "prevnext.PREVIOUS/NEXT/RANK and lookup_records are covered by the bounded twin only",
    "int is mathematical (exact for Python int)",
    common.SHIM_ASSUMPTION + " (bounded twin only)",
  ]
  rep.coverage["rule"] = ("proof: one obligation per (method, clause, path). bounded twin: real "
                          "formulas (lookupRecords(order_by).find.*, PREVIOUS/NEXT/RANK) on a real "
                          "engine for every multiset of 3 (quick) / 4 (thorough) keys from a pool "
                          "per column type (Int, Numeric, Text, Any), ascending and descending, "
                          "and every probe of the pool (incl. probes of another type); "
                          "non-trivial = distinct (type, keys, order)")
  runner.run_property(rep, "contracts.C14_records", bounded=False)
  runner.run_property(rep, "contracts.C13_sort", bounded=False, only=["C13.sortkey_"])
  from vlib.rtc import fn
  c = fn.FnContract("lookupRecords(order_by=..).find.* / PREVIOUS / NEXT / RANK (via real formulas)",
                    _call, ensures={"C14.find_agrees_with_linear_scan-bounded": e_find,
                                    "C14.prev_next_rank_by_position-bounded": e_prevnext})
  fn.check(rep, c, _cases, exhaustive=(common.tier() != 'quick'), warm_engine=True)
  return rep.finish()

if __name__ == "__main__":
  sys.exit(main())
