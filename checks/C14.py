"""C14 Sorted searches and PREVIOUS/NEXT/RANK agree with a linear scan — deductive (tier P)."""
import os, sys
sys.path.insert(0, os.path.dirname(os.path.dirname(os.path.abspath(__file__))))
from vlib import common
from vlib.pysym import runner

def main():
  common.setup_grist_path()
  rep = common.Report("C14", "proof")
  rep.assumptions += [
    "the record set is sorted strictly by its sort key (what sorted(ids, key=SortKey) yields); row "
    "ids are positive ints below 10**300 (so the +-float-max probes bound them)",
    "SortKey.__lt__ obeys its contract (values compared by a strict weak order vlt, ties broken "
    "by row id) - the statement's hypothesis of mutually comparable sort values; that contract is "
    "the C13 lemma and is ASSUMED here",
    "bisect_left/bisect_right return the partition point of a sorted list (assumed contract; its "
    "sortedness precondition is itself an obligation: *.pre.bisect_sorted)",
    "table.Record(row_id, relation) builds a record with that row id (assumed)",
    "prevnext.PREVIOUS/NEXT/RANK are one-line wrappers (lookup_records + _find.previous/next/rank);"
    " the lookup they call is C13's subject and not re-verified here",
    "int is mathematical (exact for Python int)",
  ]
  rep.coverage["rule"] = "one obligation per (method, clause, path)"
  runner.run_property(rep, "contracts.C14_records", bounded=False)
  # the proof level needs no exploration keys; state explicitly that none were run here
  return rep.finish()

if __name__ == "__main__":
  sys.exit(main())
