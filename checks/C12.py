"""C12 Summary tables are exact group-bys of their source.

Tier B: invariant (post-condition of the REAL Engine.apply_user_actions on every successful bundle
of every explored history), for every summary table S of every source table T:
   C12.one_row_per_key      the keys of S's rows are exactly the distinct group-by keys present in T
   C12.no_duplicate_keys    no two rows of S share a key
   C12.group_exact_sorted   each row's `group` lists exactly the rows of T with that key, ascending
   C12.empty_groups_gone    no row of S has an empty group
The expected groups are a naive group-by over the fetch_table snapshot of T, with the statement's
rules for list-valued cells: a ChoiceList / RefList group-by cell contributes one key per distinct
element, an empty list counts as '' / 0, a non-list value contributes no key."""
import itertools, json, os, sys
sys.path.insert(0, os.path.dirname(os.path.dirname(os.path.abspath(__file__))))
from vlib import common
from vlib.rtc import eng, explore, gen

import objtypes      # real module

_col = gen._col


class Unspecified(Exception):
  pass


def _hashable(v):
  if isinstance(v, list): v = tuple(_hashable(x) for x in v)
  if isinstance(v, objtypes.RaisedException): raise Unspecified("group-by cell holds an error")
  if isinstance(v, float) and v != v: raise Unspecified("NaN group-by value")
  try:
    hash(v)
  except TypeError:
    raise Unspecified("unhashable group-by value")
  return v


def summaries(e):
  """[(summary table id, source table id, [(summary col id, source col id, source type)])]"""
  tables = {r["id"]: r for r in eng.meta_records(e, "_grist_Tables")}
  cols = eng.meta_records(e, "_grist_Tables_column")
  by_id = {c["id"]: c for c in cols}
  out = []
  for t in tables.values():
    if not t["summarySourceTable"]: continue
    src = tables.get(t["summarySourceTable"])
    if src is None:
      out.append((t["tableId"], None, [])); continue
    gb = []
    for c in cols:
      if c["parentId"] == t["id"] and c["summarySourceCol"]:
        sc = by_id.get(c["summarySourceCol"])
        gb.append((c["colId"], sc["colId"] if sc else None, sc["type"] if sc else None))
    out.append((t["tableId"], src["tableId"], sorted(gb)))
  return out


def naive_group_by(src_td, gb):
  """{key tuple: [row ids ascending]} from the statement."""
  groups = {}
  for i, r in enumerate(src_td.row_ids):
    keysets = []
    for (_sc, c, typ) in gb:
      v = src_td.columns[c][i]
      base = (typ or "").split(":")[0]
      if isinstance(v, objtypes.RaisedException):
        raise Unspecified("group-by cell holds an error")
      if base not in ("ChoiceList", "RefList") and isinstance(v, (list, tuple, dict)):
        raise Unspecified("list value in a group-by column that is not of a list type")
      if base in ("ChoiceList", "RefList"):
        if v is None or (isinstance(v, (list, tuple)) and len(v) == 0):
          ks = ["" if base == "ChoiceList" else 0]
        elif isinstance(v, (list, tuple)):
          ks = []
          for x in v:
            x = _hashable(x)
            if x not in ks: ks.append(x)
        else:
          ks = []                      # a non-list value contributes no key
      else:
        if base == "Date" and isinstance(v, (int, float)) and not isinstance(v, bool) and v % 86400 != 0:
          # a Date cell is a day: two timestamps within one day are one key for the engine; the
          # statement does not say which cell value names the key
          raise Unspecified("Date group-by cell that is not a whole day")
        ks = [_hashable(v)]
      keysets.append(ks)
    for key in itertools.product(*keysets):
      groups.setdefault(key, []).append(r)
  return groups


def check_summary(e, s_id, t_id, gb):
  """-> list of (clause, detail)"""
  out = []
  if t_id is None or t_id not in e.tables or s_id not in e.tables:
    return [("C12.one_row_per_key", {"summary": s_id, "why": "source or summary table missing"})]
  if any(c is None for (_s, c, _t) in gb):
    return [("C12.one_row_per_key", {"summary": s_id, "why": "group-by source column missing"})]
  src = e.fetch_table(t_id, formulas=True)
  summ = e.fetch_table(s_id, formulas=True)
  for (_s, c, _t) in gb:
    if c not in src.columns:
      return [("C12.one_row_per_key", {"summary": s_id, "why": "source column %s not fetched" % c})]
  expected = naive_group_by(src, gb)
  if "group" not in summ.columns:
    return [("C12.group_exact_sorted", {"summary": s_id, "why": "no group column"})]
  seen = {}
  info = {"summary": s_id, "source": t_id, "group_by": [(c, t) for (_s, c, t) in gb]}
  for i, r in enumerate(summ.row_ids):
    key = tuple(_hashable(summ.columns[sc][i]) for (sc, _c, _t) in gb)
    grp = summ.columns["group"][i]
    if isinstance(grp, objtypes.RaisedException):
      out.append(("C12.group_exact_sorted", dict(info, row=r, key=list(key), why="group is an error")))
      continue
    grp = list(grp) if grp else []
    if key in seen:
      out.append(("C12.no_duplicate_keys", dict(info, rows=[seen[key], r], key=list(key))))
      continue
    seen[key] = r
    if not grp:
      out.append(("C12.empty_groups_gone", dict(info, row=r, key=list(key),
                                                expected_group=expected.get(key))))
    elif key not in expected:
      out.append(("C12.one_row_per_key", dict(info, row=r, key=list(key), group=grp,
                                              why="summary row for a key absent from the source")))
    elif grp != expected[key]:
      out.append(("C12.group_exact_sorted", dict(info, row=r, key=list(key), group=grp,
                                                 expected_group=expected[key])))
  for key in expected:
    if key not in seen:
      out.append(("C12.one_row_per_key", dict(info, key=list(key), expected_group=expected[key],
                                              why="no summary row for a key present in the source")))
  return out


def touches_summary_table(e, bundle):
  """Does a user action address a summary table (or its metadata records) directly?  Such actions
  (changing the `group` formula, ReplaceTableData on the summary table, ...) are outside the bound:
  the statement is about edits of the SOURCE and of the group-by sets."""
  tabs = {r["id"]: r for r in eng.meta_records(e, "_grist_Tables")}
  s_ids = {r["tableId"] for r in tabs.values() if r["summarySourceTable"]}
  s_refs = {r["id"] for r in tabs.values() if r["summarySourceTable"]}
  s_cols = {c["id"] for c in eng.meta_records(e, "_grist_Tables_column") if c["parentId"] in s_refs}
  for a in bundle:
    if len(a) < 2: continue
    if a[1] in s_ids: return True
    if a[0] == "CreateViewSection" and a[1] in s_refs: return True     # summary of a summary
    rows = a[2] if len(a) > 2 and isinstance(a[2], list) else ([a[2]] if len(a) > 2 else [])
    if a[1] == "_grist_Tables_column" and any(r in s_cols for r in rows): return True
    if a[1] == "_grist_Tables" and any(r in s_refs for r in rows): return True
  return False


# ghost state: rows dropped by DocActions.ReplaceTableData (only used to NAME a failure)
GHOST = {}
import docactions as _docactions
_real_replace = _docactions.DocActions.ReplaceTableData

def _observed_replace(self, table_id, row_ids, column_values):
  old = set(self._engine.tables[table_id].row_ids) if table_id in self._engine.tables else set()
  r = _real_replace(self, table_id, row_ids, column_values)
  now = set(self._engine.tables[table_id].row_ids)
  cur = GHOST.setdefault(table_id, set())
  cur |= (old - now)
  cur -= now
  return r

_docactions.DocActions.ReplaceTableData = _observed_replace


# ------------------------------------------------------------------------------------------------
# histories
# ------------------------------------------------------------------------------------------------

gen.SEEDS["c12_lists"] = [
  [["AddTable", "P", [_col("name", "Text")]],
   ["AddTable", "A", [_col("cat", "Text"), _col("n", "Int"), _col("tags", "ChoiceList"),
                      _col("ps", "RefList:P"), _col("p", "Ref:P"), _col("ch", "Choice"),
                      _col("als", "ChoiceList")]]],
  [["BulkAddRecord", "P", [None] * 3, {"name": ["x", "y", "z"]}],
   ["BulkAddRecord", "A", [None] * 6,
    {"cat": ["x", "y", "x", "", "y", "x"], "n": [1, 2, 1, 4, 2, 0],
     "tags": [["L", "a"], ["L", "a", "b"], None, ["L"], ["L", "b", "b"], "a"],
     "ps": [["L", 1, 2], None, ["L", 3], ["L", 2, 2], ["L"], ["L", 1]],
     "p": [1, 2, 0, 1, 3, 1], "ch": ["u", "v", "u", "", "u", "v"],
     "als": [["L", "k"], None, ["L"], ["L", "k", "m"], None, ["L", "m"]]}]],
  # column refs: P.manualSort 1, P.name 2, A.manualSort 3, cat 4, n 5, tags 6, ps 7, p 8, ch 9,
  # als 10 (a ChoiceList whose id sorts BEFORE the RefList column's: both orders of the two kinds
  # of list column occur among the group-by tuples)
  [["CreateViewSection", 2, 0, "record", [6], None]],              # by tags
  [["CreateViewSection", 2, 0, "record", [7], None]],              # by ps (RefList)
  [["CreateViewSection", 2, 0, "record", [4, 6], None]],           # by cat, tags
  [["CreateViewSection", 2, 0, "record", [8, 5], None]],           # by p, n
  [["CreateViewSection", 2, 0, "record", [6, 7], None]],           # by tags, ps
  [["CreateViewSection", 2, 0, "record", [10, 7], None]],          # by als, ps
]

A_VALUES = {
  "cat": ["x", "y", "", "z", None, 1],
  "n": [0, 1, 2, 4, None, "x", 1.0, True],
  "tags": [None, ["L"], ["L", "a"], ["L", "a", "b"], ["L", "b", "b", "c"], ["L", ""], "a"],
  "ps": [None, ["L"], ["L", 1], ["L", 2, 1], ["L", 3, 3], ["L", 1, 2, 3]],
  "p": [0, 1, 2, 3, "q"],
  "ch": ["u", "v", "", "w"],
  "als": [None, ["L"], ["L", "k"], ["L", "k", "m"], ["L", "m", "m"], "k"],
}


class C12Monitor(explore.Monitor):
  seeds = ("c12_lists", "summary")
  length = 8
  weights = {"update": 16, "bulk_update": 8, "remove": 8, "bulk_remove": 4, "add": 10,
             "bulk_add": 6, "modify_type": 6, "rename_col": 4, "rename_table": 2, "summary": 4,
             "remove_col": 3, "to_formula": 2, "to_data": 2, "replace_data": 1, "view": 2,
             "remove_table": 1, "add_table": 1, "label": 1, "modify_formula": 2}

  def start(self, e, seed_name):
    GHOST.clear()
    return {"seed": seed_name, "checked": 0}

  def gen_bundle(self, st, e, g):
    st["exploring"] = True
    for _ in range(20):
      b = self._gen_bundle(st, e, g)
      if not touches_summary_table(e, b): return b
    return [["Calculate"]]

  def _gen_bundle(self, st, e, g):
    rng = g.rng
    x = rng.random()
    if st["seed"] == "c12_lists" and "A" in e.tables and x < 0.5:
      tbl = e.tables["A"]
      rows = list(tbl.row_ids)
      cids = [c for c in A_VALUES if tbl.has_column(c)]
      y = rng.random()
      if rows and cids and y < 0.55:
        r = rng.choice(rows)
        cs = rng.sample(cids, rng.randint(1, min(2, len(cids))))
        return [["UpdateRecord", "A", r, {c: rng.choice(A_VALUES[c]) for c in cs}]]
      if rows and cids and y < 0.7:
        rs = rng.sample(rows, rng.randint(1, min(3, len(rows))))
        c = rng.choice(cids)
        return [["BulkUpdateRecord", "A", rs, {c: [rng.choice(A_VALUES[c]) for _ in rs]}]]
      if cids and y < 0.85:
        return [["AddRecord", "A", None, {c: rng.choice(A_VALUES[c]) for c in cids if rng.random() < 0.7}]]
      if rows: return [["RemoveRecord", "A", rng.choice(rows)]]
    if x < 0.6:
      # change the group-by columns of a summary section
      secs = [s for s in eng.meta_records(e, "_grist_Views_section")]
      tabs = {t["id"]: t for t in eng.meta_records(e, "_grist_Tables")}
      ssecs = [s for s in secs if tabs.get(s["tableRef"], {}).get("summarySourceTable")]
      if ssecs:
        s = rng.choice(ssecs)
        src = tabs[s["tableRef"]]["summarySourceTable"]
        cols = [c["id"] for c in eng.meta_records(e, "_grist_Tables_column")
                if c["parentId"] == src and c["colId"] != "manualSort"
                and not c["colId"].startswith("gristHelper")]
        if cols:
          return [["UpdateSummaryViewSection", s["id"],
                   sorted(rng.sample(cols, rng.randint(0, min(2, len(cols)))))]]
    return g.bundle(e)

  def after(self, st, e, bundle, group, exc):
    if exc is not None or st.get("tainted"):
      return []
    fails = []
    s_tables = {x[0] for x in summaries(e)}
    for (s_id, t_id, gb) in summaries(e):
      if any(t and t.startswith(("Ref:", "RefList:")) and t.split(":", 1)[1] not in e.tables
             for (_s, _c, t) in gb):
        ST["unspecified"] += 1        # group-by column referring to a table that does not exist
        continue
      if t_id in s_tables:
        ST["unspecified"] += 1        # a summary of a summary table: outside the bound
        continue
      try:
        f = check_summary(e, s_id, t_id, gb)
        ST["checked"] += 1
      except Unspecified:
        ST["unspecified"] += 1
        continue
      for clause, d in f:
        g_ = d.get("group") or []
        src_rows = set(e.tables[t_id].row_ids) if t_id in e.tables else set()
        ghosts = [r for r in g_ if r not in src_rows]
        if ghosts and all(r in GHOST.get(t_id, ()) for r in ghosts):
          d["root"] = "group-holds-rows-dropped-by-ReplaceTableData-of-the-source"
      fails.extend(f)
    if not fails: return []
    _flush()
    out = []
    for clause, d in fails:
      k = (clause, self.classify(clause, d, bundle, None))
      if st.get("exploring") and k in _known_classes() and k in _REPORTED:
        st["tainted"] = True       # the stale state persists: nothing new can be learnt
        continue
      _REPORTED.add(k)
      out.append((clause, d))
      break
    return out

  def finish(self, st, e):
    _flush()
    return []

  def classify(self, clause, detail, bundle, history):
    if detail.get("root"): return detail["root"]
    if any(c == "group" for (c, _t) in detail.get("group_by", [])):
      # a SOURCE column whose id is `group` - the id every summary table reserves for its helper
      return "group-by-column-named-group"
    kinds = sorted({(t or "?").split(":")[0] for (_c, t) in detail.get("group_by", [])})
    acts = sorted({a[0] for a in bundle}) if bundle else []
    return "%s:[%s] after %s" % (clause.split(".", 1)[1], ",".join(kinds), "+".join(acts))


ST = {"checked": 0, "unspecified": 0}
_REPORTED = set()
_KNOWN = []

def _known_classes():
  if not _KNOWN:
    _KNOWN.append({(f["match"].get("obligation"), f["match"].get("class"))
                   for f in common.load_known_findings("C12")})
  return _KNOWN[0]


def _flush():
  d = os.environ.get("C12_COUNT_DIR")
  if not d: return
  with open(os.path.join(d, "%d.json" % os.getpid()), "w") as f:
    json.dump(ST, f)


def main():
  import shutil, tempfile
  rep = common.Report("C12", "exploration")
  rep.assumptions += [
    common.SHIM_ASSUMPTION,
    "bounded: seeded random histories over the seed documents c12_lists (source table with Text, "
    "Int, Choice, ChoiceList, Ref and RefList columns; summary tables by [tags], [ps], [cat,tags], "
    "[p,n], [tags,ps]) and summary (vlib/rtc/gen.py); actions: cell edits from an adversarial pool "
    "(duplicates in lists, empty lists, alt-text in list columns, 1 / 1.0 / True), adds, removals, "
    "type changes, renames, column removals, new summary tables, UpdateSummaryViewSection; not a proof",
    "keys are compared with Python equality (1 == 1.0 == True is one key), as in a group-by over "
    "cell values; summary tables whose source holds an error, NaN or an unhashable value in a "
    "group-by cell are outside the statement and skipped (counted in coverage.unspecified)"]
  rep.coverage["rule"] = (
    "one evaluation = one (summary table, successful bundle) pair checked against the naive "
    "group-by; history-level numbers are bundles; non-trivial = the bundle changed the document")
  d = tempfile.mkdtemp(prefix="c12-count-")
  os.environ["C12_COUNT_DIR"] = d
  tot = {"checked": 0, "unspecified": 0}
  try:
    explore.explore(rep, "checks.C12", "C12Monitor", n_quick=800, n_thorough=10000,
                    budget_quick_s=50, budget_thorough_s=800)
    for f in os.listdir(d):
      with open(os.path.join(d, f)) as fh:
        for k, v in json.load(fh).items(): tot[k] += v
  finally:
    shutil.rmtree(d, ignore_errors=True)
  cov = rep.coverage
  cov["history_bundles"] = cov.get("evaluations", 0)
  cov["evaluations"] = tot["checked"]
  cov["unspecified"] = tot["unspecified"]
  cov["exhaustive"] = False
  if tot["checked"] == 0:
    rep.undecided_obligation("C12.one_row_per_key", "no summary table was ever checked")
  return rep.finish()


if __name__ == "__main__":
  sys.exit(main())
