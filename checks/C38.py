"""C38 Node and the engine agree on metadata schema and type defaults — level `other`.

The quantifier is over configurations and there is exactly one: the working tree under
common.REPO.  The check is therefore a complete evaluation of two contracts on that single point:

  C38.schema_ts_is_generator_output   the REAL sandbox/gen_js_schema.py main() (stdout captured,
                                      importing the real sandbox/grist/schema.py) prints exactly the
                                      text of app/common/schema.ts
  C38.schema_ts_matches_python_schema independently of the generator: SCHEMA_VERSION, the tables,
                                      their columns (in order) and the column types parsed from
                                      schema.ts equal schema.schema_create_actions(); the
                                      SchemaTypes interface lists the same tables and columns
  C38.type_defaults_agree             the keys of `_defaultValues` in app/common/gristTypes.ts and of
                                      usertypes._type_defaults are the same set, and each default is
                                      the same value as Node sees it (null<->None, false<->False,
                                      JS number <-> int/float by value, Number.POSITIVE_INFINITY<->inf)

All files are read from common.REPO on every run."""
import contextlib
import difflib
import importlib.util
import io
import math
import os
import re
import sys

sys.path.insert(0, os.path.dirname(os.path.dirname(os.path.abspath(__file__))))
from vlib import common

common.setup_grist_path()

SCHEMA_TS = os.path.join(common.REPO, "app", "common", "schema.ts")
TYPES_TS = os.path.join(common.REPO, "app", "common", "gristTypes.ts")
GEN_PY = os.path.join(common.REPO, "sandbox", "gen_js_schema.py")


def read(path):
  with open(path, encoding="utf8") as f:
    return f.read()


def run_generator():
  """Executes the real generator's main() with stdout captured."""
  spec = importlib.util.spec_from_file_location("gen_js_schema_under_check", GEN_PY)
  mod = importlib.util.module_from_spec(spec)
  spec.loader.exec_module(mod)             # does `import schema` -> the real sandbox/grist/schema.py
  buf = io.StringIO()
  with contextlib.redirect_stdout(buf):
    mod.main()
  return buf.getvalue()


# -- parsing schema.ts (independent of the generator) -------------------------------------------------

def parse_schema_ts(text):
  """-> (version, [(table, [(col, type)])] from `export const schema`, [(table, [(col, tstype)])]
  from `export interface SchemaTypes`)."""
  m = re.search(r"export const SCHEMA_VERSION\s*=\s*(\d+)\s*;", text)
  version = int(m.group(1)) if m else None
  def block(start_re):
    m = re.search(start_re, text)
    if not m: return None
    i = m.end()
    depth, j = 1, i
    while j < len(text) and depth:
      if text[j] == "{": depth += 1
      elif text[j] == "}": depth -= 1
      j += 1
    return text[i:j - 1]
  def tables(body, value_re):
    out = []
    if body is None: return None
    for tm in re.finditer(r'"([^"]+)"\s*:\s*\{(.*?)\n\s*\}[,;]', body, re.S):
      cols = []
      for line in tm.group(2).splitlines():
        line = line.strip()
        if not line or line.startswith("//"): continue
        cm = re.match(value_re, line)
        if cm is None:
          cols.append((line, None))
        else:
          cols.append((cm.group(1), cm.group(2)))
      out.append((tm.group(1), cols))
    return out
  consts = tables(block(r"export const schema\s*=\s*\{"), r'^([A-Za-z_][A-Za-z0-9_]*)\s*:\s*"([^"]*)",$')
  iface = tables(block(r"export interface SchemaTypes\s*\{"), r"^([A-Za-z_][A-Za-z0-9_]*)\s*:\s*(.*);$")
  return version, consts, iface


# -- parsing _defaultValues in gristTypes.ts -----------------------------------------------------------

class Unparsed(Exception):
  pass


def parse_js_literal(tok):
  tok = tok.strip()
  if tok == "null": return None
  if tok == "true": return True
  if tok == "false": return False
  if tok in ("Number.POSITIVE_INFINITY", "Infinity"): return float("inf")
  if tok in ("Number.NEGATIVE_INFINITY", "-Infinity"): return float("-inf")
  if re.match(r'^"(?:[^"\\]|\\.)*"$', tok) or re.match(r"^'(?:[^'\\]|\\.)*'$", tok):
    body = tok[1:-1]
    if "\\" in body: raise Unparsed("escape in string literal %r" % tok)
    return body
  if re.match(r"^-?\d+$", tok): return int(tok)
  if re.match(r"^-?(\d+\.\d*|\.\d+|\d+)([eE][-+]?\d+)?$", tok): return float(tok)
  raise Unparsed("cannot read JS literal %r" % tok)


def parse_default_values(text):
  m = re.search(r"const _defaultValues\s*:[^=]*=\s*\{(.*?)\n\};", text, re.S)
  if not m:
    raise Unparsed("`const _defaultValues ... = { ... };` not found in gristTypes.ts")
  out = {}
  for line in m.group(1).splitlines():
    line = line.strip()
    if not line or line.startswith("//"): continue
    lm = re.match(r"^([A-Za-z_][A-Za-z0-9_]*)\s*:\s*\[\s*(.+?)\s*,\s*(\"[^\"]*\"|'[^']*')\s*\]\s*,?\s*(//.*)?$", line)
    if not lm:
      raise Unparsed("cannot read _defaultValues entry %r" % line)
    if lm.group(1) in out:
      raise Unparsed("duplicate key %s" % lm.group(1))
    out[lm.group(1)] = (parse_js_literal(lm.group(2)), lm.group(3)[1:-1])
  return out


def same_for_node(py, js):
  """Equality of a Python default and a parsed JS default as Node sees the value."""
  if py is None or js is None: return py is None and js is None
  if isinstance(py, bool) or isinstance(js, bool): return isinstance(py, bool) and isinstance(js, bool) and py == js
  if isinstance(py, (int, float)) or isinstance(js, (int, float)):
    return isinstance(py, (int, float)) and isinstance(js, (int, float)) and \
        (py == js or (math.isnan(py) and math.isnan(js)))
  if isinstance(py, str): return isinstance(js, str) and py == js
  return False


def main():
  rep = common.Report("C38", "other")
  rep.assumptions += [
    "the configuration is the working tree under VERIF_REPO (default /repo); files are read on every run",
    "`_defaultValues` is read with a line parser for entries `Name: [literal, \"sql\"],` (null, "
    "true/false, numbers, quoted strings without escapes, Number.POSITIVE_INFINITY); any other "
    "layout is reported as undecided, never as a pass",
    "equality of defaults is equality of the value as Node sees it: Python 0 and 0.0 are both the JS "
    "number 0; False is not 0",
    "only the first element (the value) of each _defaultValues entry is in the statement; the SQL "
    "text is recorded in the evidence but not judged",
  ]
  cov = rep.coverage
  checks = 0          # comparisons actually made
  nontrivial = set()
  samples = []

  # ---- 1. generator output == schema.ts -----------------------------------------------------------
  try:
    import schema as py_schema
    ts_text = read(SCHEMA_TS)
    gen_text = run_generator()
  except Exception as e:
    rep.crash("cannot run the generator / read schema.ts: %r" % (e,))
    return rep.finish()
  checks += 1
  nontrivial.add("generator-text")
  if gen_text != ts_text:
    diff = list(difflib.unified_diff(ts_text.splitlines(), gen_text.splitlines(),
                                     "app/common/schema.ts", "gen_js_schema.main() output", lineterm="", n=1))
    rep.violation("C38.schema_ts_is_generator_output",
                  {"obligation": "C38.schema_ts_is_generator_output", "class": "schema.ts-differs-from-generator-output",
                   "files": [SCHEMA_TS, GEN_PY, os.path.join(common.GRIST, "schema.py")],
                   "diff_head": diff[:40], "differing_lines": sum(1 for l in diff if l[:1] in "+-") - 2})
  samples.append({"obligation": "C38.schema_ts_is_generator_output",
                  "generator_output_chars": len(gen_text), "schema_ts_chars": len(ts_text),
                  "sha256_generator_output": common.sha256_text(gen_text),
                  "sha256_schema_ts": common.sha256_text(ts_text)})

  # ---- 2. structure of schema.ts == Python schema (not through the generator) ----------------------
  version, consts, iface = parse_schema_ts(ts_text)
  py_tables = [(t.table_id, [(c["id"], c["type"]) for c in t.columns])
               for t in py_schema.schema_create_actions()]
  struct_fail = []
  checks += 1
  if version != py_schema.SCHEMA_VERSION:
    struct_fail.append("SCHEMA_VERSION: schema.ts %r, schema.py %r" % (version, py_schema.SCHEMA_VERSION))
  if consts is None or iface is None:
    rep.undecided_obligation("C38.schema_ts_matches_python_schema",
                             "cannot find `export const schema` / `export interface SchemaTypes` in schema.ts")
  else:
    checks += 2
    if [t for t, _ in consts] != [t for t, _ in py_tables]:
      struct_fail.append("tables: schema.ts %r vs schema.py %r" % ([t for t, _ in consts], [t for t, _ in py_tables]))
    if [t for t, _ in iface] != [t for t, _ in py_tables]:
      struct_fail.append("SchemaTypes tables %r vs schema.py %r" % ([t for t, _ in iface], [t for t, _ in py_tables]))
    ts_map, if_map = dict(consts), dict(iface)
    for t, cols in py_tables:
      for side, m in (("schema", ts_map), ("SchemaTypes", if_map)):
        got = m.get(t)
        if got is None: continue
        checks += 1
        if [c for c, _ in got] != [c for c, _ in cols]:
          struct_fail.append("%s[%s] columns %r vs schema.py %r" % (side, t, [c for c, _ in got], [c for c, _ in cols]))
      for (c, typ) in cols:
        checks += 1
        nontrivial.add(("col", t, c))
        got = dict(ts_map.get(t) or []).get(c, "<missing>")
        if got != typ and got != "<missing>":
          struct_fail.append("%s.%s: schema.ts type %r, schema.py type %r" % (t, c, got, typ))
    samples.append({"obligation": "C38.schema_ts_matches_python_schema", "SCHEMA_VERSION": version,
                    "tables": len(py_tables), "columns": sum(len(c) for _, c in py_tables),
                    "first_table": py_tables[0] if py_tables else None})
  if struct_fail:
    rep.violation("C38.schema_ts_matches_python_schema",
                  {"obligation": "C38.schema_ts_matches_python_schema", "class": "schema.ts-structure-differs",
                   "differences": struct_fail[:30], "files": [SCHEMA_TS, os.path.join(common.GRIST, "schema.py")]})

  # ---- 3. type defaults -----------------------------------------------------------------------------
  import usertypes
  py_defaults = dict(usertypes._type_defaults)
  try:
    js_defaults = parse_default_values(read(TYPES_TS))
  except Unparsed as e:
    js_defaults = None
    rep.undecided_obligation("C38.type_defaults_agree", str(e))
  except Exception as e:
    js_defaults = None
    rep.crash("cannot read gristTypes.ts: %r" % (e,))
  if js_defaults is not None:
    dfail = []
    checks += 1
    only_py = sorted(set(py_defaults) - set(js_defaults))
    only_js = sorted(set(js_defaults) - set(py_defaults))
    if only_py: dfail.append("types only in usertypes._type_defaults: %r" % only_py)
    if only_js: dfail.append("types only in gristTypes.ts _defaultValues: %r" % only_js)
    for t in sorted(set(py_defaults) & set(js_defaults)):
      checks += 1
      nontrivial.add(("default", t))
      if not same_for_node(py_defaults[t], js_defaults[t][0]):
        dfail.append("%s: Python default %r, gristTypes.ts default %r" % (t, py_defaults[t], js_defaults[t][0]))
      # the public accessor must return the table's value too
      checks += 1
      if not same_for_node(usertypes.get_type_default(t), js_defaults[t][0]):
        dfail.append("%s: usertypes.get_type_default -> %r, gristTypes.ts default %r"
                     % (t, usertypes.get_type_default(t), js_defaults[t][0]))
    samples.append({"obligation": "C38.type_defaults_agree",
                    "defaults": {t: {"python": repr(py_defaults.get(t)), "ts": repr(js_defaults.get(t, ("<missing>",))[0]),
                                     "ts_sql": js_defaults.get(t, (None, None))[1]}
                                 for t in sorted(set(py_defaults) | set(js_defaults))}})
    if dfail:
      rep.violation("C38.type_defaults_agree",
                    {"obligation": "C38.type_defaults_agree", "class": "type-default-differs",
                     "differences": dfail, "files": [TYPES_TS, os.path.join(common.GRIST, "usertypes.py")]})

  cov["explanation"] = (
    "The property quantifies over configurations and the configuration space is a single point, the "
    "working tree: the real generator sandbox/gen_js_schema.py was executed against the real "
    "sandbox/grist/schema.py and its complete output compared character by character with "
    "app/common/schema.ts; schema.ts was also parsed independently of the generator and its version, "
    "tables, column order and column types compared with schema.schema_create_actions(); every key of "
    "_defaultValues in app/common/gristTypes.ts was compared with usertypes._type_defaults (key sets "
    "both ways, values as Node sees them). Nothing is sampled, so the evaluation is exhaustive for this "
    "tree; it says nothing about other trees except that any edit to one side alone turns it red "
    "(mutation self-test).")
  cov["exhaustive"] = True
  cov["evaluations"] = checks
  cov["distinct_nontrivial"] = len(nontrivial)
  cov["rule"] = ("evaluations = comparisons made (whole-text comparison, version, table lists, per-table "
                 "column lists, per-column types, key sets, per-type defaults); distinct non-trivial = "
                 "distinct columns + distinct types + the whole-text comparison")
  cov["samples"] = samples
  cov["configuration"] = {"repo": common.REPO, "files": [GEN_PY, os.path.join(common.GRIST, "schema.py"),
                                                         SCHEMA_TS, os.path.join(common.GRIST, "usertypes.py"), TYPES_TS]}
  return rep.finish()


if __name__ == "__main__":
  sys.exit(main())
