"""C01 Undo restores the exact prior document — bounded run-time contract on
Engine.apply_user_actions (2-state postcondition), plus C01.history_unwinds."""
import os, sys
sys.path.insert(0, os.path.dirname(os.path.dirname(os.path.abspath(__file__))))
from vlib import common
from vlib.rtc import eng, explore, gen, triage

ALL_SEEDS = ("basic", "refs", "lookup", "summary", "twoway", "twoway_list", "trigger", "prevnext",
             "choices", "trigger_deps")


class UndoMonitor(explore.Monitor):
  """ensures (normal return, result g):
       C01.undo_restores : apply([ApplyUndoActions(g.undo)]) gives snapshot == old(snapshot)
       C03.redo_reproduces: then apply([ApplyDocActions(g.stored)]) gives the post-bundle snapshot
     at the end of the history:
       C01.history_unwinds: undoing every bundle in reverse order gives the initial snapshot."""
  seeds = ALL_SEEDS
  length = 8
  check_redo = False

  def start(self, e, seed_name):
    return {"initial": eng.snapshot(e), "stack": [], "seed": seed_name, "hist": []}

  def pre_state_stale(self, st, now):
    """Root-cause triage of a failed undo: were the cells that differ already stale BEFORE the
    bundle (a from-scratch recalculation of the pre-state's own data gives other values there - the
    subject of C05 and of its recorded findings)?  The pre-state engine is rebuilt by replaying the
    history so far; the answer is only used when that replay reproduces old() exactly."""
    import copy
    try:
      cells = eng.diff_cells(st["pre"], now)
      f = eng.new_engine()
      for b in gen.seed_history(st["seed"]): eng.apply(f, b)
      for b in st["hist"][:-1]:
        try: eng.apply(f, copy.deepcopy(b))
        except Exception: pass
      try: eng.apply(f, [["Calculate"]])
      except Exception: pass
      pre = eng.snapshot(f)
      if pre != st["pre"]: return False
      fresh = eng.snapshot(eng.scratch(f))
      if cells is not None:
        stale = eng.diff_cells(pre, fresh)
        if stale is not None:
          return "cells" if cells and cells <= stale else False
      # structural difference (rows of summary tables): table granularity
      differ = lambda a, b: {t for t in set(a) | set(b) if a.get(t) != b.get(t)}
      changed, stale_tables = differ(pre, now), differ(pre, fresh)
      return "tables" if changed and changed <= stale_tables else False
    except Exception:
      return False

  def before(self, st, e, bundle):
    # requires: the document is settled (a Calculate emits nothing).  If an earlier rollback or a
    # stale dependency left pending recalculation (other properties' subject: C04/C05), let it
    # happen first, so that old() is a state the engine itself considers current.
    try:
      g = eng.apply(e, [["Calculate"]])
      st["unsettled"] = st.get("unsettled", 0) + (1 if g.stored else 0)
    except Exception:
      pass
    import copy
    st["hist"].append(copy.deepcopy(bundle))
    st["pre"] = eng.snapshot(e)

  def after(self, st, e, bundle, group, exc):
    if exc is not None:
      return []
    post = eng.snapshot(e)
    undo = eng.undo_reprs(group)
    stored = eng.stored_reprs(group)
    try:
      eng.apply(e, [["ApplyUndoActions", undo]])
    except Exception as ex:
      return [("C01.undo_restores", {"error": "undo raised %r" % (ex,), "undo": undo})]
    now = eng.snapshot(e)
    d = eng.diff_snapshots(st["pre"], now)
    if d:
      stale = self.pre_state_stale(st, now)
      sig = {"cells": "pre-state-stale", "tables": "pre-state-stale-tables"}.get(stale) or \
          triage.diff_signature(e, d)
      return [("C01.undo_restores", {"diff": d, "undo": undo, "sig": sig})]
    try:
      g2 = eng.apply(e, [["ApplyDocActions", stored]])
    except Exception as ex:
      return [("C03.redo_reproduces", {"error": "redo raised %r" % (ex,), "stored": stored})]
    d = eng.diff_snapshots(post, eng.snapshot(e))
    if d:
      return [("C03.redo_reproduces", {"diff": d, "stored": stored, "sig": triage.diff_signature(e, d)})]
    st["stack"].append(eng.undo_reprs(g2))
    return []

  def finish(self, st, e):
    for undo in reversed(st["stack"]):
      try:
        eng.apply(e, [["ApplyUndoActions", undo]])
      except Exception as ex:
        return [("C01.history_unwinds", {"error": "undo raised %r" % (ex,)})]
    d = eng.diff_snapshots(st["initial"], eng.snapshot(e))
    return [("C01.history_unwinds", {"diff": d, "sig": triage.diff_signature(e, d)})] if d else []

  def classify(self, clause, detail, bundle, history):
    """Root-cause signature from the shrunk witness: what differs (kinds of columns), or the
    error pattern; plus the kinds of user actions of the whole shrunk history."""
    kinds = {k.split("(")[0].split("@")[0] for b in history for k in triage.action_kinds(b)}
    if "error" in detail:
      what = triage.error_tag(detail["error"])
      ctx = "+".join(sorted(kinds & {"RenameTable", "RenameColumn", "RemoveTable", "RemoveColumn"}))
      return "%s|%s|%s" % (clause, what, ctx)
    sig = detail.get("sig", "unknown")
    if sig in ("stale-sorted-lookup", "stale-lookup"):
      # which structural change the (shrunk) history needs: several root causes end in a stale
      # lookup result, and a stale lookup after plain record edits would be a different defect
      # (a direct edit of a column's / table's metadata record is the same structural change)
      raw = {k for b in history for k in triage.action_kinds(b)}
      kinds2 = set(kinds)
      if any(k.endswith("@_grist_Tables_column") for k in raw): kinds2.add("ModifyColumn")
      if any(k.endswith("@_grist_Tables") for k in raw): kinds2.add("RenameTable")
      for k in ("ReplaceTableData", "RemoveColumn", "ModifyColumn", "RenameColumn", "RemoveTable",
                "RenameTable", "AddColumn"):
        if k in kinds2:
          return "%s|%s|%s" % (clause, sig, k)
      return "%s|%s|record-edits-only" % (clause, sig)
    if sig == "trigger-column-recalculated":
      # the recorded root cause needs an undo that RE-ADDS records (their explicit trigger-column
      # values are not protected on add); a trigger column recalculated by an undo that only
      # updates records is a different defect
      if "undo" in detail:
        readds = any(a[0] in ("AddRecord", "BulkAddRecord", "ReplaceTableData", "AddTable")
                     and not str(a[1]).startswith("_grist_") for a in detail["undo"])
      else:
        readds = bool(kinds & {"RemoveRecord", "BulkRemoveRecord", "ReplaceTableData", "RemoveTable"})
      schema = bool(kinds & {"ModifyColumn", "RenameColumn", "RemoveColumn", "AddColumn",
                             "RemoveTable", "RenameTable", "AddTable"}) or \
          any("@_grist_" in k for b in history for k in triage.action_kinds(b))
      return "%s|%s|%s" % (clause, sig, "undo-re-adds-records" if readds else
                           "after-schema-change" if schema else "records-kept")
    return "%s|%s" % (clause, sig)


class C01Monitor(UndoMonitor):
  """Only the C01 clauses are reported here; a redo failure (C03's subject) ends the history."""
  def after(self, st, e, bundle, group, exc):
    fs = UndoMonitor.after(self, st, e, bundle, group, exc)
    if any(c.startswith("C03.") for c, _ in fs):
      st["stop"] = True
    return [f for f in fs if f[0].startswith("C01.")]

  def gen_bundle(self, st, e, g):
    if st.get("stop"): return [["Calculate"]]
    return g.bundle(e)

  def finish(self, st, e):
    if st.get("stop"): return []
    return UndoMonitor.finish(self, st, e)


class C03Monitor(UndoMonitor):
  def after(self, st, e, bundle, group, exc):
    fs = UndoMonitor.after(self, st, e, bundle, group, exc)
    if any(c.startswith("C01.") for c, _ in fs):
      st["stop"] = True
    return [f for f in fs if f[0].startswith("C03.")]

  def gen_bundle(self, st, e, g):
    if st.get("stop"): return [["Calculate"]]
    return g.bundle(e)

  def finish(self, st, e):
    return []


def main():
  rep = common.Report("C01", "exploration")
  rep.assumptions += [common.SHIM_ASSUMPTION,
                      "bounded: seeded random histories over the seed documents and action "
                      "alphabet of vlib/rtc/gen.py; not a proof",
                      "the monitored engine performs undo and redo in place after each successful "
                      "bundle (the history explored is b1, undo, redo, b2, ...)"]
  rep.coverage["rule"] = ("one evaluation = one user bundle applied to the real engine with the "
                          "2-state postcondition checked (snapshot through fetch_table + "
                          "encode_object for every table incl. metadata); non-trivial = the bundle "
                          "changed the document or raised")
  explore.explore(rep, "checks.C01", "C01Monitor")
  # supporting deductive lemma: the column store is a total map row -> value (DESIGN.md 5/C01)
  from vlib.pysym import runner
  common.setup_grist_path()
  runner.run_property(rep, "contracts.L_store", bounded=False, only=["L.store"])
  return rep.finish()


if __name__ == "__main__":
  sys.exit(main())
