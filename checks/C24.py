"""C24 Everything sent to Node is marshal-safe and round-trips — bounded run-time contracts on
the real objtypes.encode_object/decode_object and on the real sandbox transport.

Contract 1, objtypes.encode_object(v)  (v from the value pool of contracts/C22_values.py):
  ensures  C24.encode_never_raises     encode_object(v) returns normally
           C24.marshal_accepts         marshal.dumps(enc, 2) succeeds and loads back to an equal form
           C24.decode_encode_fixpoint  encode_object(decode_object(enc)) is the same form as enc
                                       (exact types, NaN == NaN) and decode_object does not raise

Contract 2, the functions main.run() registers on a real sandbox.Sandbox wired to in-memory pipes
(apply_user_actions, fetch_table, fetch_meta_tables, get_formula_error), for a document with one
formula column whose formula returns / raises a pool value, in every column type:
  ensures  C24.reply_delivered         whenever the registered function returned normally, the
                                       message that reached the pipe is DATA (not EXC): the reply
                                       is not lost after the engine applied the change
           C24.reply_roundtrips        the unmarshalled reply equals what the function returned
           C24.cells_fixpoint          every cell value in the replies decodes and re-encodes to
                                       the same form
Bounded, never a proof."""
import os, sys
sys.path.insert(0, os.path.dirname(os.path.dirname(os.path.abspath(__file__))))
import collections
import io
import logging
import marshal
import math
import warnings

from vlib import common
from vlib.rtc import fn

common.setup_grist_path()
warnings.simplefilter("ignore")
logging.disable(logging.CRITICAL)

from contracts.C22_values import pool, value as pool_value, safe_label   # noqa: E402

PROP = "C24"


# ---------------------------------------------------------------------------------------------
def same_form(a, b):
  """Same encoded form: exact same types, NaN equal to NaN, containers element-wise, dict keys in
  the same order.  Iterative (encoded forms may be nested deeper than the recursion limit)."""
  stack = [(a, b)]
  while stack:
    x, y = stack.pop()
    if x is y: continue
    if type(x) is not type(y): return False
    if isinstance(x, float):
      if not (x == y or (math.isnan(x) and math.isnan(y))): return False
    elif isinstance(x, (list, tuple)):
      if len(x) != len(y): return False
      stack.extend(zip(x, y))
    elif isinstance(x, dict):
      if len(x) != len(y): return False
      kx, ky = list(x), list(y)
      stack.extend(zip(kx, ky))
      stack.extend((x[k], y[k2]) for k, k2 in zip(kx, ky))
    else:
      try:
        if not (x == y): return False
      except Exception:
        return False
  return True


def short(x, limit=300):
  s = safe_label(x, limit)
  return s


def first_unmarshallable(enc):
  """(where, type, is_str, tag of the enclosing list) of the first leaf / key of a form that
  marshal refuses, or None.  Iterative."""
  stack = [("value", enc, None)]
  seen = set()
  while stack:
    where, x, tag = stack.pop()
    if type(x) in (str, int, float, bool, type(None), bytes, complex): continue
    if type(x) in (list, tuple, dict):
      if id(x) in seen: continue
      seen.add(id(x))
      if type(x) is dict:
        for k, v in x.items():
          stack.append(("value", v, "O")); stack.append(("key", k, "O"))
      else:
        t = x[0] if x and type(x[0]) is str else None
        for v in reversed(x): stack.append(("value", v, t))
      continue
    own_str = isinstance(x, str) and type(x).__str__ is not str.__str__
    return (where, type(x), isinstance(x, str), tag, own_str)
  return None


def leak_class(bad, noun):
  if bad is None: return "marshal refuses the %s for another reason (nesting depth?)" % noun
  where, typ, is_str, tag, own_str = bad
  if where == "key" and is_str and own_str:
    return "dict key of a str subclass whose own __str__ returns the subclass, kept in the 'O' encoding"
  if where == "key" and is_str:
    return "dict key of a str subclass kept in the 'O' encoding"
  if is_str and tag == "U":
    return "repr(value) returns a str subclass, kept in ['U', ...]"
  if is_str and own_str:
    return "str subclass survives str() (own __str__), kept as %s" % ("a cell value" if tag is None else "a member of %r" % tag)
  if is_str:
    return "str subclass instance not cast to str, kept as %s" % ("a cell value" if tag is None else "a member of %r" % tag)
  return "%s of type %s in the %s" % (where, typ.__name__, noun)


def marshal_class(v, enc):
  return leak_class(first_unmarshallable(enc), "encoding")


class Out(dict):
  def __repr__(self):
    return "{%s}" % ", ".join("%s: %s" % (k, short(self[k])) for k in self if k != "v")


def call_encode(a):
  import objtypes
  v = pool_value(a["value"])
  o = Out(v=v)
  try:
    o["enc"] = objtypes.encode_object(v)
  except Exception as e:
    o["raised"] = e
    return o
  try:
    o["wire"] = marshal.dumps(o["enc"], 2)
  except Exception as e:
    o["marshal_error"] = e
  try:
    o["dec"] = objtypes.decode_object(o["enc"])
    o["enc2"] = objtypes.encode_object(o["dec"])
  except Exception as e:
    o["decode_error"] = e
  return o


def e_never_raises(a, o):
  return True if "raised" not in o else "%s :: encode_object raised %r" % (type(o["v"]).__name__, o["raised"])

def e_marshal(a, o):
  if "enc" not in o: return True
  if "marshal_error" in o:
    return "%s :: marshal.dumps(%s) raised %r" % (marshal_class(o["v"], o["enc"]), short(o["enc"], 200), o["marshal_error"])
  back = marshal.loads(o["wire"])
  return True if same_form(back, o["enc"]) else "%s :: marshal round trip changed the form %s" % (
      type(o["v"]).__name__, short(o["enc"], 200))

def fix_class(o):
  enc = o.get("enc")
  code = enc[0] if isinstance(enc, list) and enc and isinstance(enc[0], str) else type(enc).__name__
  enc2 = o.get("enc2")
  code2 = enc2[0] if isinstance(enc2, list) and enc2 and isinstance(enc2[0], str) else type(enc2).__name__
  return refix_class(enc, enc2)

def refix_class(enc, enc2):
  code = enc[0] if isinstance(enc, list) and enc and isinstance(enc[0], str) else type(enc).__name__
  code2 = enc2[0] if isinstance(enc2, list) and enc2 and isinstance(enc2[0], str) else type(enc2).__name__
  if code == "D" and code2 == "E" and len(enc) == 3 and isinstance(enc[1], float) and \
      enc[1] >= 253402300800.0 and enc2[1:2] == ["OverflowError"]:
    return "['D', ts] with ts >= 253402300800.0 (datetime.max rounded up by float) cannot be decoded"
  return "code %s re-encodes as %s" % (code, code2)

def e_fixpoint(a, o):
  if "enc" not in o: return True
  if "decode_error" in o:
    return "%s :: decode_object/encode_object raised %r on %s" % (fix_class(o), o["decode_error"], short(o["enc"], 200))
  if same_form(o["enc"], o["enc2"]): return True
  return "%s :: encode(v) = %s but encode(decode(encode(v))) = %s" % (fix_class(o), short(o["enc"], 200), short(o["enc2"], 200))


def cases_encode(tier, seed):
  for label, _ in pool():
    yield {"value": label}


# ---------------------------------------------------------------------------------------------
# Contract 2: the real transport.  Formula bodies returning / raising pool values.
PRE = "class S(str): pass\nclass I(int): pass\nclass F(float): pass\nclass B(bytes): pass\n"
FORMULAS = [
  ("None", "return None"), ("True", "return True"), ("int", "return 5"), ("float", "return 1.5"),
  ("str", "return 'x'"), ("empty-str", "return ''"), ("surrogate-str", "return '\\ud800'"), ("nul-str", "return 'a\\x00b'"),
  ("long-str", "return 'x' * 100000"), ("nan", "return float('nan')"), ("inf", "return float('inf')"), ("neg-zero", "return -0.0"),
  ("2**31", "return 2**31"), ("-2**31-1", "return -2**31-1"), ("2**63", "return 2**63"), ("10**400", "return 10**400"),
  ("10**5000", "return 10**5000"), ("complex", "return 1j"), ("Decimal", "import decimal\nreturn decimal.Decimal('1.5')"),
  ("Fraction", "import fractions\nreturn fractions.Fraction(1, 3)"),
  ("str-subclass", PRE + "return S('k')"), ("int-subclass", PRE + "return I(5)"), ("big-int-subclass", PRE + "return I(2**40)"),
  ("float-subclass", PRE + "return F(1.5)"), ("bytes", "return b'abc'"), ("bytes-invalid-utf8", "return b'\\xff'"),
  ("bytes-subclass", PRE + "return B(b'x')"), ("bytearray", "return bytearray(b'x')"), ("memoryview", "return memoryview(b'x')"),
  ("str-subclass-own-str", "class S2(str):\n  def __str__(self): return self\nreturn S2('k')"),
  ("IntEnum", "import enum\nclass C(enum.IntEnum):\n  A = 1\nreturn C.A"),
  ("list", "return [1, 'a', None, 2.5, True]"), ("tuple", "return (1, 2)"), ("empty-list", "return []"),
  ("nested-list", "return [1, [2, (3, [4])]]"), ("list-of-subclasses", PRE + "return [S('a'), I(1), F(1.5), B(b'b')]"),
  ("set", "return {1, 2}"), ("frozenset", "return frozenset([1])"), ("range", "return range(3)"),
  ("generator", "return (x for x in [1, 2])"), ("iterator", "return iter([1])"),
  ("dict", "return {'a': 1, 'b': [1, {'c': None}]}"), ("empty-dict", "return {}"), ("dict-int-keys", "return {1: 2}"),
  ("dict-mixed-keys", "return {'a': 1, 2: 'b'}"), ("dict-None-key", "return {None: 1}"), ("dict-tuple-key", "return {(1, 2): 3}"),
  ("dict-str-subclass-key", PRE + "return {S('k'): 1}"), ("dict-str-subclass-value", PRE + "return {'k': S('v')}"),
  ("nested-dict-str-subclass-key", PRE + "return {'a': [{'b': {S('k'): 1}}]}"),
  ("list-of-dict-str-subclass-key", PRE + "return [{S('k'): 1}]"),
  ("dict-subclass", "class D(dict): pass\nreturn D(a=1)"),
  ("OrderedDict", "import collections\nreturn collections.OrderedDict([('b', 1), ('a', 2)])"),
  ("dict-of-set", "return {'a': {1}}"), ("dict-of-bytes-invalid", "return {'a': b'\\xff'}"), ("dict-of-date", "import datetime\nreturn {'d': datetime.date(2020, 1, 2)}"),
  ("dict-of-record", "return {'r': rec}"), ("dict-surrogate-key", "return {'\\ud800': 1}"),
  ("recursive-list", "l = []\nl.append(l)\nreturn l"), ("recursive-dict", "d = {}\nd['d'] = d\nreturn d"),
  ("deep-list-100", "l = []\nfor i in range(100): l = [l]\nreturn l"),
  ("deep-list-500", "l = []\nfor i in range(500): l = [l]\nreturn l"),
  ("deep-list-3000", "l = []\nfor i in range(3000): l = [l]\nreturn l"),
  ("deep-dict-300", "d = {}\nfor i in range(300): d = {'k': d}\nreturn d"),
  ("date", "import datetime\nreturn datetime.date(2020, 1, 2)"), ("date-min", "import datetime\nreturn datetime.date.min"),
  ("date-max", "import datetime\nreturn datetime.date.max"), ("datetime-naive", "import datetime\nreturn datetime.datetime(2020, 1, 2, 3, 4, 5, 678)"),
  ("datetime-stdlib-utc", "import datetime\nreturn datetime.datetime(2020, 1, 2, tzinfo=datetime.timezone.utc)"),
  ("datetime-moment-tz", "return $dt"), ("datetime-moment-tz-shifted", "import datetime\nreturn $dt + datetime.timedelta(days=180, microseconds=1)"),
  ("datetime-other-zone", "import moment, datetime\nreturn datetime.datetime(2020, 3, 8, 2, 30, tzinfo=moment.tzinfo('Asia/Kolkata'))"),
  ("datetime-max", "import datetime\nreturn datetime.datetime.max"), ("datetime-min", "import datetime\nreturn datetime.datetime.min"),
  ("time", "import datetime\nreturn datetime.time(1, 2)"), ("timedelta", "import datetime\nreturn datetime.timedelta(1)"),
  ("list-of-dates", "import datetime\nreturn [datetime.date(2020, 1, 2), $dt]"),
  ("record", "return rec"), ("record-other", "return T.lookupOne(a=2)"), ("record-missing", "return T.lookupOne(a=99)"),
  ("recordset", "return T.lookupRecords(a=1)"), ("recordset-empty", "return T.lookupRecords(a=99)"),
  ("recordset-sorted", "return T.lookupRecords(order_by='-a')"), ("list-of-records", "return [rec, rec]"),
  ("list-of-recordsets", "return [T.lookupRecords(a=1)]"), ("table", "return T"), ("all", "return T.all"),
  ("alttext", "return $n"), ("list-of-alttext", "return [$n]"), ("ref-to-alttext-attr", "return $n.foo"),
  ("raise-ZeroDivision", "return 1 / 0"), ("raise-custom", "class E(Exception): pass\nraise E('x')"),
  ("raise-msg-str-subclass", PRE + "raise ValueError(S('m'))"), ("raise-arg-dict", PRE + "raise ValueError({S('k'): 1})"),
  ("raise-KeyError-str-subclass", PRE + "raise KeyError(S('k'))"), ("raise-no-args", "raise ValueError()"),
  ("raise-str-raises", "class E(Exception):\n  def __str__(self): raise ValueError('no str')\nraise E()"),
  ("raise-str-gives-subclass", PRE + "class E(Exception):\n  def __str__(self): return S('m')\nraise E()"),
  ("raise-odd-name", "raise type('We\\xe9rd Name', (Exception,), {})('x')"),
  ("raise-BaseException-subclass", "raise StopIteration(5)"), ("return-exception", "return ValueError('x')"),
  ("syntax-error", "return )"), ("name-error", "return nope"), ("attribute-error", "return rec.nope"),
  ("circular", "return $f"), ("recursion-error", "def g(): return g()\nreturn g()"),
  ("object", "return object()"), ("class", "return int"), ("lambda", "return lambda: 1"), ("module", "import math\nreturn math"),
  ("Ellipsis", "return ..."), ("NotImplemented", "return NotImplemented"),
  ("repr-raises", "class R(object):\n  def __repr__(self): raise ValueError('no repr')\nreturn R()"),
  ("repr-gives-subclass", PRE + "class R(object):\n  def __repr__(self): return S('<r>')\nreturn R()"),
  ("eq-true", "class Q(object):\n  def __eq__(self, o): return True\n  __hash__ = None\nreturn Q()"),
  ("eq-raises", "class Q(object):\n  def __eq__(self, o): raise ValueError('no eq')\nreturn Q()"),
  ("namedtuple", "import collections\nreturn collections.namedtuple('P', 'x y')(1, 2)"),
  ("list-like-encoded-date", "return ['d', 0]"), ("list-like-encoded-obj", "return ['O', {'a': 1}]"),
  ("reflist-formula-cell", "return $members"), ("list-of-reflist-formula-cell", "return [$members, $members]"),
  ("dict-of-reflist-formula-cell", "return {'m': $members}"), ("ref-formula-cell", "return $ref"),
  ("reflist-data-cell", "return $rl"), ("reflist-cell-attr", "return $members.a"),
  ("reflist-formula-cell-clone", "return T.lookupOne(a=1).members"),
  ("PEEK", "return PEEK($f)"), ("RECORD", "return RECORD(rec)"), ("RECORD-dates", "return RECORD(rec, dates_as_iso=False)"),
]
COL_TYPES = ["Any", "Text", "Int", "Numeric", "Bool", "Date", "DateTime:UTC", "Choice", "ChoiceList", "Ref:T", "RefList:T",
             "Attachments", "PositionNumber"]
_F = dict(FORMULAS)


class Doc(object):
  """A real Sandbox with main.run's functions registered, wired to in-memory pipes."""
  def __init__(self):
    import sandbox as sbmod, main as gmain
    self.sb = sbmod.Sandbox(io.BytesIO(b""), io.BytesIO())
    gmain.run(self.sb)                       # registers the functions; run() returns at EOF
    self.log = []
    for name, f in list(self.sb._functions.items()):
      self.sb._functions[name] = self._recording(name, f)

  def _recording(self, name, f):
    def wrapper(*args):
      try:
        ret = f(*args)
      except Exception as e:
        self.log.append((name, "raised", e))
        raise
      self.log.append((name, "returned", ret))
      return ret
    return wrapper

  def call(self, *calls):
    """Sends the calls through the pipe; -> [(name, 'returned'|'raised', ret_or_exc, (code, body))]"""
    self.log = []
    self.sb._external_input = io.BytesIO(
        b"".join(marshal.dumps(None, 2) + marshal.dumps(list(c), 2) for c in calls))
    self.sb._external_output = out = io.BytesIO()
    self.sb.run()
    raw = out.getvalue()
    f, replies = io.BytesIO(raw), []
    while f.tell() < len(raw):
      replies.append(marshal.loads(marshal.load(f)))
    assert len(replies) == len(calls) == len(self.log), (len(replies), len(calls), len(self.log))
    return [(n, how, x, rep) for (n, how, x), rep in zip(self.log, replies)]


def call_transport(a):
  d = Doc()
  init = d.call(["load_empty"], ["apply_user_actions", [["InitNewDoc"]]],
                ["apply_user_actions", [
                  ["AddTable", "T", [{"id": "a", "type": "Int", "isFormula": False, "formula": ""},
                                     {"id": "n", "type": "Numeric", "isFormula": False, "formula": ""},
                                     {"id": "dt", "type": "DateTime:America/New_York", "isFormula": False, "formula": ""},
                                     # typed reference cells filled by formulas: a RefList formula column
                                     # stores its lookup result as a RecordList (a list subclass)
                                     {"id": "members", "type": "RefList:T", "isFormula": True, "formula": "T.lookupRecords(a=$a, order_by='-id')"},
                                     {"id": "ref", "type": "Ref:T", "isFormula": True, "formula": "T.lookupOne(a=$a)"},
                                     {"id": "rl", "type": "RefList:T", "isFormula": False, "formula": ""}]],
                  ["BulkAddRecord", "T", [None, None], {"a": [1, 2], "n": ["abc", 2.5], "dt": [1583652600, None], "rl": [["L", 2, 1], None]}]]])
  if any(how != "returned" or rep[0] is not True for (_, how, _, rep) in init):
    raise RuntimeError("harness: document set-up failed: %r" % ([(n, how, short(x), rep[0]) for n, how, x, rep in init],))
  col = {"type": a["coltype"], "isFormula": a["mode"] == "formula", "formula": _F[a["formula"]]}
  if a["mode"] == "trigger":
    col["recalcWhen"] = 2            # RecalcWhen.MANUAL_UPDATES: recalculated on every data change
  calls = [["apply_user_actions", [["AddColumn", "T", "f", col]]],
           ["apply_user_actions", [["UpdateRecord", "T", 1, {"a": 10}], ["AddRecord", "T", None, {"a": 3}]]],
           ["fetch_table", "T"], ["fetch_table", "T", False], ["fetch_meta_tables"],
           ["get_formula_error", "T", "f", 1]]
  return Out(results=d.call(*calls))


def transport_class(a, name, detail):
  return "%s/%s/%s: %s" % (a["formula"], a["coltype"].split(":")[0], a["mode"], detail)


def _lost_class(a, ret):
  """Class of a lost reply, computed from what the function returned (the unmarshallable part)."""
  return leak_class(first_unmarshallable(ret), "reply")


def t_delivered(a, o):
  for name, how, x, (code, body) in o["results"]:
    if how == "returned" and code is not True:
      return "%s :: %s returned normally but the pipe carried EXC %r (formula %r, column type %s)" % (
          _lost_class(a, x), name, body, a["formula"], a["coltype"])
    if how == "raised" and code is not False:
      return "harness :: %s raised but the pipe carried %r" % (name, code)
  return True

def t_roundtrips(a, o):
  for name, how, x, (code, body) in o["results"]:
    if how == "returned" and code is True and not same_form(_listify(x), body):
      return "%s :: reply of %s differs after marshal: %s vs %s" % (a["formula"], name, short(x, 200), short(body, 200))
  return True

def _listify(x):
  """marshal keeps tuples as tuples; the engine's replies contain (env, action) pairs."""
  return x

def _cells(reply, depth=0):
  """Yields the cell values found in a reply (action reprs: [name, table, rows, {col: values}])."""
  if depth > 6: return
  if isinstance(reply, dict):
    for v in reply.values():
      for c in _cells(v, depth + 1): yield c
  elif isinstance(reply, (list, tuple)):
    if len(reply) == 4 and isinstance(reply[0], str) and isinstance(reply[3], dict) and reply[1] == "T":
      bulk = isinstance(reply[2], list)
      for col, vals in reply[3].items():
        for v in (vals if bulk else [vals]): yield (reply[0], col, v)
    else:
      for v in reply:
        for c in _cells(v, depth + 1): yield c

def t_cells_fixpoint(a, o):
  import objtypes
  for name, how, x, (code, body) in o["results"]:
    if how != "returned": continue
    for (act, col, v) in _cells(x):
      try:
        v2 = objtypes.encode_object(objtypes.decode_object(v))
      except Exception as e:
        return "%s :: decode/encode raised %r on cell %s of %s" % (a["formula"], e, short(v, 200), name)
      if not same_form(v, v2):
        return "%s :: cell %s.%s = %s re-encodes as %s (formula %r)" % (
            refix_class(v, v2), act, col, short(v, 200), short(v2, 200), a["formula"])
  return True


def cases_transport(tier, seed):
  names = [n for n, _ in FORMULAS]
  for i, n in enumerate(names):
    if tier == "thorough":
      types = COL_TYPES
    else:        # quick: Any for every formula, plus three other types rotating with the seed
      k = len(COL_TYPES) - 1
      types = ["Any"] + [COL_TYPES[1 + (i * 3 + j + seed) % k] for j in range(3)]
    for t in types:
      yield {"formula": n, "coltype": t, "mode": "formula"}
    yield {"formula": n, "coltype": "Any", "mode": "trigger"}
    if tier == "thorough":
      for t in COL_TYPES[1:]:
        yield {"formula": n, "coltype": t, "mode": "trigger"}


_SEEN = collections.Counter()
def _dedup(clause, pred):
  def wrapped(a, o):
    res = pred(a, o)
    if res is True: return True
    k = (clause, res.split(" :: ")[0])
    _SEEN[k] += 1
    return res if _SEEN[k] <= 3 else True
  return wrapped


def main():
  rep = common.Report(PROP, "exploration")
  tier = common.tier()
  rep.assumptions += [
    common.SHIM_ASSUMPTION,
    "bounded: contract 1 over the %d pool values of contracts/C22_values.py (enumerated completely); "
    "contract 2 over %d formula bodies x column types (quick: Any + 3 rotating types + a trigger-formula "
    "column; thorough: all %d types, formula and trigger columns); not a proof" % (len(pool()), len(FORMULAS), len(COL_TYPES)),
    "transport = the real sandbox.Sandbox.run/_send_to_js with io.BytesIO pipes and the functions "
    "registered by the real main.run; Node's side of the pipe (Unmarshaller in JS) is not exercised",
    "'accepted by the marshal transport' = marshal.dumps(reply, 2) succeeds and loads back equal; "
    "'same form' = exact same types, NaN equal to NaN",
    "KeyboardInterrupt/SystemExit/MemoryError are out of scope",
  ]
  rep.coverage["rule"] = ("contract 1: one evaluation = encode_object + marshal + decode/re-encode of one pool "
                          "value; non-trivial = the encoding is not the identical input object.  contract 2: "
                          "one evaluation = a fresh real engine behind the in-memory sandbox, six calls through "
                          "the pipe (AddColumn with the formula, a data change, two fetch_table, "
                          "fetch_meta_tables, get_formula_error); distinct by (formula, column type, mode)")
  c1 = fn.FnContract(
    name="objtypes.encode_object/decode_object", call=call_encode,
    ensures={"C24.encode_never_raises": e_never_raises, "C24.marshal_accepts": e_marshal,
             "C24.decode_encode_fixpoint": e_fixpoint},
    classify=lambda a, clause, detail: str(detail).split(" :: ")[0],
    nontrivial=lambda a, o, exc: o is not None and o.get("enc", a) is not o["v"],
    show=lambda a: {"value": a["value"], "repr": short(pool_value(a["value"]), 200)})
  fn.check(rep, c1, cases_encode, exhaustive=True)
  c2 = fn.FnContract(
    name="main.run functions through sandbox.Sandbox", call=call_transport,
    ensures={"C24.reply_delivered": _dedup("d", t_delivered), "C24.reply_roundtrips": _dedup("r", t_roundtrips),
             "C24.cells_fixpoint": _dedup("c", t_cells_fixpoint)},
    classify=lambda a, clause, detail: str(detail).split(" :: ")[0],
    show=lambda a: {"formula": a["formula"], "body": _F[a["formula"]], "coltype": a["coltype"], "mode": a["mode"]})
  fn.check(rep, c2, cases_transport, exhaustive=True)
  rep.coverage["exhaustive"] = False
  rep.coverage["stated_lists_enumerated_completely"] = not any(
      c.get("truncated_by_time_limit") for c in rep.coverage.get("contracts", []))
  rep.coverage["formulas"] = len(FORMULAS)
  rep.coverage["column_types"] = COL_TYPES
  return rep.finish()


if __name__ == "__main__":
  try:
    code = main()
  except Exception:          # a failure of the harness itself is a checker error, never a verdict
    import traceback
    print("CHECKER-ERROR property=%s %s" % (PROP, traceback.format_exc(limit=6).replace("\n", " | ")))
    code = common.EXIT_CRASH
  sys.exit(code)
