"""C05 Incremental recalculation equals recalculation from scratch — bounded run-time contract on
Engine.apply_user_actions (postcondition evaluated after EVERY bundle of every explored history).

Specification function scratch(e) (DESIGN.md section 5, C05): a NEW real Engine,
load_meta_tables(_grist_Tables, _grist_Tables_column) taken from the monitored engine's own
fetch_table, load_table for every other table with the DATA columns only (fetch_table(...,
formulas=False): every formula column is dropped, so no stored formula result is handed over;
cell objects are handed over as they are, without an encode/decode round trip — that is C07's
subject), then the user action Calculate, then fetch_table.
Clause:
  C05.equals_scratch   after every bundle (successful or rolled back), every formula column of
                       every table of the monitored engine equals the same column of scratch(e)
                       (same row ids, same values in the reply encoding, NaN equal to NaN).
Formula programs: a grammar over the shapes the statement lists, instantiated on the current
document — $col arithmetic, reference chains, reference-list attributes, lookupRecords / lookupOne
with CONTAINS and order_by, summary $group, PREVIOUS / NEXT / RANK, cross-table chains.  Volatile or
side-effecting functions (NOW, TODAY, RAND*, REQUEST, PEEK, lookupOrAddDerived) are never generated;
trigger-formula data columns are data (loaded, not compared).
List-valued cells (RefList / ChoiceList) are also edited by SMALL EDITS OF THEIR CURRENT VALUE (drop /
replace / insert / duplicate an element; kind list_edit), followed by an edit of a row the cell
referenced or references; and the same clause is evaluated over an exhaustive small scope
(run_reflist_pairs): every ordered pair (old value, new value) of one RefList cell - and of a
ChoiceList cell next to it - over the lists of length <= 3 (thorough: 4) on 3 target rows, repeats
inside a list included, each pair followed by an edit of every target row.
Bounded: seeded random histories over 9 seed documents + that enumeration; never a proof.  The
dependency graph itself (depend.Graph + dynamic edge recording in Engine._use_node) is not separately
verified."""
import os
import random
import re
import sys

sys.path.insert(0, os.path.dirname(os.path.dirname(os.path.abspath(__file__))))
from vlib import common
from vlib.rtc import eng, explore, gen

import engine as _engine
import useractions


def scratch(e):
  """The specification function: fresh engine, metadata + data columns only, Calculate."""
  f = _engine.Engine()
  rest = f.load_meta_tables(e.fetch_table('_grist_Tables'), e.fetch_table('_grist_Tables_column'))
  for t in rest:
    f.load_table(e.fetch_table(t, formulas=False))
  f.apply_user_actions([useractions.from_repr(['Calculate'])])
  return f


def formula_columns(e):
  out = []
  for t in sorted(e.tables):
    sch = e.schema.get(t)
    if sch is None: continue
    for c in sch.columns.values():
      if c.isFormula:
        out.append((t, c.colId))
  return out


def numeric_blind(v):
  """1 and 1.0 are the same number once a reply reaches Node (statement: Node-side number typing
  is not the engine's concern); booleans stay distinct.  Works for either tagging of eng._norm."""
  if isinstance(v, tuple):
    if len(v) == 2 and v[0] in ("i", "f", "n") and not isinstance(v[1], tuple):
      try: return ("num", float(v[1]))
      except (ValueError, TypeError, OverflowError): return ("num", v[1])
    return tuple(numeric_blind(x) for x in v)
  return v


def compare_formula_columns(e, f, limit=10):
  """-> list of (table, col, row, live value, scratch value) for every differing formula cell."""
  a = eng.snapshot(e)
  b = eng.snapshot(f)
  out = []
  for (t, c) in formula_columns(e):
    if t not in a or t not in b:
      out.append((t, c, None, "table missing", "")); continue
    (ra, ca), (rb, cb) = a[t], b[t]
    if c not in ca: continue                      # private / helper columns not in replies
    if c not in cb:
      out.append((t, c, None, "column missing in scratch", "")); continue
    if ra != rb:
      out.append((t, c, None, "row ids %r" % (ra,), "row ids %r" % (rb,)))
      if len(out) >= limit: break
      continue
    for r, x, y in zip(ra, ca[c], cb[c]):
      if x != y and numeric_blind(x) != numeric_blind(y):
        out.append((t, c, r, x, y))
        if len(out) >= limit: return out
  return out


# ------------------------------------------------------------------------------------------------
# formula grammar, instantiated on the current document
# ------------------------------------------------------------------------------------------------

def formulas_for(g, e, tabs, t):
  """Formula texts for a column of table t, built from the shapes the statement lists, using the
  tables / columns that exist right now."""
  rng = g.rng
  # (the summary helper column `group` holds record sets whose text form names internal helper
  # columns; it is used through the dedicated $group shapes below only)
  cols = [c for c in tabs[t][0] if c[0] not in ("manualSort", "group")]
  names = [c[0] for c in cols]
  nums = [c[0] for c in cols if c[1] in ("Int", "Numeric")] or names
  refs = [(c[0], c[1].split(":")[1]) for c in cols if c[1].startswith("Ref:")]
  reflists = [(c[0], c[1].split(":")[1]) for c in cols if c[1].startswith("RefList:")]
  others = [u for u in tabs if "_summary_" not in u]
  out = []
  pick = lambda xs: rng.choice(xs)
  def colof(u):
    cs = [c[0] for c in tabs[u][0] if c[0] not in ("manualSort", "group")]
    return pick(cs) if cs else "id"
  if names:
    a, b = pick(nums), pick(names)
    out += ["$%s" % b, "($%s or 0) + 1" % a, "($%s or 0) * 2 + len(str($%s))" % (a, b),
            "$%s if $%s else None" % (b, a), "[$%s, $%s]" % (a, b), "$%s == $%s" % (a, b)]
  fcols_here = [c[0] for c in cols if c[2]]
  if fcols_here and names:
    fc = pick(fcols_here)
    out += ["[$%s, $%s]" % (fc, pick(names)), "($%s or 0) if isinstance($%s, (int, float)) else $%s" % (fc, fc, pick(names)),
            "str($%s) + str($%s)" % (fc, pick(names))]          # same-row chain through a formula cell
  for (rc, target) in refs:
    if target in tabs:
      tc = colof(target)
      out += ["$%s.%s" % (rc, tc), "$%s.%s or 0" % (rc, tc), "$%s.id" % rc]
      r2 = [c for c in tabs[target][0] if c[1].startswith("Ref:")]
      if r2:
        c2 = pick(r2)
        t2 = c2[1].split(":")[1]
        if t2 in tabs: out.append("$%s.%s.%s" % (rc, c2[0], colof(t2)))      # reference chain
  # the SAME target column read through two different relations by one formula (two reference
  # columns to one table; a reference and a lookup; the row itself and PREVIOUS): each relation
  # needs its own dependency edge
  for (rc, target) in refs + reflists:
    if target not in tabs: continue
    tc = colof(target)
    one = lambda c: ("$%s.%s" % (c, tc)) if (c, target) in refs else ("[r.%s for r in $%s]" % (tc, c))
    for (rc2, target2) in refs + reflists:
      if target2 == target and rc2 != rc:
        out.append("[%s, %s]" % (one(rc), one(rc2)))
    mine = pick(names) if names else "id"
    out.append("[%s, %s.lookupOne(%s=$%s).%s]" % (one(rc), target, colof(target), mine, tc))
  if names:
    a = pick(names)
    out += ["[$%s, PREVIOUS(rec, order_by='%s').%s]" % (a, a, a),
            "[$%s, NEXT(rec, order_by='id').%s, %s.lookupOne(id=$id).%s]" % (a, a, t, a)]
  for (rc, target) in reflists:
    if target in tabs:
      tc = colof(target)
      out += ["$%s.%s" % (rc, tc), "len($%s)" % rc, "sum(r.id for r in $%s)" % rc,
              "[r.%s for r in $%s]" % (tc, rc)]
  for u in others:
    if not tabs[u][0]: continue
    uc = colof(u)
    mine = pick(names) if names else "id"
    out += ["len(%s.lookupRecords(%s=$%s))" % (u, uc, mine),
            "%s.lookupOne(%s=$%s).id" % (u, uc, mine),
            "%s.lookupOne(%s=$%s).%s" % (u, uc, mine, colof(u)),
            "[r.id for r in %s.lookupRecords(%s=$%s, order_by='-%s')]" % (u, uc, mine, colof(u)),
            "%s.lookupOne(%s=$%s, order_by=('%s', '-id')).id" % (u, uc, mine, colof(u)),
            "len(%s.lookupRecords(%s=$id))" % (u, uc),
            "sum(r.id for r in %s.lookupRecords(%s=$%s))" % (u, uc, mine),
            "len(%s.all)" % u, "sum((r.%s or 0) if isinstance(r.%s, (int, float)) else 0 for r in %s.all)" % (uc, uc, u)]
    lists = [c[0] for c in tabs[u][0] if c[1] in ("ChoiceList",) or c[1].startswith("RefList:")]
    if lists:
      out += ["len(%s.lookupRecords(%s=CONTAINS($%s)))" % (u, pick(lists), mine),
              "[r.id for r in %s.lookupRecords(%s=CONTAINS($%s), order_by='id')]" % (u, pick(lists), mine),
              "len(%s.lookupRecords(%s=CONTAINS($id)))" % (u, pick(lists))]
    back = [c[0] for c in tabs[u][0] if c[1] in ("Ref:" + t, "RefList:" + t)]
    if back:
      bc = pick(back)
      contains = any(c[0] == bc and c[1].startswith("RefList") for c in tabs[u][0])
      key = "CONTAINS($id)" if contains else "$id"
      out += ["len(%s.lookupRecords(%s=%s))" % (u, bc, key),
              "sum((r.%s or 0) if isinstance(r.%s, (int, float)) else 0 for r in %s.lookupRecords(%s=%s))" % (
                uc, uc, u, bc, key),
              "%s.lookupOne(%s=%s).%s" % (u, bc, key, uc)]                      # cross-table chain
  if names:
    gb, ob = pick(names), pick(names)
    out += ["PREVIOUS(rec, group_by='%s', order_by='%s').id" % (gb, ob),
            "NEXT(rec, order_by='-%s').%s" % (ob, pick(names)),
            "RANK(rec, group_by='%s', order_by='%s')" % (gb, ob),
            "RANK(rec, order_by=('%s', 'id'), order='desc')" % ob,
            "(PREVIOUS(rec, order_by='id').id or 0) + 1",
            "PREVIOUS(rec, group_by=('%s',), order_by=None).%s" % (gb, ob)]
  if "_summary_" in t:
    src = t.split("_summary_")[0]
    sc = colof(src) if src in tabs else "id"
    out += ["len($group)", "SUM(r.id for r in $group)", "[r.id for r in $group]",
            "SUM($group.%s)" % sc, "$group.%s" % sc, "MAX([r.id for r in $group] or [0])"]
  return out


def static_refs(formula, tabs):
  """Column ids (of any table) a formula text mentions in any way: $name, .name, name= keywords and
  quoted names (order_by / group_by).  Conservative: used only to keep generated documents acyclic."""
  words = set(re.findall(r"[A-Za-z_][A-Za-z_0-9]*", formula or ""))
  out = set()
  for t in tabs:
    for c in tabs[t][0]:
      if c[0] in words: out.add(c[0])
  return out


def creates_cycle(tabs, col_id, formula):
  """Would giving column `col_id` this formula close a cycle in the (by-name, table-blind) static
  reference graph of the document?"""
  graph = {}
  for t in tabs:
    for c in tabs[t][0]:
      if c[3]: graph.setdefault(c[0], set()).update(static_refs(c[3], tabs))
  graph[col_id] = static_refs(formula, tabs)
  seen, todo = set(), list(graph.get(col_id, ()))
  while todo:
    n = todo.pop()
    if n == col_id: return True
    if n in seen: continue
    seen.add(n)
    todo.extend(graph.get(n, ()))
  return False


# The action mix of the random exploration (the BOUND of this check).  Schema edits whose handling
# of dependents is broken in several independent ways (RemoveColumn, RemoveTable, ModifyColumn type,
# ReplaceTableData, direct metadata edits, summary-table creation / removal) are NOT in the mix:
# with them almost every history fails and root causes can no longer be told apart.  The defects
# found there are pinned by the fixed WITNESSES below instead.
MIX = {"update": 16, "bulk_update": 10, "add": 10, "bulk_add": 6, "remove": 8, "bulk_remove": 4,
       "add_temp": 3, "upsert": 2, "rename_col": 3, "rename_table": 1, "add_col": 3, "add_table": 1,
       "label": 1, "invalid": 1, "formula": 26, "multi": 14, "list_edit": 8, "rekey": 10}
MULTI_KINDS = ["add", "update", "update", "update", "remove", "bulk_update", "bulk_update", "formula",
               "formula", "rename_col", "add_col", "invalid", "list_edit", "rekey"]

# lookups of the document, read off the formula texts: Table.lookupRecords / lookupOne(key=[CONTAINS(]$col
LOOKUP_CALL = re.compile(r"([A-Za-z_][A-Za-z_0-9]*)\.lookup(?:Records|One)\(\s*([A-Za-z_][A-Za-z_0-9]*)\s*="
                         r"\s*(CONTAINS\(\s*)?\$([A-Za-z_][A-Za-z_0-9]*)")


# One small edit of a list-valued cell (RefList / ChoiceList): the new value is DERIVED from the
# value the cell holds now, so that old and new value share a prefix / a suffix / most elements and
# may hold the same element more than once - the inputs on which an index that is maintained by
# diffing the old against the new value (reference relations, CONTAINS lookup indexes) can go wrong.
LIST_EDITS = ("drop", "drop_last", "replace", "replace_last", "insert", "append", "dup", "dup_end",
              "dup", "dup_end", "swap", "truncate", "undup", "undup", "undup")

def edited_list(rng, cur, universe):
  """cur: list of elements (may be empty); universe: elements to draw new ones from."""
  cur = list(cur)
  op = rng.choice(LIST_EDITS)
  if not cur:
    k = rng.randint(1, 3)
    return [rng.choice(universe) for _ in range(k)] if universe else []      # repeats allowed
  i = rng.randrange(len(cur))
  new = rng.choice(universe) if universe else cur[i]
  if op == "drop": del cur[i]
  elif op == "drop_last": cur.pop()
  elif op == "replace": cur[i] = new
  elif op == "replace_last": cur[-1] = new
  elif op == "insert": cur.insert(i, new)
  elif op == "append": cur.append(new)
  elif op == "dup": cur.insert(rng.randint(0, len(cur)), cur[i])
  elif op == "dup_end": cur.append(cur[i])
  elif op == "swap":
    j = rng.randrange(len(cur)); cur[i], cur[j] = cur[j], cur[i]
  elif op == "truncate": cur = cur[:i]
  elif op == "undup":                      # drop ONE occurrence of an element that occurs twice
    twice = [k for k, x in enumerate(cur) if cur.count(x) > 1]
    del cur[rng.choice(twice) if twice else i]
  return cur[:5]


# Seed document with same-row chains THROUGH lookup-valued columns: A reads B, B is a lookup, and A's
# node sorts before B's, in a cross-table and in a self-lookup flavour; A also has inputs of its own
# (a data cell, a reference), so that it can be dirty for a reason that does not involve B.
_col = gen._col
gen.SEEDS["c05_chain"] = [
  [["AddTable", "Rates", [_col("k", "Text"), _col("amount", "Int")]],
   ["AddTable", "People", [
     _col("k", "Text"), _col("x", "Int"), _col("fav", "Ref:Rates"), _col("fav2", "Ref:Rates"),
     _col("both", "Any", "($fav.amount or 0) + ($fav2.amount or 0)"),
     _col("delta", "Any", "($x or 0) - (PREVIOUS(rec, order_by='id').x or 0)"),
     _col("B", "Any", "len(Rates.lookupRecords(k=$k))"),
     _col("A", "Any", "$B + ($x or 0)"),
     _col("A2", "Any", "$B * 1000 + len($fav.k or '')"),
     _col("Bsum", "Any", "sum(r.amount or 0 for r in Rates.lookupRecords(k=$k, order_by='amount'))"),
     _col("A3", "Any", "[$Bsum, $x, $fav.amount]")]],
   ["AddTable", "Own", [_col("k", "Text"), _col("v", "Int"),
                        _col("cnt", "Any", "len(Own.lookupRecords(k=$k))"),
                        _col("acc", "Any", "$cnt * 100 + ($v or 0)")]]],
  [["BulkAddRecord", "Rates", [None, None, None], {"k": ["a", "b", "c"], "amount": [10, 20, 30]}],
   ["BulkAddRecord", "People", [None, None], {"k": ["a", "b"], "x": [100, 200], "fav": [2, 3],
                                              "fav2": [1, 2]}],
   ["BulkAddRecord", "Own", [None, None, None], {"k": ["a", "b", "a"], "v": [1, 2, 3]}]],
]


class C05Monitor(explore.Monitor):
  seeds = ("basic", "refs", "lookup", "summary", "twoway", "twoway_list", "prevnext", "choices",
           "c05_chain")
  length = 8

  def formula_action(self, e, g):
    rng = g.rng
    tabs = g.doc(e)
    if not tabs: return None
    t = rng.choice(sorted(tabs))
    fs = formulas_for(g, e, tabs, t)
    if not fs: return None
    f = rng.choice(fs)
    fcols = [c for c in tabs[t][0] if c[2] and c[0] not in ("group", "manualSort")]
    if fcols and rng.random() < 0.5:
      target = rng.choice(fcols)[0]
      if not creates_cycle(tabs, target, f):
        return ["ModifyColumn", t, target, {"formula": f}]
    elif len(tabs[t][0]) < 9:
      target = rng.choice(["f1", "f2", "f3", "q", "w"])
      if not creates_cycle(tabs, target, f):
        return ["AddColumn", t, target, {"type": rng.choice(["Any", "Any", "Int", "Text"]),
                                         "isFormula": True, "formula": f}]
    return None

  def list_edit(self, st, e, g):
    """UpdateRecord that gives one RefList / ChoiceList data cell a small edit of its current value
    (edited_list).  For a RefList, the rows the cell referenced before or references now are
    remembered in st['touch']: one of the next bundles edits a field of one of them (touch), which
    is when a reference index that lost track of the cell shows.  The next list edit mostly goes on
    with the same cell (st['list_cell']), so that a cell goes through several small edits."""
    rng = g.rng
    tabs = g.doc(e)
    cands = [(t, c) for t in g.data_tables(tabs) if tabs[t][1] for c in tabs[t][0]
             if not c[2] and not c[3] and (c[1] == "ChoiceList" or c[1].startswith("RefList:"))]
    if not cands: return None
    t, c = rng.choice(cands)
    r = rng.choice(tabs[t][1])
    last = st.get("list_cell") if st is not None else None
    if last and rng.random() < 0.6 and any(x[0] == last[0] and x[1][0] == last[1] for x in cands) \
       and last[2] in tabs[last[0]][1]:
      t, r = last[0], last[2]                # go on editing the cell edited last
      c = [x[1] for x in cands if x[0] == t and x[1][0] == last[1]][0]
    if st is not None: st["list_cell"] = (t, c[0], r)
    try:
      cur = e.tables[t].get_column(c[0]).raw_get(r)
    except Exception:
      cur = None
    cur = list(cur) if isinstance(cur, (list, tuple)) else []
    if c[1] == "ChoiceList":
      universe, target = ["a", "b", "c"], None
    else:
      target = c[1].split(":")[1]
      universe = list(tabs[target][1])[:4] if target in tabs else []
    new = edited_list(rng, cur, universe)
    if target and st is not None:
      ids = sorted(set(x for x in cur + new if isinstance(x, int)))
      if ids: st["touch"] = (target, ids)
    return ["UpdateRecord", t, r, {c[0]: ["L"] + new}]

  def rekey(self, e, g):
    """An edit after which a looked-up row NEWLY MATCHES a looking-up row: for a lookup
    T.lookupRecords(K=$x) found in a formula of table H (K a data column of T), some row of T whose
    K differs from H.x[r] gets K = H.x[r]; half of the time another data cell of H's row r is
    edited in the same bundle (the looking-up row is then dirty for a second, independent reason).
    Which rows start to match is known to the engine only once the lookup index is recalculated."""
    rng = g.rng
    tabs = g.doc(e)
    cands = []
    for h in tabs:
      for c in tabs[h][0]:
        for m in LOOKUP_CALL.finditer(c[3] or "") if c[2] else ():
          T, K, contains, x = m.group(1), m.group(2), bool(m.group(3)), m.group(4)
          kc = [d for d in tabs.get(T, ((), ()))[0] if d[0] == K and not d[2]]
          xs = x == "id" or any(d[0] == x for d in tabs[h][0])
          if kc and xs and tabs[T][1] and tabs[h][1] and "_summary_" not in T:
            cands.append((h, x, T, kc[0], contains))
    if not cands: return None
    h, x, T, kc, contains = rng.choice(cands)
    def cell(tab, col, r):
      if col == "id": return r
      try: return e.tables[tab].get_column(col).raw_get(r)
      except Exception: return None
    r = rng.choice(tabs[h][1])
    v = cell(h, x, r)
    if hasattr(v, "_row_id"): v = v._row_id
    if isinstance(v, (list, tuple, dict)) or v is None and rng.random() < 0.7: return None
    def same(a, b):
      return type(a) is type(b) and a == b
    if contains:
      is_reflist = kc[1].startswith("RefList")
      if is_reflist and not isinstance(v, int): return None
      rows = []
      for q in tabs[T][1]:
        cur = cell(T, kc[0], q)
        cur = list(cur) if isinstance(cur, (list, tuple)) else []
        if not any(same(y, v) for y in cur): rows.append((q, ["L"] + cur + [v]))
    else:
      rows = [(q, v) for q in tabs[T][1] if not same(cell(T, kc[0], q), v)]
    if not rows: return None
    q, newval = rng.choice(rows)
    acts = [["UpdateRecord", T, q, {kc[0]: newval}]]
    if rng.random() < 0.5:
      data = [d for d in tabs[h][0] if not d[2] and d[0] not in ("manualSort", x)
              and not (h == T and d[0] == kc[0])]
      if data and "_summary_" not in h:
        d = rng.choice(data)
        acts.append(["UpdateRecord", h, r, {d[0]: rng.choice(gen.values_for(d[1], rng, e, g.rows_of(e)))}])
        rng.shuffle(acts)
    return ("MULTI", acts)

  def touch(self, st, e, g):
    """UpdateRecord of data fields of a row that an edited RefList cell referenced or references."""
    target, ids = st.pop("touch")
    tabs = g.doc(e)
    if target not in tabs: return None
    ids = [i for i in ids if i in tabs[target][1]]
    data = [c for c in tabs[target][0] if not c[2] and c[0] != "manualSort"
            and not c[1].startswith("Ref")]
    if not ids or not data: return None
    vals = {}
    for c in data:
      if g.rng.random() < 0.7:
        vals[c[0]] = g.rng.choice(gen.values_for(c[1], g.rng, e, g.rows_of(e)))
    if not vals: return None
    return ["UpdateRecord", target, g.rng.choice(ids), vals]

  def one(self, e, g, kind, st=None):
    if kind == "formula":
      a = self.formula_action(e, g)
      return [a] if a else []
    if kind == "list_edit":
      a = self.list_edit(st, e, g)
      return [a] if a else []
    if kind == "rekey":
      a = self.rekey(e, g)
      return list(a[1]) if a else []
    a = g.action(e, kind)
    return list(a[1]) if isinstance(a, tuple) else [a]

  def gen_bundle(self, st, e, g):
    rng = g.rng
    if st.get("touch") and rng.random() < 0.6:
      a = self.touch(st, e, g)
      if a: return [a]
    kinds = sorted(MIX)
    kind = rng.choices(kinds, [MIX[k] for k in kinds])[0]
    if kind == "multi":
      acts = []
      for _ in range(rng.randint(2, 3)):
        acts.extend(self.one(e, g, rng.choice(MULTI_KINDS), st))
      return acts or self.one(e, g, "update")
    return self.one(e, g, kind, st) or self.one(e, g, "update")

  def start(self, e, seed_name):
    return {}

  def after(self, st, e, bundle, group, exc):
    try:
      f = scratch(e)
    except Exception as ex:
      return [("C05.equals_scratch", {"error": "scratch engine could not be built: %s: %s" % (
        type(ex).__name__, str(ex)[:200])})]
    d = compare_formula_columns(e, f)
    if not d:
      return []
    cells = []
    for (t, c, r, x, y) in d:
      sch = e.schema[t].columns.get(c) if t in e.schema else None
      cells.append({"table": t, "col": c, "row": r, "live": repr(x), "scratch": repr(y),
                    "formula": sch.formula if sch else None})
    formulas = {}
    for t in eng.user_tables(e):
      for (cid, ctype, is_formula, formula) in eng.schema_columns(e, t):
        if formula: formulas["%s.%s" % (t, cid)] = formula
    return [("C05.equals_scratch", {"cells": cells, "rolled_back": exc is not None,
                                    "diagnosis": diagnose(e), "formulas": formulas})]

  def classify(self, clause, detail, bundle, history):
    return classify(detail, bundle, history)


def diagnose(e):
  """White-box look at the monitored engine's lookup helpers, used ONLY to name the root cause of
  an already established violation (never to decide whether there is one):
    detached_sort_columns : sorted lookup helpers ('#lookup#..#sort..', used by order_by= and
                            PREVIOUS/NEXT/RANK) whose sort key reads a column OBJECT that is no
                            longer the table's column of that name (it was rebuilt or removed);
    unreadable_lookup_keys: lookup indexes / sorted lookup helpers one of whose key or sort cells
                            cannot be read right now (that column holds an error value in some
                            row, or no longer exists)."""
  import lookup as _lookup
  import objtypes
  out = {"detached_sort_columns": [], "unreadable_lookup_keys": []}
  for t in sorted(e.tables):
    table = e.tables[t]
    for cid, col in sorted(getattr(table, "_special_cols", {}).items()):
      try:
        if isinstance(col, _lookup.SortedLookupMapColumn):
          bound = []
          for cell in (getattr(col._sort_key.__init__, "__closure__", None) or ()):
            v = cell.cell_contents
            if isinstance(v, list) and v and all(isinstance(x, tuple) and len(x) == 2 for x in v):
              bound = [x[0] for x in v]
          for b in bound:
            if hasattr(b, "col_id") and table.all_columns.get(b.col_id) is not b:
              out["detached_sort_columns"].append({"table": t, "helper": cid, "column": b.col_id})
          for kid in col._sort_col_ids:
            kc = table.all_columns.get(kid)
            if kc is None:
              out["unreadable_lookup_keys"].append({"table": t, "helper": cid, "column": kid, "why": "missing"})
            elif any(isinstance(kc.raw_get(r), objtypes.RaisedException) for r in table.row_ids):
              out["unreadable_lookup_keys"].append({"table": t, "helper": cid, "column": kid, "why": "errors"})
        elif isinstance(col, _lookup.LookupMapColumn):
          for k in col._mapping._col_ids_tuple:
            kid = _lookup.extract_column_id(k)
            kc = table.all_columns.get(kid)
            if kc is None:
              out["unreadable_lookup_keys"].append({"table": t, "helper": cid, "column": kid, "why": "missing"})
            elif any(isinstance(kc.raw_get(r), objtypes.RaisedException) for r in table.row_ids):
              out["unreadable_lookup_keys"].append({"table": t, "helper": cid, "column": kid, "why": "errors"})
      except Exception as ex:
        out.setdefault("diagnosis_errors", []).append("%s.%s: %r" % (t, cid, ex))
  return out


# ------------------------------------------------------------------------------------------------
# root-cause classes
# ------------------------------------------------------------------------------------------------

def formula_shape(f):
  f = f or ""
  shapes = []
  if "lookupRecords" in f or "lookupOne" in f: shapes.append("lookup")
  if "CONTAINS" in f: shapes.append("contains")
  if "order_by" in f and "lookup" in f: shapes.append("order_by")
  if "PREVIOUS" in f or "NEXT" in f or "RANK" in f: shapes.append("prevnext")
  if "$group" in f or "rec.group" in f: shapes.append("group")
  if ".all" in f: shapes.append("all")
  if re.search(r"\$\w+\.\w+", f): shapes.append("refattr")
  return "+".join(shapes) or "plain"


def value_kind(r):
  m = re.match(r"\('l', 'E', '(\w+)'", r)
  if m: return "E:" + m.group(1)
  if r.startswith("row ids"): return "rows"
  return "value"


def action_kinds(bundle):
  out = []
  for a in bundle:
    k = a[0]
    if k == "ModifyColumn":
      k += "(" + ",".join(sorted(a[3])) + ")"
    if k in ("UpdateRecord", "AddRecord", "RemoveRecord", "BulkUpdateRecord", "BulkAddRecord",
             "BulkRemoveRecord") and str(a[1]).startswith("_grist_"):
      k += ":" + a[1]
    out.append(k)
  return sorted(set(out))


LOOKUP_ARGS = re.compile(r"(?:lookupRecords|lookupOne|PREVIOUS|NEXT|RANK)\s*\(([^()]*(?:\([^()]*\)[^()]*)*)\)")

def indexed_column_behind_lookup(cell, cells, formulas):
  """Root-cause test for one differing cell (static, by column name): its column X is used as a
  lookup key / order_by / group_by by some formula of the document (so a '#lookup' helper reads X
  at the start of every pass) AND X's own formula reaches, through same-document column names,
  a column whose formula is itself a lookup (whose helper may only find out later in the pass that
  X's input changed); or the cell is such a lookup over a differing X."""
  by_name = {}
  for key, f in formulas.items():
    by_name.setdefault(key.split(".", 1)[1], []).append(f)
  names = set(by_name)
  words = lambda f: set(w for w in re.findall(r"[A-Za-z_][A-Za-z_0-9]*", f or "") if w in names)
  indexed = set()
  for fs in by_name.values():
    for f in fs:
      for m in LOOKUP_ARGS.finditer(f):
        indexed |= words(m.group(1).split("$")[0] if False else m.group(1))
  def reaches_lookup(x):
    seen, todo = set(), [x]
    while todo:
      n = todo.pop()
      if n in seen: continue
      seen.add(n)
      for f in by_name.get(n, ()):
        # (PREVIOUS / NEXT / RANK / .find are sorted lookups too)
        if n != x and re.search(r"lookupRecords|lookupOne|PREVIOUS\(|NEXT\(|RANK\(|\.find\.", f): return True
        todo.extend(words(f))
    return False
  def is_x(col):
    return col in indexed and reaches_lookup(col)
  if is_x(cell["col"]):
    return True
  others = set(c["col"] for c in cells if is_x(c["col"]))
  f = cell["formula"] or ""
  return any(m and (words(m.group(1)) & others) for m in LOOKUP_ARGS.finditer(f))


def classify(detail, bundle, history=()):
  """Root-cause class of a (shrunk) violation.  Decision list, most specific evidence first."""
  if "error" in detail:
    return "scratch-failed|" + detail["error"].split(":")[1].strip()
  cells = detail.get("cells", [])
  diag = detail.get("diagnosis", {})
  shapes = set(formula_shape(c["formula"]) for c in cells)
  sorted_shape = all(("prevnext" in s_) or ("order_by" in s_) for s_ in shapes)
  lookup_shape = all(("lookup" in s_) or ("prevnext" in s_) for s_ in shapes)
  if detail.get("rolled_back"):
    return "after-rolled-back-bundle"
  if any("ReplaceTableData" == a[0] for b in history for a in b):
    return "history-needs-ReplaceTableData"
  def names_a(entries, c):
    """the entries whose column is named (as a word) in the formula of differing cell c"""
    words = set(re.findall(r"[A-Za-z_][A-Za-z_0-9]*", c["formula"] or ""))
    return [x for x in entries if x["column"] in words]
  detached = diag.get("detached_sort_columns") or []
  if sorted_shape and detached and all(names_a(detached, c) for c in cells):
    return "sorted-lookup-reads-detached-column"
  unreadable = diag.get("unreadable_lookup_keys") or []
  if lookup_shape and unreadable and all(names_a(unreadable, c) for c in cells):
    kinds = sorted(set(x["why"] for c in cells for x in names_a(unreadable, c)))
    return "lookup-helper-stale:key-or-sort-column-" + "+".join(kinds)
  if cells and all(indexed_column_behind_lookup(c, cells, detail.get("formulas") or {}) for c in cells):
    return "computed-once-per-pass:indexed-formula-column-behind-another-lookup"
  shapes2 = sorted(set(("summary:" if "_summary_" in c["table"] else "") + formula_shape(c["formula"])
                       for c in cells))
  kinds = sorted(set("%s->%s" % (value_kind(c["live"]), value_kind(c["scratch"])) for c in cells))
  return "%s|%s|%s" % (",".join(action_kinds(bundle)), ",".join(shapes2), ",".join(kinds))


# Fixed witnesses of defects met OUTSIDE the narrowed action mix (each replayed natively; see
# findings_proposed/C05-*.md).  They are run on every check; a witness that no longer fails prints
# nothing.  (seed document, history, name)
WITNESSES = [
  ("lookup", [[["RemoveColumn", "A", "tags"]]], "RemoveColumn-of-lookup-key-column"),
  ("refs", [[["ReplaceTableData", "A", [5], {"n": [9], "s": ["z"]}]]], "ReplaceTableData-rows-disappear"),
  ("prevnext", [[["ModifyColumn", "A", "d", {"type": "Any"}]]], "ModifyColumn-type-of-sort-column"),
  ("basic", [[["AddColumn", "A", "q", {"type": "Any", "isFormula": True,
                                      "formula": "len(A.lookupRecords(zz=$n))"}]],
             [["AddColumn", "A", "zz", {"type": "Int", "isFormula": False}]]],
   "column-named-by-lookup-key-added-later"),
  ("summary", [[["AddColumn", "A_summary_tags", "f1", {"type": "Any", "isFormula": True,
                 "formula": "A_summary.lookupOne(count=$count).id"}]],
               [["RemoveTable", "A_summary"]], [["CreateViewSection", 1, 0, "record", [], None]]],
   "table-named-by-formula-recreated"),
  ("basic", [[["RemoveColumn", "A", "f"], ["UpdateRecord", "NoSuchTable", 1, {"x": 1}]]],
   "rolled-back-RemoveColumn-of-formula-column"),
  ("summary", [[["ModifyColumn", "A", "tags", {"type": "Any"}]]], "type-change-of-summary-groupby-source"),
  ("twoway_list", [[["AddColumn", "B", "f1", {"type": "Int", "isFormula": True,
                                            "formula": "len(B.lookupRecords(A=$id))"}]],
                   [["ModifyColumn", "B", "A", {"type": "Ref:A"}]]], "type-change-of-lookup-key-column"),
  # a Record obtained by lookupOne and STORED in an Any formula column carries the lookup's relation;
  # when the key column is modified the lookup helper column is rebuilt and that relation dies, but
  # the Any cell keeps its (equal) value, so `$a.v` is neither recomputed nor re-linked
  ("basic", [[["AddTable", "T9", [_col("k", "Text"), _col("v", "Int")]],
              ["AddTable", "U9", [_col("key", "Text"), _col("a", "Any", "T9.lookupOne(k=$key)"),
                                  _col("b", "Any", "$a.v")]]],
             [["BulkAddRecord", "T9", [None, None], {"k": ["x", "y"], "v": [1, 2]}],
              ["BulkAddRecord", "U9", [None, None], {"key": ["x", "y"]}]],
             [["ModifyColumn", "T9", "k", {"type": "Choice"}]],
             [["UpdateRecord", "T9", 1, {"v": 20}]]],
   "record-held-in-any-column-keeps-dead-lookup-relation"),
  # a chain of THREE lookups, each keyed by the formula column the previous one fills (T1.E looks up
  # T0 by a data key, T2.F looks up T1 by E, T3.G looks up T2 by F and also reads a data cell of its
  # own).  One bundle edits the first key and G's own data cell: G[1] is computed in the first round
  # of the pass (dirty through its own input) while the index on F is still clean, because the
  # invalidation started by T0's index has only reached E; when it arrives, G[1] is already in
  # _recompute_done_map and the invalidation is dropped (same rule as
  # C05-cell-computed-once-per-pass, reached without any index pulling a cell early)
  ("basic", [[["AddTable", "T0", [_col("k0", "Text"), _col("v0", "Text")]],
              ["AddTable", "T1", [_col("x1", "Text"), _col("E", "Any", "T0.lookupOne(k0=$x1).v0")]],
              ["AddTable", "T2", [_col("x2", "Text"), _col("F", "Any", "T1.lookupOne(E=$x2).x1")]],
              ["AddTable", "T3", [_col("x3", "Text"), _col("y3", "Text"),
                                  _col("G", "Any", "T2.lookupOne(F=$x3).x2 + '/' + $y3")]]],
             [["BulkAddRecord", "T0", [None, None], {"k0": ["zz", "b"], "v0": ["V1", "V2"]}],
              ["BulkAddRecord", "T1", [None, None], {"x1": ["a", "b"]}],
              ["BulkAddRecord", "T2", [None, None], {"x2": ["V1", "V2"]}],
              ["BulkAddRecord", "T3", [None, None], {"x3": ["a", "b"], "y3": ["p", "q"]}]],
             [["UpdateRecord", "T0", 1, {"k0": "a"}], ["UpdateRecord", "T3", 1, {"y3": "P"}]]],
   "three-level-lookup-chain-and-own-input-edited-in-one-bundle"),
]


# ------------------------------------------------------------------------------------------------
# exhaustive small scope: every (old value, new value) pair of one RefList cell
# ------------------------------------------------------------------------------------------------
# The reference index behind a Ref / RefList column (who references row X?) is maintained
# incrementally from the old and the new value of an edited cell; the formulas below read THROUGH
# the RefList, so they follow later edits of the referenced rows only if that index is right.
# Document: A(n, s) with 3 rows; B(rl RefList:A) with row 1 = the edited cell and row 2 = ['L', 3]
# (never edited); readers of B.rl by iteration, by attribute of the record set, by SUM, and - from
# A - by a CONTAINS lookup.  A ChoiceList cell B.cl goes through the same pairs (ids mapped to the
# choices a, b, c) and is read from A by a CONTAINS lookup keyed by A.s.
gen.SEEDS["c05_reflist"] = [
  [["AddTable", "A", [_col("n", "Int"), _col("s", "Text")]],
   ["AddTable", "B", [_col("rl", "RefList:A"), _col("cl", "ChoiceList"),
                      _col("x", "Any", "sum(r.n or 0 for r in $rl)"),
                      _col("y", "Any", "$rl.s"),
                      _col("z", "Int", "SUM($rl.n)"),
                      _col("w", "Any", "[r.id for r in $rl]")]],
   ["AddColumn", "A", "back", {"type": "Any", "isFormula": True,
                               "formula": "[b.id for b in B.lookupRecords(rl=CONTAINS($id))]"}],
   ["AddColumn", "A", "tot", {"type": "Any", "isFormula": True,
                              "formula": "sum(b.x for b in B.lookupRecords(rl=CONTAINS($id)))"}],
   ["AddColumn", "A", "cback", {"type": "Any", "isFormula": True,
                                "formula": "[b.id for b in B.lookupRecords(cl=CONTAINS($s))]"}]],
  [["BulkAddRecord", "A", [None, None, None], {"n": [1, 2, 3], "s": ["a", "b", "c"]}],
   ["BulkAddRecord", "B", [None, None], {"rl": [None, ["L", 3]], "cl": [None, ["L", "c"]]}]],
]
REFLIST_IDS = (1, 2, 3)
CHOICE_OF = {1: "a", 2: "b", 3: "c"}      # the ChoiceList cell B.cl goes through the same pairs


def _cells(v):
  return {"rl": ["L"] + v, "cl": ["L"] + [CHOICE_OF[i] for i in v]}


def reflist_values(maxlen):
  """every list over REFLIST_IDS of length <= maxlen, repeats included"""
  import itertools
  out = []
  for k in range(maxlen + 1):
    out += [list(p) for p in itertools.product(REFLIST_IDS, repeat=k)]
  return out


def pair_bundles(old, new):
  """one cell (row 1 of B): set it to old; set it to new; edit field n of every row of A"""
  return [[["UpdateRecord", "B", 1, _cells(old)]],
          [["UpdateRecord", "B", 1, _cells(new)]],
          [["BulkUpdateRecord", "A", list(REFLIST_IDS), {"n": [10 + i for i in REFLIST_IDS]}]]]


def batch_bundles(old, values):
  """The pairs (old, v) for every v of `values` at once, one cell each: rows 3.. are added to B (one
  per value), all are set to `old`, then row i is set to values[i], then field n of every row of A is
  edited.  The cells are independent of each other (each row's formulas read its own cell only)."""
  rows = list(range(3, 3 + len(values)))
  return [[["BulkAddRecord", "B", rows, {}]],
          [["BulkUpdateRecord", "B", rows, {k: [_cells(old)[k] for _ in rows] for k in ("rl", "cl")}]],
          [["BulkUpdateRecord", "B", rows, {k: [_cells(v)[k] for v in values] for k in ("rl", "cl")}]],
          [["BulkUpdateRecord", "A", list(REFLIST_IDS), {"n": [10 + i for i in REFLIST_IDS]}]]]


def _reflist_worker(task):
  """For every old value of the share: a fresh engine, batch_bundles(old, all values), then the clause
  C05.equals_scratch.  Every differing row of B names a failing pair (old, new); the first ones are
  replayed alone as the 3-bundle history pair_bundles(old, new) on a fresh engine and reported in
  that form when they fail there too (with the batch history otherwise)."""
  import traceback
  olds, maxlen = task
  out = {"pairs": 0, "failures": [], "crash": None}
  try:
    m = C05Monitor()
    values = reflist_values(maxlen)
    for old in olds:
      e = eng.new_engine()
      for b in gen.seed_history("c05_reflist"): eng.apply(e, b)
      batch = batch_bundles(old, values)
      for b in batch: eng.apply(e, b)
      out["pairs"] += len(values) - 1
      d = compare_formula_columns(e, scratch(e), limit=1000)
      if not d or len(out["failures"]) >= 2:
        continue
      rows = sorted(set(r for (t, c, r, x, y) in d if t == "B" and r is not None and r >= 3))
      done = False
      for r in rows[:3]:
        bundles = pair_bundles(old, values[r - 3])
        failures, _, _ = explore.run_history(m, "c05_reflist", bundles)
        if failures:
          f = failures[0]
          out["failures"].append({"clause": f["clause"], "class": f["class"], "detail": f["detail"],
                                  "history": bundles[:f["at"] + 1]})
          done = True
          break
      if not done:
        failures, _, _ = explore.run_history(m, "c05_reflist", batch)
        for f in failures[:1]:
          out["failures"].append({"clause": f["clause"], "class": f["class"], "detail": f["detail"],
                                  "history": batch[:f["at"] + 1]})
  except Exception:
    out["crash"] = traceback.format_exc(limit=8)
  return out


def run_reflist_pairs(rep):
  import multiprocessing as mp
  maxlen = 3 if common.tier() == "quick" else 4
  values = reflist_values(maxlen)
  procs = min(16, os.cpu_count() or 4)
  tasks = [(values[i::procs], maxlen) for i in range(procs)]
  eng.new_engine()
  with mp.get_context("fork").Pool(procs) as pool:
    outs = pool.map(_reflist_worker, [t for t in tasks if t[0]])
  pairs, seen = 0, set()
  for o in outs:
    if o["crash"]:
      rep.crash("RefList pair enumeration: " + o["crash"]); continue
    pairs += o["pairs"]
    for f in o["failures"]:
      if f["class"] in seen: continue             # one witness per root-cause class
      seen.add(f["class"])
      rep.violation("%s-%s" % (f["clause"], f["class"]),
                    {"obligation": f["clause"], "class": f["class"], "seed_doc": "c05_reflist",
                     "history": f["history"], "detail": f["detail"], "tier": "bounded",
                     "how_to_replay": "apply SEEDS['c05_reflist'] (checks/C05.py) then `history` "
                     "bundle by bundle on a fresh engine (vlib.rtc.explore.run_history)"})
  rep.coverage["evaluations"] = rep.coverage.get("evaluations", 0) + pairs
  rep.coverage["distinct_nontrivial"] = rep.coverage.get("distinct_nontrivial", 0) + pairs
  rep.coverage["reflist_pairs"] = {
    "exhaustive_over": "every ordered pair (old, new), old != new, of values of one RefList cell "
                       "drawn from the lists over %d target rows of length <= %d, repeats included "
                       "(%d values)" % (len(REFLIST_IDS), maxlen, len(values)),
    "pairs": pairs, "complete": pairs == len(values) * (len(values) - 1),
    "per_pair": "[set old], [set new], [edit field n of every target row], then the clause; the "
                "pairs of one old value are run together, one cell (row of B) per new value, and "
                "the clause is evaluated once per old value (%d comparisons with the "
                "specification function)" % len(values)}


def run_witnesses(rep):
  m = C05Monitor()
  n = 0
  for seed_doc, history, name in WITNESSES:
    try:
      failures, stats, hist = explore.run_history(m, seed_doc, history)
    except Exception as ex:
      rep.crash("witness %s: %r" % (name, ex))
      continue
    n += stats["bundles"]
    for f in failures[:1]:
      rep.violation(f["clause"], {"obligation": f["clause"], "class": "witness:" + name,
                                  "root_cause_class": f["class"], "seed_doc": seed_doc,
                                  "history": history, "detail": f["detail"], "tier": "bounded"})
  rep.coverage["evaluations"] = rep.coverage.get("evaluations", 0) + n
  rep.coverage["witness_histories"] = len(WITNESSES)


def main():
  rep = common.Report("C05", "exploration")
  rep.assumptions += [
    common.SHIM_ASSUMPTION,
    "bounded: seeded random histories over 9 seed documents, plus every (old, new) pair of values of "
    "one RefList / ChoiceList cell in a stated small scope (coverage.reflist_pairs); not a proof",
    "the specification function hands the monitored engine's data cells to the fresh engine as "
    "objects (no encode / marshal round trip: that is C07)",
    "volatile / side-effecting functions are never generated; trigger-formula data columns are "
    "loaded as data and not compared",
    "the dependency graph (depend.Graph, dynamic edges recorded by Engine._use_node) is only "
    "exercised, not verified on its own",
  ]
  rep.coverage["rule"] = (
    "one evaluation = one user bundle applied to the real engine followed by the comparison of "
    "every formula column of every table with the specification function scratch(e); about a quarter of the "
    "bundles set a formula drawn from the grammar (column arithmetic, reference chains, reference "
    "list attributes, lookupRecords/lookupOne with CONTAINS and order_by, summary $group, "
    "PREVIOUS/NEXT/RANK, cross-table chains) instantiated on the current document and kept "
    "statically acyclic; the other bundles are record adds / updates / removals (single, bulk, "
    "temporary ids, upserts), small edits of the current value of a RefList / ChoiceList cell "
    "followed by an edit of a row it referenced, key edits after which a looked-up row newly "
    "matches a looking-up row (alone or together with an edit of another input of that row), column / table renames, added data columns and tables, label edits, "
    "invalid actions and multi-action bundles of those (see action_mix; NARROWED BOUND: see "
    "outside_the_bound); numbers are compared by value (1 == 1.0); non-trivial = the bundle "
    "changed the document or raised")
  explore.explore(rep, "checks.C05", "C05Monitor", n_quick=160, n_thorough=4000,
                  budget_quick_s=45, budget_thorough_s=800)
  run_reflist_pairs(rep)
  run_witnesses(rep)
  rep.coverage["action_mix"] = MIX
  rep.coverage["outside_the_bound"] = (
    "RemoveColumn, RemoveTable, ModifyColumn(type / isFormula), ReplaceTableData, direct metadata "
    "edits and summary-table creation are not in the random action mix (several independent "
    "defects in how dependents are invalidated make nearly every such history fail); the defects "
    "found there are pinned by %d fixed witness histories" % len(WITNESSES))
  # supporting deductive lemmas: depend.Graph against its abstract edge set, with the invariant that
  # both node indexes are exactly that set (a stale index entry is how invalidation misses a dependent)
  from vlib.pysym import runner
  common.setup_grist_path()
  runner.semantics_selfcheck(rep)
  runner.run_property(rep, "contracts.C05_graph", bounded=False)
  return rep.finish()


if __name__ == "__main__":
  sys.exit(main())
