"""C16 Renames never change formula results.

Tier B: run-time contract on the REAL engine (2-state post-condition of Engine.apply_user_actions)
for successful bundles consisting of ONE rename action - RenameColumn, RenameTable, a metadata
update of colId / tableId, or a label change (which renames when the id is tied to the label):
   C16.values_unchanged         every cell of every user table (formula and data columns, summary
                                tables included), keyed through the rename by table / column
                                REFERENCE and row id, is unchanged (errors compared by type name)
   C16.structure_unchanged      the same tables, columns and rows exist afterwards
   C16.only_name_tokens_change  every formula text changes at most in name tokens: a token-level
                                diff (tokenize) must show, for a renamed column old -> new, only
                                NAME tokens `old` -> `new` standing after `$` or `.` or before `=`
                                (keyword of a lookup), and string tokens 'old' / '-old' -> 'new' /
                                '-new' (order_by / group_by / sort_by); for a renamed table only bare
                                NAME tokens; all other tokens and the text between tokens identical
The new names are read from the metadata after the bundle (requested names may be sanitised or
disambiguated)."""
import ast, io, json, os, sys, tokenize
sys.path.insert(0, os.path.dirname(os.path.dirname(os.path.abspath(__file__))))
from vlib import common
from vlib.rtc import eng, explore, gen

import objtypes       # real module

_col = gen._col


def _strict(v):
  if isinstance(v, bool): return ("b", v)
  if isinstance(v, float):
    if v != v: return ("nan",)
    return ("f", repr(v))
  if isinstance(v, int): return ("i", v)
  if isinstance(v, (list, tuple)):
    if len(v) >= 2 and v[0] == "E": return ("E",)             # an error is an error (see assumptions)
    if len(v) == 3 and v[0] in ("r", "R") and isinstance(v[1], str):
      return (v[0], _strict(v[2]))          # reference values: the table NAME is not part of the value
    return ("l",) + tuple(_strict(x) for x in v)
  if isinstance(v, dict): return ("d",) + tuple(sorted((str(k), _strict(x)) for k, x in v.items()))
  return v


def doc_state(e):
  tabs = {t["id"]: t["tableId"] for t in eng.meta_records(e, "_grist_Tables")}
  cols = {}
  for c in eng.meta_records(e, "_grist_Tables_column"):
    cols[c["id"]] = {"table": c["parentId"], "colId": c["colId"], "type": c["type"],
                     "isFormula": c["isFormula"], "formula": c["formula"]}
  by_name = {}
  for ref, c in cols.items():
    by_name[(tabs.get(c["table"]), c["colId"])] = ref
  values = {}
  for tref, tid in tabs.items():
    if tid not in e.tables: continue
    td = e.fetch_table(tid, formulas=True)
    for cid, vals in td.columns.items():
      ref = by_name.get((tid, cid))
      if ref is None: continue
      values[ref] = {r: _strict(objtypes.encode_object(v)) for r, v in zip(td.row_ids, vals)}
    values[("rows", tref)] = list(td.row_ids)
  return {"tabs": tabs, "cols": cols, "values": values}


# ---- token-level diff ----------------------------------------------------------------------------

def _tokens(text):
  toks = list(tokenize.generate_tokens(io.StringIO(text).readline))
  lines = text.split("\n")
  offs = [0]
  for ln in lines: offs.append(offs[-1] + len(ln) + 1)
  out = []
  for t in toks:
    if t.type in (tokenize.ENDMARKER,): continue
    if t.type in (tokenize.NEWLINE, tokenize.NL) and t.string == "": continue
    out.append((t.type, t.string, offs[t.start[0] - 1] + t.start[1], offs[t.end[0] - 1] + t.end[1]))
  return out


def _str_value(tok_string):
  try:
    v = ast.literal_eval(tok_string)
    return v if isinstance(v, str) else None
  except Exception:
    return None


def token_diff(old, new, col_renames, tab_renames):
  """-> None if `new` is `old` with only permitted name tokens replaced, else an explanation.
  Returns 'untokenizable' when the OLD text is not tokenizable Python (outside the statement)."""
  try:
    a = _tokens(old)
  except Exception:
    return "untokenizable"
  try:
    b = _tokens(new)
  except Exception as ex:
    return "new text does not tokenize: %r" % (ex,)
  if len(a) != len(b):
    return "token count %d -> %d" % (len(a), len(b))
  pa = pb = 0
  for i, (x, y) in enumerate(zip(a, b)):
    if old[pa:x[2]] != new[pb:y[2]]:
      return "text between tokens changed before token %d (%r -> %r)" % (i, old[pa:x[2]], new[pb:y[2]])
    pa, pb = x[3], y[3]
    if x[0] != y[0]:
      return "token %d type changed (%r -> %r)" % (i, x[1], y[1])
    if x[1] == y[1]: continue
    prev = a[i - 1][1] if i > 0 else ""
    nxt = a[i + 1][1] if i + 1 < len(a) else ""
    if x[0] == tokenize.NAME:
      if (x[1], y[1]) in col_renames and (prev in ("$", ".") or nxt == "="): continue
      if (x[1], y[1]) in tab_renames and prev not in ("$", "."): continue
      return "name token %r -> %r is not a reference to a renamed entity (prev %r, next %r)" % (
        x[1], y[1], prev, nxt)
    if x[0] == tokenize.STRING:
      u, v = _str_value(x[1]), _str_value(y[1])
      if u is not None and v is not None and x[1][0] == y[1][0]:
        neg = u.startswith("-") and v.startswith("-")
        pair = (u[1:], v[1:]) if neg else (u, v)
        if pair in col_renames and (neg or not (u.startswith("-") or v.startswith("-"))): continue
      return "string token %s -> %s" % (x[1], y[1])
    return "token %r -> %r" % (x[1], y[1])
  if old[pa:] != new[pb:]:
    return "trailing text changed"
  return None


# ---- the clauses ---------------------------------------------------------------------------------

RENAME_KINDS = ("RenameColumn", "RenameTable")


def rename_kind(bundle):
  if len(bundle) != 1: return None
  a = bundle[0]
  if a[0] in RENAME_KINDS: return a[0]
  if a[0] == "UpdateRecord" and len(a) == 4 and isinstance(a[3], dict):
    if a[1] == "_grist_Tables_column" and set(a[3]) <= {"colId", "label", "untieColIdFromLabel"} \
        and ("colId" in a[3] or "label" in a[3]):
      return "meta-colId" if "colId" in a[3] else "label"
    if a[1] == "_grist_Tables" and set(a[3]) == {"tableId"}: return "meta-tableId"
  return None


def check_rename(pre, post):
  out = []
  if set(pre["tabs"]) != set(post["tabs"]) or set(pre["cols"]) != set(post["cols"]):
    out.append(("C16.structure_unchanged", {
      "tables": [sorted(set(pre["tabs"]) ^ set(post["tabs"]))],
      "columns": [(r, (pre["cols"].get(r) or post["cols"].get(r))["colId"])
                  for r in sorted(set(pre["cols"]) ^ set(post["cols"]))]}))
    return out, {}, {}, 0
  col_renames = {(pre["cols"][r]["colId"], post["cols"][r]["colId"])
                 for r in pre["cols"] if pre["cols"][r]["colId"] != post["cols"][r]["colId"]}
  tab_renames = {(pre["tabs"][r], post["tabs"][r]) for r in pre["tabs"]
                 if pre["tabs"][r] != post["tabs"][r]}
  for key, old in pre["values"].items():
    new = post["values"].get(key)
    if old == new: continue
    if isinstance(key, tuple):
      out.append(("C16.structure_unchanged", {"table": post["tabs"].get(key[1]), "rows": [old, new]}))
      break
    c = pre["cols"][key]
    if new is None:
      out.append(("C16.structure_unchanged", {"column": c["colId"], "why": "not fetched afterwards"}))
      break
    # a cell that already held an error (e.g. a formula naming a column that does not exist) has
    # no value to keep
    row = [r for r in old if old[r] != new.get(r) and old[r] != ("E",)][:1]
    if not row: continue
    out.append(("C16.values_unchanged", {
      "table": pre["tabs"].get(c["table"]), "column": c["colId"],
      "column_after": post["cols"][key]["colId"], "isFormula": c["isFormula"],
      "formula": c["formula"], "formula_after": post["cols"][key]["formula"],
      "row": row and row[0], "before": repr(old.get(row[0]) if row else None),
      "after": repr(new.get(row[0]) if row else None)}))
    break
  n_formulas = 0
  for ref, c in pre["cols"].items():
    f0, f1 = c["formula"], post["cols"][ref]["formula"]
    if f0 == f1 or not isinstance(f0, str) or not isinstance(f1, str): continue
    n_formulas += 1
    why = token_diff(f0, f1, col_renames, tab_renames)
    if why == "untokenizable":
      ST["untokenizable"] += 1
      continue
    if why:
      out.append(("C16.only_name_tokens_change", {
        "table": pre["tabs"].get(c["table"]), "column": c["colId"], "formula": f0,
        "formula_after": f1, "why": why, "col_renames": sorted(col_renames),
        "tab_renames": sorted(tab_renames)}))
      break
  return out, col_renames, tab_renames, n_formulas


def root_cause(d, pre, post, col_renames):
  """Names the root cause of a values_unchanged failure from the witness (never decides it)."""
  import re
  summary_refs = {t["id"] for t in []}
  olds = {o for (o, n) in col_renames}
  if "group" in olds and d.get("table", "").find("_summary") >= 0:
    return "summary-group-column-renamed"
  f0, f1 = d.get("formula"), d.get("formula_after")
  news = {n for (o, n) in col_renames}
  if news & {"order_by", "sort_by"}:
    return "column-renamed-to-lookup-keyword"
  if d.get("isFormula") and isinstance(f0, str) and f0 == f1:
    try:
      import functions
      if any(t in functions.__dict__ for t in post["tabs"].values()):
        return "formula-not-rewritten:table-named-like-a-builtin-function"
    except Exception:
      pass
    for m in re.finditer(r"for\s+(\w+)\s+in\s+(?:\$|rec\.)\w+", f0):
      if any(re.search(r"\b%s\.%s\b" % (re.escape(m.group(1)), re.escape(o)), f0) for o in olds):
        return "formula-not-rewritten:comprehension-over-reference-list-column"
    return "formula-not-rewritten"
  return None


# ------------------------------------------------------------------------------------------------
# histories
# ------------------------------------------------------------------------------------------------

F_A = [
  "$n + 1", "rec.n * 2 + len(rec.s or '')", "$r.q", "$r.back.n", "$rl.q", "[x.k for x in $rl]",
  "len(B.lookupRecords(k=$s))", "B.lookupOne(k=$s).q",
  "[x.id for x in B.lookupRecords(k=$s, order_by='-q')]",
  "[x.id for x in B.lookupRecords(q=$n, order_by=('k', '-q'))]",
  "B.lookupOne(k=$s, sort_by='q').id", "sum(b.q or 0 for b in B.all)",
  "[b.k for b in B.all if (b.q or 0) > 1]", "len(A.all)",
  "PREVIOUS(rec, order_by='n').n", "NEXT(rec, group_by='s', order_by='-n').id",
  "RANK(rec, order_by=('n',))", "RANK(rec, group_by=('s',), order_by='n')",
  "len(A.lookupRecords(r=$r))", "A.lookupOne(n=$n).s", "n = 5\nreturn n + ($n or 0)",
  "s = 'n'\nreturn s + str($n)", "# n is a column\n$n", "$n if $s else rec.n",
  "[a.n for a in A.lookupRecords(s=$s)]", "max([x.n or 0 for x in A.all] or [0])",
  "len(B.lookupRecords(back=$id))", "$f1", "($f1 or 0) + ($f2 or 0)",
  "{'n': $n}['n']", "rec . n", "A.lookupOne(n = $n) . s", "$n   +   $n  # twice",
]
F_B = [
  "$back.n", "$back.r.k", "len(A.lookupRecords(r=$id))",
  "[a.n for a in A.lookupRecords(r=rec, order_by='n')]", "A.lookupOne(s=$k).n",
  "sum(a.n or 0 for a in A.all)", "$q * 2", "len(A.lookupRecords(rl=CONTAINS($id)))",
  "A.lookupOne(r=$id, order_by='-n').n",
]


def _fcol(i, f): return _col("f%d" % i, "Any", f)

gen.SEEDS["c16_forms"] = [
  [["AddTable", "B", [_col("k", "Text"), _col("q", "Int")]],
   ["AddTable", "A", [_col("n", "Int"), _col("s", "Text"), _col("r", "Ref:B"), _col("rl", "RefList:B")]
    + [_fcol(i + 1, f) for i, f in enumerate([F_A[0], F_A[1], F_A[2], F_A[4], F_A[8], F_A[9], F_A[14],
                                              F_A[15], F_A[20], F_A[21], F_A[27], F_A[28]])]],
   ["AddColumn", "B", "back", {"type": "Ref:A", "isFormula": False}]]
  + [["AddColumn", "B", "g%d" % (i + 1), {"type": "Any", "isFormula": True, "formula": f}]
     for i, f in enumerate([F_B[0], F_B[1], F_B[3], F_B[4], F_B[7]])]
  + [["AddColumn", "A", "h1", {"type": "Any", "isFormula": True, "formula": F_A[3]}]],
  [["BulkAddRecord", "B", [None] * 3, {"k": ["a", "b", "a"], "q": [3, 1, 2]}],
   ["BulkAddRecord", "A", [None] * 4, {"n": [2, 1, 2, 5], "s": ["a", "b", "a", "c"], "r": [1, 2, 1, 3],
                                       "rl": [["L", 1, 2], None, ["L", 3], ["L", 2, 3]]}],
   ["BulkUpdateRecord", "B", [1, 2, 3], {"back": [2, 1, 4]}]],
  [["CreateViewSection", 2, 0, "record", [6], None]],      # summary of A by s (column ref 6)
]

TARGETS = ["n", "s", "m", "x", "nn", "New Col", "class", "1a", "_u", "é", "N", "id", "group", "",
           "rec", "q", "k", "A", "B", "lookupRecords", "n2", "f1", "order_by"]
TABLE_TARGETS = ["A", "B", "C", "Renamed", "x y", "class", "a", "Table1", "", "n", "Bb"]


class C16Monitor(explore.Monitor):
  seeds = ("c16_forms", "lookup", "prevnext", "refs", "summary", "basic")
  length = 8
  # the mix is renames + record edits + new formula columns; column type / formula-kind changes,
  # column removals and ReplaceTableData are left out: a rename recomputes everything, so any
  # value left stale by an unrelated defect (C13 findings) would be blamed on the rename
  weights = {"rename_col": 10, "rename_table": 5, "label": 4, "meta_update": 0, "update": 8,
             "add": 5, "remove": 3, "modify_formula": 0, "add_formula_col": 4, "modify_type": 0,
             "summary": 1, "view": 0, "remove_col": 0, "remove_table": 0, "to_formula": 0,
             "to_data": 0, "replace_data": 0, "multi": 0, "invalid": 1, "add_col": 3}

  def start(self, e, seed_name):
    return {"seed": seed_name, "k": 0}

  def gen_bundle(self, st, e, g):
    st["exploring"] = True
    rng = g.rng
    x = rng.random()
    uts = eng.user_tables(e)
    if uts and x < 0.5:
      t = rng.choice(uts)
      cols = [c for c in e.schema[t].columns.values() if c.colId not in ("id", "manualSort")
              and not c.colId.startswith("gristHelper")]
      y = rng.random()
      if cols and y < 0.45:
        return [["RenameColumn", t, rng.choice(cols).colId, rng.choice(TARGETS)]]
      if y < 0.6:
        return [["RenameTable", t, rng.choice(TABLE_TARGETS)]]
      if cols and y < 0.75:
        ref = eng.col_ref(e, t, rng.choice(cols).colId)
        if ref: return [["UpdateRecord", "_grist_Tables_column", ref, {"colId": rng.choice(TARGETS)}]]
      if cols and y < 0.9:
        ref = eng.col_ref(e, t, rng.choice(cols).colId)
        vals = {"label": rng.choice(TARGETS)}
        if rng.random() < 0.3: vals["untieColIdFromLabel"] = rng.random() < 0.5
        if ref: return [["UpdateRecord", "_grist_Tables_column", ref, vals]]
      tr = eng.table_ref(e, t)
      if tr: return [["UpdateRecord", "_grist_Tables", tr, {"tableId": rng.choice(TABLE_TARGETS)}]]
    if st["seed"] == "c16_forms" and x < 0.62 and "A" in e.tables and "B" in e.tables:
      st["k"] += 1
      t, pool = ("A", F_A) if rng.random() < 0.7 else ("B", F_B)
      fcols = [c.colId for c in e.schema[t].columns.values() if c.isFormula and
               c.colId[:1] in "fgh" and c.colId[1:].isdigit()]
      if fcols and rng.random() < 0.6:
        return [["ModifyColumn", t, rng.choice(fcols), {"formula": rng.choice(pool)}]]
      return [["AddColumn", t, "f%d" % (40 + st["k"]), {"type": "Any", "isFormula": True,
                                                       "formula": rng.choice(pool)}]]
    return g.bundle(e)

  def before(self, st, e, bundle):
    st["kind"] = rename_kind(bundle)
    st["pre"] = doc_state(e)

  def after(self, st, e, bundle, group, exc):
    if st.get("tainted"): return []
    pre, st["pre"] = st["pre"], None
    if exc is not None:
      # a failed bundle must leave no trace (C04); if it did, later comparisons would blame the
      # next rename for it: stop checking this history
      if doc_state(e) != pre:
        st["tainted"] = True
        ST["tainted_by_failed_bundle"] += 1
      return []
    if not st.get("kind"): return []
    post = doc_state(e)
    res = check_rename(pre, post)
    fails = res[0]
    ST["renames_checked"] += 1
    if len(res) > 3:
      if res[1] or res[2]: ST["renames_effective"] += 1
      ST["formulas_rewritten"] += res[3]
    if not fails: return []
    _flush()
    for clause, d in fails:
      d = dict(d); d["kind"] = st["kind"]
      if clause == "C16.values_unchanged": d["root"] = root_cause(d, pre, post, res[1])
      k = (clause, self.classify(clause, d, bundle, None))
      if st.get("exploring") and k in _known_classes() and k in _REPORTED:
        st["tainted"] = True      # formulas are broken from here on; later diffs are consequences
        continue
      _REPORTED.add(k)
      return [(clause, d)]
    return []

  def finish(self, st, e):
    _flush()
    return []

  def nontrivial(self, st, bundle, group, exc):
    return bool(rename_kind(bundle)) and exc is None and bool(group and group.stored)

  def classify(self, clause, detail, bundle, history):
    if "_summary_summary_" in str(detail.get("table", "")) and not detail.get("root"):
      # a summary table whose SOURCE is itself a summary table (CreateViewSection on a summary
      # table's ref with group-by columns): accepted by the engine, not followed by renames
      return "%s:summary-of-a-summary-table" % clause.split(".", 1)[1]
    if not detail.get("root") and not detail.get("isFormula"):
      # a stored reference LIST whose members are the same but come back in another order
      try:
        import ast as _ast
        b, a = _ast.literal_eval(detail.get("before", "")), _ast.literal_eval(detail.get("after", ""))
        if isinstance(b, tuple) and isinstance(a, tuple) and b[:2] == ("l", "L") == a[:2] and \
            b != a and sorted(map(repr, b[2:])) == sorted(map(repr, a[2:])):
          return "%s:stored-reference-list-reordered" % clause.split(".", 1)[1]
      except Exception:
        pass
    return "%s:%s" % (clause.split(".", 1)[1], detail.get("root") or detail.get("kind"))


ST = {"renames_checked": 0, "renames_effective": 0, "formulas_rewritten": 0, "untokenizable": 0,
      "tainted_by_failed_bundle": 0}
_REPORTED = set()
_KNOWN = []

def _known_classes():
  if not _KNOWN:
    _KNOWN.append({(f["match"].get("obligation"), f["match"].get("class"))
                   for f in common.load_known_findings("C16")})
  return _KNOWN[0]


def _flush():
  d = os.environ.get("C16_COUNT_DIR")
  if not d: return
  with open(os.path.join(d, "%d.json" % os.getpid()), "w") as f:
    json.dump(ST, f)


def main():
  import shutil, tempfile
  rep = common.Report("C16", "exploration")
  rep.assumptions += [
    common.SHIM_ASSUMPTION,
    "bounded: seeded random histories over seed documents c16_forms (two tables whose formulas use "
    "$col, rec.col, ref chains, RefList attributes, lookupRecords/lookupOne keywords, order_by / "
    "sort_by / group_by strings and tuples, .all, comprehensions, PREVIOUS/NEXT/RANK, locals and "
    "strings that merely look like a column name, comments, odd spacing; a summary table), lookup, "
    "prevnext, refs, summary, basic; renames through RenameColumn, RenameTable, colId / tableId "
    "metadata updates and label changes, to %d column and %d table target names incl. ones needing "
    "sanitising or disambiguation; formulas are also replaced/added from the pools between renames; "
    "not a proof" % (len(TARGETS), len(TABLE_TARGETS)),
    "the clause is evaluated for successful bundles of exactly one rename action; formula texts "
    "that are not tokenizable Python are outside the token clause (counted)",
    "a cell holding an error before and after counts as unchanged (the error type of an already "
    "broken formula may legitimately differ after a full recomputation); reference values are "
    "compared by row ids (their encoding carries the table name)",
    "action mix: renames, record edits, new columns; no column type / formula-kind changes, column "
    "removals or ReplaceTableData (values left stale by the C13 findings would surface at the next "
    "rename, which recomputes everything)"]
  rep.coverage["rule"] = (
    "one evaluation = one successful single-rename bundle with all cells and all formula texts "
    "compared through the rename; non-trivial = the bundle changed the document")
  d = tempfile.mkdtemp(prefix="c16-count-")
  os.environ["C16_COUNT_DIR"] = d
  tot = dict.fromkeys(ST, 0)
  try:
    explore.explore(rep, "checks.C16", "C16Monitor", n_quick=600, n_thorough=8000,
                    budget_quick_s=50, budget_thorough_s=800)
    for f in os.listdir(d):
      with open(os.path.join(d, f)) as fh:
        for k, v in json.load(fh).items(): tot[k] += v
  finally:
    shutil.rmtree(d, ignore_errors=True)
  cov = rep.coverage
  cov["history_bundles"] = cov.get("evaluations", 0)
  cov["evaluations"] = tot["renames_checked"]
  cov["distinct_nontrivial"] = min(cov.get("distinct_nontrivial", 0), tot["renames_effective"])
  cov["renames_that_changed_an_id"] = tot["renames_effective"]
  cov["formula_texts_rewritten_and_token_checked"] = tot["formulas_rewritten"]
  cov["untokenizable_formulas_skipped"] = tot["untokenizable"]
  cov["histories_abandoned_after_a_failed_bundle_left_a_trace"] = tot["tainted_by_failed_bundle"]
  cov["exhaustive"] = False
  if tot["renames_checked"] == 0:
    rep.undecided_obligation("C16.values_unchanged", "no rename bundle was checked")
  return rep.finish()


if __name__ == "__main__":
  sys.exit(main())
