"""C41 fetch_table queries return exactly the matching rows — deductive (tier P) + bounded twin on
the real engine (supplies failing inputs; never counted as proved)."""
import itertools, os, sys
sys.path.insert(0, os.path.dirname(os.path.dirname(os.path.abspath(__file__))))
from vlib import common
from vlib.pysym import runner


def _engine_cases(tier, seed):
  """All queries over a fixed small document: table T with columns a (Any, may hold lists),
  b (Int), f (formula), plus a private-helper check through the flags."""
  cells_a = [1, "x", None, ["L", 1], ["L"], 2.0]
  cells_b = [0, 1, 2]
  rows_opts = [3] if tier == "quick" else [3, 4]
  qvals = [[1], ["x", 1], [["L", 1]], [["L", 1], 1], [None], [], [2.0, "y"], [["L"], ["L", 1]]]
  for n in rows_opts:
    combos = list(itertools.product(cells_a, repeat=n))
    step = 1 if tier != "quick" else 5
    for ci, acol in enumerate(combos):
      if ci % step: continue
      bcol = [cells_b[(ci + i) % 3] for i in range(n)]
      for qa in [None] + qvals:
        for qb in (None, [1], [0, 2], []):
          for formulas in (True, False):
            q = {}
            if qa is not None: q["a"] = qa
            if qb is not None: q["b"] = qb
            yield dict(a=list(acol), b=bcol, query=q or None, formulas=formulas)
      # queries on the row id itself (alone and combined), incl. repeats and unhashable members
      for qid in ([1], [3, 1], [1, 3, 4], [4, 4, 1, ["L", 1]], [3, 3], [7], []):
        for qb in (None, [0, 1]):
          q = {"id": qid}
          if qb is not None: q["b"] = qb
          yield dict(a=list(acol), b=bcol, query=q, formulas=True)


def _call(a):
  from vlib.rtc import eng
  import objtypes
  e = eng.new_engine()
  eng.apply(e, [["AddTable", "T", [{"id": "a", "type": "Any", "isFormula": False, "formula": ""},
                                   {"id": "b", "type": "Int", "isFormula": False, "formula": ""},
                                   {"id": "f", "type": "Any", "isFormula": True, "formula": "$b + 1"}]],
                ["BulkAddRecord", "T", [None] * len(a["a"]), {"a": a["a"], "b": a["b"]}]])
  if len(a["a"]) > 2:
    eng.apply(e, [["RemoveRecord", "T", 2]])       # a gap in the row ids
  query = None
  if a["query"] is not None:
    query = {k: [objtypes.decode_object(v) for v in vs] for k, vs in a["query"].items()}
  td = e.fetch_table("T", formulas=a["formulas"], query=query)
  full = e.fetch_table("T", formulas=True, private=True)
  return td, full, query


def _spec_rows(full, query):
  """Linear-scan definition from the statement (== on each requested value, no hashing)."""
  out = []
  for i, r in enumerate(full.row_ids):
    ok = True
    for col, vals in (query or {}).items():
      cell = r if col == "id" else full.columns[col][i]
      if not any(cell is v or cell == v for v in vals):
        ok = False
    if ok: out.append(r)
  return out


def _ens_rows(a, res):
  td, full, query = res
  exp = _spec_rows(full, query)
  return True if list(td.row_ids) == exp else "row ids %r, expected %r" % (td.row_ids, exp)


def _ens_cols(a, res):
  td, full, query = res
  exp = {"a", "b", "manualSort"} | ({"f"} if a["formulas"] else set())
  if set(td.columns) != exp: return "columns %r, expected %r" % (sorted(td.columns), sorted(exp))
  for c, vals in td.columns.items():
    want = [full.columns[c][full.row_ids.index(r)] for r in td.row_ids]
    if repr(vals) != repr(want): return "column %s not aligned" % c
  return True


def main():
  common.setup_grist_path()
  rep = common.Report("C41", "proof")
  rep.assumptions += [
    "environment model of contracts/C41_fetch_table.py: table.row_ids iterates strictly "
    "increasing ints (RowIDs view), all_columns has distinct col ids, raw_get/is_formula/"
    "is_private/col_id are pure reads",
    "value lists are used only through set(vl) and `in`: set(vl) raises TypeError iff a member is "
    "unhashable; x in <set> raises TypeError iff x is unhashable; for hashable x membership in "
    "set(vl) equals membership in vl (hash consistent with ==); an unhashable value is never "
    "equal to a hashable one",
    "int is mathematical",
    common.SHIM_ASSUMPTION + " (bounded twin only)",
  ]
  rep.coverage["rule"] = ("proof: one obligation per (clause, path) of Engine.fetch_table for a "
                          "symbolic number of rows, query columns and values. bounded twin: the "
                          "real engine on a 3-column table with every combination of 6 cell "
                          "values (incl. unhashable lists) x 9x4 queries x formulas flag; "
                          "non-trivial = distinct (cells, query) with a non-empty query")
  runner.run_property(rep, "contracts.C41_fetch_table", bounded=False)
  runner.run_property(rep, "contracts.L_store", bounded=False, only=["L.rowids.iter", "L.rowids.contains"])
  from vlib.rtc import fn
  c = fn.FnContract("engine.Engine.fetch_table", _call,
                    ensures={"C41.rows_exact_in_order-bounded": _ens_rows,
                             "C41.columns_by_flags-bounded": _ens_cols},
                    nontrivial=lambda a, r, exc: a["query"] is not None)
  fn.check(rep, c, _engine_cases, exhaustive=False, limit_quick_s=40, warm_engine=True)
  return rep.finish()


if __name__ == "__main__":
  sys.exit(main())
