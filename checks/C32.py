"""C32 CSV import keeps every cell — bounded run-time contract on the REAL
imports.import_csv._parse_open_file.

Input of one case: a grid of text cells (rectangular or ragged), a delimiter, a quote character and
the headers setting.  The grid is written with csv.writer(delimiter=, quotechar=) into a text
buffer and given to _parse_open_file with parse options
{delimiter, quotechar, include_col_names_as_headers}.

ensures (names are the obligations reported):
  C32.equal_length_columns    one table (or none), column_metadata and table_data have the same
                              number of columns, all columns have the same length
  C32.one_entry_per_data_row  that length == number of data rows (all rows when headers are off,
                              all rows but the first when they are on)
  C32.cells_in_place          the output columns are, in order, grid columns; every grid column's
                              cells (short rows padded with '') are equal, as str, row by row
  C32.kept_columns            every grid column with a header (non-blank text in the header row) or
                              a non-empty data cell is present, and carries its header text (modulo
                              surrounding white space) as id; no table at all is returned only when
                              no column has to be kept
raises: nothing is allowed.

Failures are classified by the smallest set of *known* defect shapes (see known_findings.d/C32.json)
that fully explains the output; a failure that these do not fully explain is 'unexplained' and is
reported as a violation."""
import csv
import io
import itertools
import os
import random
import sys

sys.path.insert(0, os.path.dirname(os.path.dirname(os.path.abspath(__file__))))
from vlib import common
from vlib.rtc import fn
from contracts import C32_driver as driver

common.setup_grist_path()
import logging
logging.disable(logging.CRITICAL)
from imports import import_csv      # REAL module from the working tree


# ---------------------------------------------------------------------------------------------
# the call

def write_csv(grid, delimiter, quotechar):
  buf = io.StringIO(newline='')
  csv.writer(buf, delimiter=delimiter, quotechar=quotechar).writerows(grid)
  return buf.getvalue()


def call(a):
  text = write_csv(a["grid"], a["delimiter"], a["quotechar"])
  f = io.StringIO(text, newline='')
  opts = {"delimiter": a["delimiter"], "quotechar": a["quotechar"],
          "include_col_names_as_headers": a["headers"]}
  _options, tables = import_csv._parse_open_file(f, parse_options=opts)
  return tables


# ---------------------------------------------------------------------------------------------
# the postcondition, written from the statement

def split_grid(grid, headers):
  if headers and grid:
    return list(grid[0]), [list(r) for r in grid[1:]]
  return [], [list(r) for r in grid]


def verify(grid, headers, tables):
  """-> list of (clause, detail).  Empty when the output satisfies the statement for this grid."""
  header, data = split_grid(grid, headers)
  n = len(data)
  width = max([len(header)] + [len(r) for r in data])
  def hdr(j): return header[j].strip() if j < len(header) else ''
  def col(j): return [r[j] if j < len(r) else '' for r in data]
  required = [j for j in range(width) if hdr(j) or any(c != '' for c in col(j))]
  out = []
  if not isinstance(tables, list) or len(tables) > 1:
    return [("C32.equal_length_columns", "expected a list of at most one table, got %r" % (tables,))]
  if not tables:
    if required:
      j = required[0]
      out.append(("C32.kept_columns", "no table returned, but grid column %d has %s" % (
        j, ("header %r" % hdr(j)) if hdr(j) else "a non-empty cell")))
    return out
  t = tables[0]
  meta, cols = t.get("column_metadata"), t.get("table_data")
  if len(meta) != len(cols):
    out.append(("C32.equal_length_columns", "%d metadata entries, %d data columns" % (len(meta), len(cols))))
    return out
  lens = sorted(set(len(c) for c in cols))
  if len(lens) > 1:
    out.append(("C32.equal_length_columns", "column lengths %r" % (lens,)))
    return out
  if lens and lens[0] != n:
    out.append(("C32.one_entry_per_data_row", "%d data rows, columns have %d entries" % (n, lens[0])))
  # alignment of output columns with grid columns (output = order-preserving subsequence)
  p = 0
  for j in range(width):
    want_id, want = hdr(j), col(j)
    have = p < len(cols) and meta[p].get("id") == want_id and cols[p] == want and \
        all(type(v) is str for v in cols[p])
    if have:
      p += 1
      continue
    if j in required:
      if p < len(cols) and cols[p] == want:
        out.append(("C32.kept_columns", "grid column %d: id %r, expected header %r" % (
          j, meta[p].get("id"), want_id)))
        p += 1
        continue
      # say precisely what is missing
      where = None
      if p < len(cols) and len(cols[p]) == len(want):
        bad = [i for i in range(len(want)) if cols[p][i] != want[i]]
        where = "row %d: %r instead of %r" % (bad[0], cols[p][bad[0]], want[bad[0]]) if bad else None
      present_somewhere = any(c == want for c in cols)
      clause = "C32.cells_in_place" if (where or not present_somewhere and p < len(cols)) \
          else "C32.kept_columns"
      out.append((clause, "grid column %d (header %r) not found at output position %d%s" % (
        j, want_id, p, (": " + where) if where else "")))
      return out
  if p < len(cols):
    extra = [q for q in range(p, len(cols)) if meta[q].get("id") or any(v != '' for v in cols[q])]
    if extra:
      out.append(("C32.cells_in_place", "output column %d (id %r) matches no grid column" % (
        extra[0], meta[extra[0]].get("id"))))
  return out


# ---------------------------------------------------------------------------------------------
# classification of a failure: which known defect shapes fully explain the output?

def _blank(c): return not c.strip()

def _count_nonblank(row): return sum(1 for c in row if not _blank(c))

def _last_nonblank(row):
  k = 0
  for i, c in enumerate(row):
    if not _blank(c): k = i + 1
  return k

def _first_full_row(grid):
  counts = {}
  for r in grid[:100]:
    c = _count_nonblank(r)
    if c > 1: counts[c] = counts.get(c, 0) + 1
  if not counts: return 0
  m = max(counts.items(), key=lambda kv: kv[1])[0]
  for i, r in enumerate(grid[:100]):
    if _last_nonblank(r) >= m - 1: return i
  return 0

def _needs_quotes(c, d, q): return any(ch in c for ch in (d, q, '\r', '\n'))


def explain(a, tables):
  """Returns the list of known-defect shapes (smallest set, fixed priority) that together make the
  real output correct for this input, or None when no combination does.

  Shapes (all stated on the INPUT, none reads the importer's intermediate results):
   lead-short  some of the first 100 rows have 2+ non-blank cells; m = the most frequent such count
               (first seen wins ties); the k>=1 rows before the first row whose last non-blank
               cell is at position >= m-1 are dropped; a table is returned
   lead-blank  headers off, no row with 2+ non-blank cells, the first row has no non-blank cell:
               that one row is dropped; a table is returned
   no-table    headers off, no row with 2+ non-blank cells, the first line is empty: no table
   width       all rows cut to W = the largest position of a non-blank cell in the first 100 rows
               (or the length of the first kept row / of the dropped blank row if larger); every non-empty cell lost this way
               lies in a row after the first 100 (late) or is white space only (ws)
   skipspace   every cell written without quotes loses its leading spaces"""
  grid, headers, d, q = a["grid"], a["headers"], a["delimiter"], a["quotechar"]
  has_multi = any(_count_nonblank(r) >= 2 for r in grid[:100])
  found = []
  for skip in (False, True):
    if skip:
      if not any(c.startswith(' ') and not _needs_quotes(c, d, q) for r in grid for c in r):
        continue
      g1 = [[c if _needs_quotes(c, d, q) else c.lstrip(' ') for c in r] for r in grid]
    else:
      g1 = grid
    ks = [0]
    if tables:
      if has_multi:
        k = _first_full_row(g1)
        if k: ks.append(k)
      elif not headers and len(g1) > 1 and _last_nonblank(g1[0]) == 0:
        ks.append(1)
    for k in ks:
      g2 = g1[k:]
      variants = [("", g2)]
      if not tables and k == 0 and not headers and g2 and g2[0] == [] and not has_multi:
        variants.append(("no-table", []))
      for tag, g3 in variants:
        wsample = max([0] + [_last_nonblank(r) for r in g3[:max(0, 100 - k)]])
        wcands = sorted(set([wsample, max(wsample, len(g3[0]) if g3 else 0),
                             max(wsample, len(g1[k - 1]) if k else 0)]), reverse=True)
        for W in [None] + wcands:
          lost_late = lost_ws = lost_other = 0
          if W is None:
            g4 = g3
          else:
            if headers and g3 and len(g3[0]) > W: continue      # header cells are never cut
            g4 = []
            for i, r in enumerate(g3):
              for c in r[W:]:
                if c == '': continue
                if _blank(c): lost_ws += 1
                elif i + k >= 100: lost_late += 1
                else: lost_other += 1
              g4.append(r[:W])
            if lost_other or not (lost_late or lost_ws): continue
          if verify(g4, headers, tables):
            continue
          causes = []
          if k:
            causes.append("leading-rows-dropped:short-rows-before-first-full-row" if has_multi
                          else "leading-rows-dropped:blank-first-row-when-no-row-has-2-cells")
          if tag == "no-table":
            causes.append("no-table:empty-first-line-and-no-row-with-2-cells")
          if W is not None and lost_late:
            causes.append("beyond-guessed-width:row-after-the-100-row-sample")
          if W is not None and lost_ws:
            causes.append("beyond-guessed-width:trailing-whitespace-only-cell")
          if skip:
            causes.append("leading-spaces-stripped:sniffed-skipinitialspace")
          if causes:
            found.append((len(causes), [PRIORITY.index(c) for c in causes], causes))
  if not found:
    return None
  return min(found)[2]


PRIORITY = ["beyond-guessed-width:row-after-the-100-row-sample",
            "leading-rows-dropped:short-rows-before-first-full-row",
            "leading-rows-dropped:blank-first-row-when-no-row-has-2-cells",
            "no-table:empty-first-line-and-no-row-with-2-cells",
            "beyond-guessed-width:trailing-whitespace-only-cell",
            "leading-spaces-stripped:sniffed-skipinitialspace"]


_cache = {}

def _failures(a, tables):
  key = id(tables)
  hit = _cache.get("k")
  if hit is not None and hit[0] == key and hit[1] is tables:
    return hit[2]
  fs = verify(a["grid"], a["headers"], tables)
  _cache["k"] = (key, tables, fs)
  return fs


def _clause(name):
  def pred(a, tables):
    for c, detail in _failures(a, tables):
      if c == name: return detail
    return True
  return pred


CLAUSES = ("C32.equal_length_columns", "C32.one_entry_per_data_row", "C32.cells_in_place",
           "C32.kept_columns")


def classify(a, clause, detail):
  if clause not in CLAUSES:
    return clause
  try:
    tables = call(a)
  except Exception:
    return "unexplained"
  causes = explain(a, tables)
  if not causes:
    return "unexplained"
  return causes[0]


def show(a):
  g = a["grid"]
  if len(g) > 12:
    # long grids are generated from a recipe; show the recipe and the interesting rows
    return {"recipe": a.get("recipe"), "rows": len(g), "headers": a["headers"],
            "delimiter": a["delimiter"], "quotechar": a["quotechar"],
            "first_rows": g[:3], "widest_row": max(enumerate(g), key=lambda ir: len(ir[1]))}
  return {"grid": g, "headers": a["headers"], "delimiter": a["delimiter"],
          "quotechar": a["quotechar"]}


def nontrivial(a, result, exc):
  return any(c != '' for r in a["grid"] for c in r)


CONTRACT = fn.FnContract(
  name="imports.import_csv._parse_open_file",
  call=call,
  ensures={c: _clause(c) for c in CLAUSES},
  raises={},
  classify=classify,
  nontrivial=nontrivial,
  show=show)


# ---------------------------------------------------------------------------------------------
# the bound

POOL6 = ['', 'a', '1', ' ', ' b', 'x,"\ny']
POOL3 = ['', 'a', '1']
POOL4 = ['', 'a', '1', ' b']
ALPHABET = ['a', 'b', 'Z', '0', '1', '7', ' ', ' ', ',', ';', '\t', '|', ':', '"', "'", '\n', '\r',
            '-', '.', 'é', '中', '\U0001f600', '\\', '=', '\x00', 'n', '/']
DELIMS = [',', ';', '\t', '|', ':']
QUOTES = ['"', "'"]


def _rows(pool, maxcols):
  out = []
  for w in range(maxcols + 1):
    out.extend(list(p) for p in itertools.product(pool, repeat=w))
  return out


def _small_grids(pool, maxrows, maxcols):
  rows = _rows(pool, maxcols)
  for n in range(maxrows + 1):
    for g in itertools.product(rows, repeat=n):
      yield [list(r) for r in g]


def _rand_cell(rng):
  k = rng.random()
  if k < 0.15: return ''
  if k < 0.35: return rng.choice(['a', 'b', 'abc', '1', '2.5', '-3', 'x y', 'True', '2020-01-01'])
  return ''.join(rng.choice(ALPHABET) for _ in range(rng.randint(1, 6)))


def _rand_grid(rng):
  nrows = rng.choice([0, 1, 2, 3, 3, 4, 5, 6, 8, 12])
  base = rng.randint(0, 6)
  ragged = rng.random() < 0.5
  g = []
  for _ in range(nrows):
    w = base if not ragged else max(0, base + rng.choice([-2, -1, 0, 0, 0, 1, 2]))
    g.append([_rand_cell(rng) for _ in range(w)])
  if rng.random() < 0.3 and g:       # a plausible header row
    g[0] = ["h%d" % i for i in range(len(g[0]))]
  return g


def _late_wide(n, w, late, extra, fill):
  """n rows of w cells; row `late` has `extra` more cells."""
  g = []
  for i in range(n):
    r = ["%s%d_%d" % (fill, i, j) for j in range(w)]
    if i == late:
      r += ["EXTRA%d" % j for j in range(extra)]
    g.append(r)
  return g


def cases(tier, seed):
  quick = tier == "quick"
  # (E) exhaustive small grids, delimiter ',' quote '"', both header settings
  spaces = [(POOL6, 3, 2), (POOL3, 3, 3)] if quick else [(POOL6, 3, 2), (POOL4, 3, 3), (POOL3, 4, 3)]
  for pool, mr, mc in spaces:
    for g in _small_grids(pool, mr, mc):
      for h in (False, True):
        yield {"grid": g, "headers": h, "delimiter": ',', "quotechar": '"'}
  # (W) long grids whose widest row lies around / after the 100-row sample
  for n in (101, 110, 130):
    for w in (1, 2, 3):
      for late in (0, 50, 99, 100, n - 1):
        for extra in (1, 2):
          for h in (False, True):
            for fill in ("v", "7"):
              yield {"grid": _late_wide(n, w, late, extra, fill), "headers": h, "delimiter": ',',
                     "quotechar": '"',
                     "recipe": "late_wide(n=%d,w=%d,late=%d,extra=%d,fill=%r)" % (n, w, late, extra, fill)}
  # (W2) very long grids: the importer also samples the first 1000 rows (type guessing), so the
  # widest row is placed around / after that boundary too
  for n in ((1005, 1200) if quick else (1001, 1005, 1100, 1200, 2100)):
    for w in (2, 3):
      for late in (998, 999, 1000, 1001, n - 1):
        if late >= n: continue
        for h in (False, True):
          yield {"grid": _late_wide(n, w, late, 2, "v"), "headers": h, "delimiter": ',',
                 "quotechar": '"',
                 "recipe": "late_wide(n=%d,w=%d,late=%d,extra=2,fill='v')" % (n, w, late)}
  # (R) seeded random grids, any characters, several delimiters / quote characters
  rng = random.Random(1000003 * seed + 32)
  for _ in range(3000 if quick else 400000):
    g = _rand_grid(rng)
    yield {"grid": g, "headers": rng.random() < 0.5, "delimiter": rng.choice(DELIMS),
           "quotechar": rng.choice(QUOTES)}
  # (RL) seeded random long grids (101-130 rows)
  for _ in range(60 if quick else 3000):
    n = rng.randint(101, 130)
    w = rng.randint(1, 4)
    g = [[_rand_cell(rng) or 'c' for _ in range(w)] for _ in range(n)]
    for _ in range(rng.randint(0, 3)):
      i = rng.randrange(n)
      g[i] = g[i] + [_rand_cell(rng) or 'e' for _ in range(rng.randint(1, 2))]
    yield {"grid": g, "headers": rng.random() < 0.5, "delimiter": rng.choice(DELIMS),
           "quotechar": rng.choice(QUOTES), "recipe": "random long grid"}


def main():
  rep = common.Report("C32", "exploration")
  quick = common.tier() == "quick"
  rep.assumptions += [
    "bounded, not a proof: exhaustive over the stated small grids, seeded sampling above that",
    "the CSV text is produced by Python's csv.writer (QUOTE_MINIMAL, doublequote, \\r\\n line "
    "ends) with the given delimiter and quote character and read from io.StringIO(newline='')",
    "parse options given: delimiter, quotechar, include_col_names_as_headers only; every other "
    "option is left to the importer's own guess (that is the statement's setting)",
    "a header counts as present when the header cell is not blank; ids are compared modulo "
    "surrounding white space",
  ]
  rep.coverage["rule"] = (
    "one evaluation = one (grid, delimiter, quotechar, headers) case through the real "
    "_parse_open_file with all four clauses checked; non-trivial = the grid has a non-empty cell; "
    "distinct by the repr of the case")
  rep.coverage["bound"] = {
    "exhaustive": ("all ragged grids with <=3 rows x <=2 cells over %r and <=3 x <=3 over %r" % (POOL6, POOL3))
      if quick else ("all ragged grids with <=3 rows x <=2 cells over %r, <=3 x <=3 over %r and <=4 x <=3 over %r" % (POOL6, POOL4, POOL3)),
    "long": "540 grids of 101/110/130 rows with one wider row at 0/50/99/100/last, grids of 1005/1200 "
            "rows (thorough: up to 2100) with the wider row at 998..1001/last, + random long grids",
    "random": "%d seeded random grids (<=12 rows, <=8 cells, %d-symbol alphabet, delimiters %r, quotes %r)" % (
      3000 if quick else 400000, len(ALPHABET), DELIMS, QUOTES)}
  driver.check(rep, CONTRACT, cases, exhaustive=False)
  rep.coverage["exhaustive"] = False
  return rep.finish()


if __name__ == "__main__":
  sys.exit(main())
