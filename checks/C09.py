"""C09 Metadata references always resolve — bounded run-time contract (invariant) on the real
Engine.apply_user_actions, evaluated after every SUCCESSFUL bundle.

  C09.refs_resolve              derived mechanically from schema.schema_create_actions(): every cell
                                of every Ref:X column of every _grist_* table is 0 or the id of an
                                existing record of X; every cell of a RefList:X column is empty or a
                                list of ids of existing records of X
  and the statement's specific clauses
  C09.column_has_table          _grist_Tables_column.parentId is non-zero (and resolves)
  C09.field_col_in_section_table  a field's parentId (section) and colRef are non-zero, and the
                                column belongs to the section's table
  C09.section_has_table         a section's tableRef is non-zero (its view may be 0: raw and
                                record-card sections live outside any view)
  C09.table_has_raw_section     every _grist_Tables record has a non-zero rawViewSectionRef whose
                                section shows that table; a non-zero recordCardViewSectionRef shows
                                that table too
  C09.one_record_per_user_table the user tables of the engine and the tableIds of _grist_Tables
                                records are in one-to-one correspondence
  C09.helper_cols_used          every gristHelper_Display* / gristHelper_ConditionalRule* /
                                gristHelper_RowConditionalRule* column is referenced by the
                                displayCol or rules of some column, field or section
  C09.section_has_view          a section on no view (parentId 0) is the raw or record-card section
                                of some table ("sections [point] to their table and view")

Three parts: (1) seeded random histories (explore), (2) an EXHAUSTIVE sweep of every single removal
action applicable to every seed document (removal_sweep: each column, pair of columns of one table,
table, section, view, page, field and helper column), (3) fixed witness histories of known findings
the random part does not reach.

Seed documents 'field_display' and 'views' give FIELDS their own visible column + display helper
(several reference columns of _grist_Views_section_field and _grist_Views_section pointing at
_grist_Tables_column rows), laid out so that row ids COINCIDE across metadata tables (field #8 <->
column #8, section #4 <-> column #4 ...): back-reference clean-up that mixes up row ids of different
tables only shows there.

Bound: the generator only writes reference values that exist at the time of writing (no
deliberately dangling ids, fields only get columns of their section's table): the property is about
what the ENGINE's cascades leave behind, not about garbage written by the caller."""
import os, re, sys
sys.path.insert(0, os.path.dirname(os.path.dirname(os.path.abspath(__file__))))
from vlib import common
from vlib.rtc import eng, explore, gen

ALL_SEEDS = ("basic", "refs", "lookup", "summary", "twoway", "twoway_list", "choices", "views",
             "refs_into_summary", "field_display", "field_display_wide")

# A seed document of our own: two tables with a Ref between them, an extra page with two sections,
# a summary section, a display column for the Ref, a conditional rule on a column and on a field.
gen.SEEDS.setdefault("views", [
  [["AddTable", "A", [gen._col("n", "Int"), gen._col("s", "Text")]],
   ["AddTable", "B", [gen._col("r", "Ref:A"), gen._col("rl", "RefList:A"), gen._col("t", "Text")]]],
  [["BulkAddRecord", "A", [None, None, None], {"n": [1, 2, 3], "s": ["a", "b", "c"]}],
   ["BulkAddRecord", "B", [None, None], {"r": [1, 2], "rl": [["L", 1, 2], ["L", 3]], "t": ["x", "y"]}]],
  [["CreateViewSection", 2, 0, "record", None, None]],
  [["CreateViewSection", 1, 3, "detail", None, None]],
  [["CreateViewSection", 1, 3, "record", [2], None]],
  [["UpdateRecord", "_grist_Tables_column", 5, {"visibleCol": 3}],
   ["SetDisplayFormula", "B", None, 5, "$r.s"]],
  [["UpdateRecord", "_grist_Views_section_field", 16, {"visibleCol": 2}],
   ["SetDisplayFormula", "B", 16, None, "$r.n"]],
  [["AddEmptyRule", "B", 0, 7]],
  [["AddEmptyRule", "A", 1, 0]],
])


# A document whose removals CASCADE: a summary table that exists only through one widget, and a
# reference column of another table pointing into it with a visible column + display helper column
# (removing the widget auto-removes the summary table, which converts the reference column, which
# in turn must drop its display helper).  Table refs: Orders=1, summary=2, Notes=3.
gen.SEEDS.setdefault("refs_into_summary", [
  [["AddTable", "Orders", [gen._col("city", "Text"), gen._col("amount", "Int")]],
   ["BulkAddRecord", "Orders", [None, None, None], {"city": ["Rome", "Oslo", "Rome"], "amount": [1, 2, 3]}]],
  [["CreateViewSection", 1, 0, "record", [2], None]],
  [["AddTable", "Notes", [gen._col("about", "Ref:Orders_summary_city"), gen._col("t", "Text")]],
   ["BulkAddRecord", "Notes", [None, None], {"about": [1, 2], "t": ["x", "y"]}]],
])


# Documents in which one removal hits SEVERAL reference columns of one referring metadata table, with
# row ids that coincide across metadata tables.  People=1 (columns 1-3), Tasks=2 (columns 4-7),
# helper columns from #8 / #4 on; fields of the Tasks page widget are #7-#9, so the field-level "show
# column" settings primed below give field #8 the display helper column #8 (and so on), and the
# linked section pair gets ids that are column ids too.
gen.SEEDS.setdefault("field_display", [
  [["AddTable", "People", [gen._col("name", "Text"), gen._col("age", "Int")]],
   ["AddTable", "Tasks", [gen._col("title", "Text"), gen._col("owner", "Ref:People"),
                          gen._col("backup", "Ref:People")]]],
  [["BulkAddRecord", "People", [None, None], {"name": ["Ann", "Bob"], "age": [30, 40]}],
   ["BulkAddRecord", "Tasks", [None, None], {"title": ["t1", "t2"], "owner": [1, 2], "backup": [2, 0]}]],
  [["CreateViewSection", 2, 2, "detail", None, None]],       # second Tasks widget on the Tasks page
])
# the same with the reference columns FIRST (other id layout: Tasks columns 1-4, People 5-7) and a
# RefList column
gen.SEEDS.setdefault("field_display_wide", [
  [["AddTable", "People", [gen._col("name", "Text")]],
   ["AddTable", "Tasks", [gen._col("owner", "Ref:People"), gen._col("team", "RefList:People"),
                          gen._col("backup", "Ref:People"), gen._col("title", "Text")]]],
  [["BulkAddRecord", "People", [None, None, None], {"name": ["Ann", "Bob", "Cy"]}],
   ["BulkAddRecord", "Tasks", [None, None], {"title": ["t1", "t2"], "owner": [1, 2],
                                             "team": [["L", 1, 2], None], "backup": [2, 0]}]],
  [["CreateViewSection", 2, 2, "detail", None, None]],
  [["CreateViewSection", 2, 0, "record", None, None]],
])


def _prime_field_display(e):
  """Every field of a Ref / RefList column that is not in a raw data section gets its own visible
  column (the first plain column of the target table) and display formula, the way the client sets
  "show column" on a widget's field; two widgets of the same table on one page are linked by the
  first reference column (select-by same reference)."""
  tables = {t["id"]: t for t in eng.meta_records(e, "_grist_Tables")}
  byname = {t["tableId"]: t for t in tables.values()}
  cols = {c["id"]: c for c in eng.meta_records(e, "_grist_Tables_column")}
  raw = {t["rawViewSectionRef"] for t in tables.values()}
  secs = {x["id"]: x for x in eng.meta_records(e, "_grist_Views_section")}
  for f in eng.meta_records(e, "_grist_Views_section_field"):
    c = cols.get(f["colRef"])
    if c is None or f["parentId"] in raw or not c["type"].startswith(("Ref:", "RefList:")):
      continue
    target = byname.get(c["type"].split(":")[1])
    vis = next((x for x in cols.values() if target and x["parentId"] == target["id"]
                and x["colId"] != "manualSort" and not x["colId"].startswith("gristHelper_")), None)
    if vis is None: continue
    eng.apply(e, [["UpdateRecord", "_grist_Views_section_field", f["id"], {"visibleCol": vis["id"]}],
                  ["SetDisplayFormula", tables[c["parentId"]]["tableId"], f["id"], None,
                   "$%s.%s" % (c["colId"], vis["colId"])]])
  placed = {}
  for x in secs.values():
    if x["parentId"]: placed.setdefault((x["parentId"], x["tableRef"]), []).append(x)
  for (view, tref), ss in sorted(placed.items()):
    refc = next((c for c in sorted(cols.values(), key=lambda c: c["id"])
                 if c["parentId"] == tref and c["type"].startswith("Ref:")), None)
    if len(ss) >= 2 and refc is not None:
      eng.apply(e, [["UpdateRecord", "_grist_Views_section", ss[1]["id"],
                     {"linkSrcSectionRef": ss[0]["id"], "linkSrcColRef": refc["id"],
                      "linkTargetColRef": refc["id"]}]])


def _prime_refs_into_summary(e):
  """visibleCol + display formula for Notes.about (column refs resolved from the document)."""
  about = eng.col_ref(e, "Notes", "about")
  city = eng.col_ref(e, "Orders_summary_city", "city")
  eng.apply(e, [["UpdateRecord", "_grist_Tables_column", about, {"visibleCol": city}],
                ["SetDisplayFormula", "Notes", None, about, "$about.city"]])


def ref_columns():
  """[(table, column, 'Ref'|'RefList', target table)] for every _grist_* table."""
  import schema
  out = []
  for a in schema.schema_create_actions():
    for c in a.columns:
      typ = c["type"]
      if typ.startswith("Ref:") or typ.startswith("RefList:"):
        out.append((a.table_id, c["id"], typ.split(":")[0], typ.split(":")[1]))
  return out


_REF_COLUMNS = None
META_TABLES = ("_grist_Tables", "_grist_Tables_column", "_grist_Views", "_grist_Views_section",
               "_grist_Views_section_field", "_grist_Pages", "_grist_TabBar", "_grist_Filters")


def metadata_clauses(e):
  global _REF_COLUMNS
  if _REF_COLUMNS is None: _REF_COLUMNS = ref_columns()
  out = []
  recs = {}
  def R(t):
    if t not in recs: recs[t] = eng.meta_records(e, t)
    return recs[t]
  ids = lambda t: {r["id"] for r in R(t)}
  # -- generic ----------------------------------------------------------------------------------
  bad = []
  for (t, c, kind, target) in _REF_COLUMNS:
    if t not in e.tables or target not in e.tables:
      continue
    tids = ids(target)
    for r in R(t):
      v = r.get(c)
      if kind == "Ref":
        if v not in (0, None) and v not in tids:
          bad.append("%s[%s].%s = %r: no such %s record" % (t, r["id"], c, v, target))
      else:
        items = v if isinstance(v, (list, tuple)) else ([] if v in (None, 0, "") else [v])
        if items and items[0] == "L": items = items[1:]
        for x in items:
          if x not in tids:
            bad.append("%s[%s].%s contains %r: no such %s record" % (t, r["id"], c, x, target))
  if bad:
    out.append(("C09.refs_resolve", {"dangling": bad[:6], "count": len(bad),
                                     "kinds": sorted(set(b.split("[")[0] + "." + b.split("].")[1].split(" ")[0] for b in bad))}))
  # -- specific ---------------------------------------------------------------------------------
  tables = {r["id"]: r for r in R("_grist_Tables")}
  cols = {r["id"]: r for r in R("_grist_Tables_column")}
  secs = {r["id"]: r for r in R("_grist_Views_section")}
  fields = R("_grist_Views_section_field")
  p = ["column #%s %r has parentId %r" % (c["id"], c["colId"], c["parentId"])
       for c in cols.values() if not c["parentId"]]
  if p: out.append(("C09.column_has_table", {"problems": p[:6]}))
  p = []
  table_sections = {t[k] for t in tables.values() for k in ("rawViewSectionRef", "recordCardViewSectionRef")}
  for f in fields:
    s = secs.get(f["parentId"]); c = cols.get(f["colRef"])
    if not f["parentId"] or not f["colRef"]:
      orphan = s is not None and not s["parentId"] and s["id"] not in table_sections
      p.append("field #%s has parentId %r colRef %r%s" % (f["id"], f["parentId"], f["colRef"],
               " [its section is on no page and is no table's raw / record-card section]" if orphan else ""))
    elif s is not None and c is not None and c["parentId"] != s["tableRef"]:
      p.append("field #%s of section #%s (table #%s) shows column #%s of table #%s"
               % (f["id"], s["id"], s["tableRef"], c["id"], c["parentId"]))
  if p: out.append(("C09.field_col_in_section_table", {"problems": p[:6]}))
  p = ["section #%s has tableRef %r" % (s["id"], s["tableRef"]) for s in secs.values()
       if not s["tableRef"]]
  if p: out.append(("C09.section_has_table", {"problems": p[:6]}))
  p = []
  for t in tables.values():
    raw = secs.get(t["rawViewSectionRef"])
    if not t["rawViewSectionRef"]:
      p.append("table #%s %r has no raw view section" % (t["id"], t["tableId"]))
    elif raw is not None and raw["tableRef"] != t["id"]:
      p.append("raw section #%s of %s table #%s shows table #%s"
               % (raw["id"], "summary" if t["summarySourceTable"] else "user", t["id"], raw["tableRef"]))
    card = secs.get(t["recordCardViewSectionRef"])
    if card is not None and card["tableRef"] != t["id"]:
      p.append("record-card section #%s of table #%s shows table #%s"
               % (card["id"], t["id"], card["tableRef"]))
  if p: out.append(("C09.table_has_raw_section", {"problems": p[:6]}))
  names = sorted(t["tableId"] for t in tables.values())
  users = eng.user_tables(e)
  if names != users:
    out.append(("C09.one_record_per_user_table", {"metadata tableIds": names, "engine tables": users}))
  used = set()
  for owner in list(cols.values()) + list(fields) + list(secs.values()):
    if owner.get("displayCol"): used.add(owner["displayCol"])
    v = owner.get("rules")
    if isinstance(v, (list, tuple)): used.update(x for x in v if x != "L")
  p = ["helper column #%s %s.%s is used by nothing" % (c["id"], tables.get(c["parentId"], {}).get("tableId"), c["colId"])
       for c in cols.values()
       if c["colId"].startswith(("gristHelper_Display", "gristHelper_ConditionalRule",
                                 "gristHelper_RowConditionalRule")) and c["id"] not in used
       and not c.get("summarySourceCol")]      # a group-by copy of a helper column is no helper
  if p: out.append(("C09.helper_cols_used", {"problems": p[:6]}))
  p = ["section #%s (table #%s) is on no view and is no table's raw / record-card section"
       % (s["id"], s["tableRef"]) for s in secs.values()
       if not s["parentId"] and s["id"] not in table_sections]
  if p: out.append(("C09.section_has_view", {"problems": p[:6], "sections": [
      s["id"] for s in secs.values() if not s["parentId"] and s["id"] not in table_sections][:6]}))
  return out


# ------------------------------------------------------------------------------------------------
# root causes of known deviations, computed from the state BEFORE the bundle (ghost snapshot) and the
# state after it; only used to give a failure a canonical class, never to decide pass / fail
# ------------------------------------------------------------------------------------------------

def _denorm(v):
  if isinstance(v, tuple):
    if v[:1] in (("n",), ("b",)): return v[1]
    if v[:1] == ("l",): return [_denorm(x) for x in v[1:]]
  return v


def _pre_records(pre, table):
  if table not in pre: return {}
  row_ids, cols = pre[table]
  return {r: dict({c: _denorm(vals[i]) for c, vals in cols.items()}, id=r)
          for i, r in enumerate(row_ids)}


def field_causes(pre, e, detail):
  """For every field named in a C09.field_col_in_section_table failure: was it a field of a summary
  section that the bundle re-grouped (moved to another summary table), and if so why was it left
  behind?  -> sorted list of cause strings ('?' when none of the known causes applies)."""
  pf, pc = _pre_records(pre, "_grist_Views_section_field"), _pre_records(pre, "_grist_Tables_column")
  ps, pt = _pre_records(pre, "_grist_Views_section"), _pre_records(pre, "_grist_Tables")
  secs = {r["id"]: r for r in eng.meta_records(e, "_grist_Views_section")}
  cols = eng.meta_records(e, "_grist_Tables_column")
  causes = set()
  for text in detail.get("problems", []):
    m = re.match(r"field #(\d+) ", text)
    f0 = pf.get(int(m.group(1))) if m else None
    c0 = pc.get(f0["colRef"]) if f0 else None
    s0 = ps.get(f0["parentId"]) if f0 else None
    s1 = secs.get(f0["parentId"]) if f0 else None
    if not (c0 and s0 and s1) or not pt.get(s0["tableRef"], {}).get("summarySourceTable") \
        or s1["tableRef"] == s0["tableRef"] or c0["parentId"] != s0["tableRef"]:
      causes.add("?"); continue
    if sum(1 for x in pf.values() if x["parentId"] == s0["id"] and x["colRef"] == f0["colRef"]) > 1:
      causes.add("two fields of the section showed the same column")
    elif c0["isFormula"] and any(x["parentId"] == s1["tableRef"] and x["colId"] == c0["colId"]
                                 and x["formula"] != c0["formula"] for x in cols):
      causes.add("same-named formula column of the destination summary table has another formula")
    else:
      causes.add("?")
  return sorted(causes)


def section_causes(pre, e, detail):
  """For every section named in a C09.section_has_view failure: was it the raw section of a summary
  table that no longer exists?"""
  pt = _pre_records(pre, "_grist_Tables")
  now = {t["id"] for t in eng.meta_records(e, "_grist_Tables")}
  causes = set()
  for sid in detail.get("sections", []):
    owner = [t for t in pt.values() if t["rawViewSectionRef"] == sid]
    if owner and owner[0]["summarySourceTable"] and owner[0]["id"] not in now:
      causes.add("ex-raw section of a removed summary table")
    else:
      causes.add("?")
  return sorted(causes)


# ------------------------------------------------------------------------------------------------
# requires: the bundle writes no garbage references (evaluated on the pre-state by the monitor, so
# that a shrunk history whose ids have shifted meaning is not mistaken for a witness)
# ------------------------------------------------------------------------------------------------

def requires(e, bundle):
  """-> None when the precondition holds, else a string saying which action breaks it."""
  global _REF_COLUMNS
  if _REF_COLUMNS is None: _REF_COLUMNS = ref_columns()
  refcols = {(t, c): (kind, target) for (t, c, kind, target) in _REF_COLUMNS}
  ids = lambda t: set(e.tables[t].row_ids) if t in e.tables else set()
  cols = {r["id"]: r for r in eng.meta_records(e, "_grist_Tables_column")}
  secs = {r["id"]: r for r in eng.meta_records(e, "_grist_Views_section")}
  fields = {r["id"]: r for r in eng.meta_records(e, "_grist_Views_section_field")}
  def plain(cref):
    c = cols.get(cref)
    return c is not None and c["colId"] != "manualSort" and not c["colId"].startswith("gristHelper_")
  for i, a in enumerate(bundle):
    if not (isinstance(a, list) and a): continue
    name = a[0]
    if name in ("AddRecord", "UpdateRecord", "BulkAddRecord", "BulkUpdateRecord") and \
        isinstance(a[1], str) and a[1].startswith("_grist_") and isinstance(a[-1], dict):
      t, vals = a[1], a[-1]
      bulk = name.startswith("Bulk")
      for c, v in vals.items():
        if (t, c) not in refcols: continue
        if i > 0: return "action %d writes reference %s.%s after other actions of the bundle" % (i, t, c)
        kind, target = refcols[(t, c)]
        tids = ids(target)
        for cell in (v if bulk else [v]):
          items = cell if isinstance(cell, list) else [cell]
          for x in items:
            if x in (None, 0, "L"): continue
            if x not in tids: return "action %d writes dangling %s.%s = %r" % (i, t, c, x)
      if t == "_grist_Views_section_field" and "colRef" in vals and not bulk:
        sec = secs.get(vals.get("parentId") if name == "AddRecord" else fields.get(a[2], {}).get("parentId"))
        col = cols.get(vals["colRef"])
        if sec is None or col is None or col["parentId"] != sec["tableRef"]:
          return "action %d gives a field a column of another table" % i
        if not plain(vals["colRef"]) or col["colId"] == "group":
          return "action %d makes a field show a hidden column (manualSort / helper / group)" % i
        if any(f2["parentId"] == sec["id"] and f2["colRef"] == vals["colRef"] for f2 in fields.values()):
          return "action %d shows a column twice in one section" % i
    if name in ("CreateViewSection", "UpdateSummaryViewSection"):
      gb = a[4] if name == "CreateViewSection" else a[2]
      if gb is not None:
        if i > 0 or not all(plain(x) for x in gb):
          return "action %d groups by a helper / unknown column" % i
  return None


# ------------------------------------------------------------------------------------------------
# generator: view / section / field / helper-column / summary actions
# ------------------------------------------------------------------------------------------------

#               0  1  2  3  4  5  6  7  8  9 10 11 12 13 14 15 16 17 18 19 20 21 22 23 24 25
KIND_WEIGHTS = [3, 3, 1, 4, 3, 3, 4, 5, 4, 3, 3, 2, 5, 3, 2, 1, 2, 2, 2, 2, 2, 5, 3, 2, 5, 2]


def structure_edit(e, g):
  rng = g.rng
  tables = eng.meta_records(e, "_grist_Tables")
  cols = eng.meta_records(e, "_grist_Tables_column")
  views = eng.meta_records(e, "_grist_Views")
  secs = eng.meta_records(e, "_grist_Views_section")
  fields = eng.meta_records(e, "_grist_Views_section_field")
  if not tables or not cols:
    return g.bundle(e)
  t = rng.choice(tables)
  tcols = [c for c in cols if c["parentId"] == t["id"] and c["colId"] != "manualSort"
           and not c["colId"].startswith("gristHelper_")]
  c = rng.choice(tcols) if tcols else rng.choice(cols)
  tname = {x["id"]: x["tableId"] for x in tables}
  tid = tname.get(c["parentId"], t["tableId"])
  sec = rng.choice(secs) if secs else None
  f = rng.choice(fields) if fields else None
  view = rng.choice(views) if views else None
  summaries = [s for s in secs if any(x["id"] == s["tableRef"] and x["summarySourceTable"] for x in tables)]
  # the client offers "change group-by" / "detach" on widgets placed on pages; the raw section of a
  # summary table is only rarely used as a target here
  placed = [s for s in summaries if s["parentId"]]
  if placed and rng.random() < 0.9: summaries = placed
  k = rng.choices(range(len(KIND_WEIGHTS)), KIND_WEIGHTS)[0]
  with_display = [x for x in cols if x["displayCol"]]
  fields_with_display = [x for x in fields if x["displayCol"]]
  if k == 7 and with_display and rng.random() < 0.6:      # change / clear an existing display formula
    c = rng.choice(with_display)
    return [["SetDisplayFormula", tname.get(c["parentId"], tid), None, c["id"],
             rng.choice(["", "", "$id", "$r.n"])]]
  if k == 6 and fields_with_display and rng.random() < 0.6:
    f = rng.choice(fields_with_display)
  if k == 0:
    return [["CreateViewSection", t["id"], view["id"] if view and rng.random() < 0.6 else 0,
             rng.choice(["record", "detail", "single", "chart", "form"]), None, None]]
  if k == 1:
    refs = [x["id"] for x in rng.sample(tcols, min(len(tcols), rng.randint(0, 2)))]
    return [["CreateViewSection", t["id"], view["id"] if view and rng.random() < 0.5 else 0,
             "record", refs, None]]
  if k == 2: return [["CreateViewSection", 0, 0, "record", None, rng.choice(["NewT", "A", None])]]
  if k == 3 and sec: return [["RemoveViewSection", sec["id"]]]
  if k == 4 and view: return [["RemoveView", view["id"]]]
  if k == 5 and f: return [["RemoveRecord", "_grist_Views_section_field", f["id"]]]
  if k == 6 and f:
    ft = next((s["tableRef"] for s in secs if s["id"] == f["parentId"]), None)
    return [["SetDisplayFormula", tname.get(ft, tid), f["id"], None,
             rng.choice(["$r.s", "$r.n", "$id", "", "", "$s"])]]
  if k == 7:
    return [["SetDisplayFormula", tid, None, c["id"], rng.choice(["$r.s", "$r.n", "$id", "", "$s"])]]
  if k == 8:
    target = c["type"].split(":")[1] if ":" in c["type"] else None
    vis = [x["id"] for x in cols if tname.get(x["parentId"]) == target] if target else []
    v = rng.choice(vis + [0]) if vis else 0
    b = [["UpdateRecord", "_grist_Tables_column", c["id"], {"visibleCol": v}]]
    if v and rng.random() < 0.8:
      b.append(["SetDisplayFormula", tid, None, c["id"],
                "$%s.%s" % (c["colId"], next(x["colId"] for x in cols if x["id"] == v))])
    return b
  if k == 9: return [["AddEmptyRule", tid, 0, c["id"]]]
  if k == 10 and f:
    ft = next((s["tableRef"] for s in secs if s["id"] == f["parentId"]), None)
    if ft in tname: return [["AddEmptyRule", tname[ft], f["id"], 0]]
  if k == 11: return [["AddEmptyRule", t["tableId"], 0, 0]]
  if k == 12:    # drop one rule the way the client does: shorten `rules`
    owners = [("_grist_Tables_column", x) for x in cols] + [("_grist_Views_section_field", x) for x in fields] \
        + [("_grist_Views_section", x) for x in secs]
    owners = [(tn, x) for tn, x in owners if isinstance(x.get("rules"), (list, tuple)) and len(x["rules"]) > 1]
    if owners:
      tn, x = rng.choice(owners)
      keep = list(x["rules"][1:]); keep.pop(rng.randrange(len(keep)))
      return [["UpdateRecord", tn, x["id"], {"rules": ["L"] + keep if keep else None}]]
  if k == 13 and summaries:
    s = rng.choice(summaries)
    src = next(x["summarySourceTable"] for x in tables if x["id"] == s["tableRef"])
    scols = [x["id"] for x in cols if x["parentId"] == src and x["colId"] != "manualSort"
             and not x["colId"].startswith("gristHelper_")]
    return [["UpdateSummaryViewSection", s["id"], rng.sample(scols, min(len(scols), rng.randint(0, 2)))]]
  if k == 14 and summaries: return [["DetachSummaryViewSection", rng.choice(summaries)["id"]]]
  if k == 15: return [["AddView", t["tableId"], "raw_data", "V"]]
  if k == 16 and view: return [["AddViewSection", "T", rng.choice(["record", "detail"]), view["id"], t["tableId"]]]
  if k == 17 and not t["summarySourceTable"]:
    return [["DuplicateTable", t["tableId"], rng.choice(["Dup", "A"]), rng.random() < 0.5]]
  if k == 18 and f and sec:
    s = next((s for s in secs if s["id"] == f["parentId"]), None)
    if s:
      same = [x["id"] for x in cols if x["parentId"] == s["tableRef"] and x["colId"] != "manualSort"
              and x["colId"] != "group" and not x["colId"].startswith("gristHelper_")
              and not any(f2["parentId"] == s["id"] and f2["colRef"] == x["id"] for f2 in fields)]
      if same: return [["UpdateRecord", "_grist_Views_section_field", f["id"], {"colRef": rng.choice(same)}]]
  if k == 19 and sec and len(secs) > 1:
    src = rng.choice(secs)
    sc = [x["id"] for x in cols if x["parentId"] == src["tableRef"]]
    tc = [x["id"] for x in cols if x["parentId"] == sec["tableRef"]]
    return [["UpdateRecord", "_grist_Views_section", sec["id"],
             {"linkSrcSectionRef": src["id"], "linkSrcColRef": rng.choice(sc + [0]),
              "linkTargetColRef": rng.choice(tc + [0])}]]
  if k == 20 and sec:
    sc = [x["id"] for x in cols if x["parentId"] == sec["tableRef"]]
    if sc: return [["AddRecord", "_grist_Filters", None,
                    {"viewSectionRef": sec["id"], "colRef": rng.choice(sc), "filter": "{}"}]]
  if k == 21: return [["RemoveColumn", tid, c["colId"]]]
  if k == 24:    # field-level "show column" of a reference field, the way the client sets it
    raw = {x["rawViewSectionRef"] for x in tables}
    byid = {x["id"]: x for x in cols}
    cand = [x for x in fields if x["parentId"] not in raw and x["colRef"] in byid
            and byid[x["colRef"]]["type"].startswith(("Ref:", "RefList:"))]
    if cand:
      f = rng.choice(cand); fc = byid[f["colRef"]]
      vis = [x for x in cols if tname.get(x["parentId"]) == fc["type"].split(":")[1]
             and x["colId"] != "manualSort" and not x["colId"].startswith("gristHelper_")]
      ft = tname.get(fc["parentId"])
      if ft and (not vis or rng.random() < 0.15):
        return [["UpdateRecord", "_grist_Views_section_field", f["id"], {"visibleCol": 0}],
                ["SetDisplayFormula", ft, f["id"], None, ""]]
      if ft:
        v = rng.choice(vis)
        return [["UpdateRecord", "_grist_Views_section_field", f["id"], {"visibleCol": v["id"]}],
                ["SetDisplayFormula", ft, f["id"], None, "$%s.%s" % (fc["colId"], v["colId"])]]
  if k == 25:    # the client removes several selected columns of one table in one action
    plain = [x["id"] for x in cols if x["parentId"] == t["id"] and x["colId"] != "manualSort"
             and not x["colId"].startswith("gristHelper_") and not x.get("summarySourceCol")]
    if len(plain) >= 2:
      return [["BulkRemoveRecord", "_grist_Tables_column", sorted(rng.sample(plain, 2))]]
  if k == 22: return [["RemoveTable", t["tableId"]]]
  if k == 23:
    pages = eng.meta_records(e, "_grist_Pages")
    if pages: return [["RemoveRecord", "_grist_Pages", rng.choice(pages)["id"]]]
  return g.bundle(e)


class C09Monitor(explore.Monitor):
  seeds = ALL_SEEDS
  length = 10
  weights = {"add": 2, "bulk_add": 1, "update": 3, "bulk_update": 1, "remove": 2, "bulk_remove": 1,
             "add_col": 5, "add_formula_col": 3, "remove_col": 8, "rename_col": 4, "modify_type": 8,
             "modify_formula": 2, "to_formula": 2, "to_data": 2, "add_table": 4, "remove_table": 5,
             "rename_table": 3, "meta_update": 5, "invalid": 1, "replace_data": 0, "multi": 8,
             "add_temp": 0, "upsert": 0, "summary": 6, "reverse": 4, "view": 8, "label": 1}

  def start(self, e, seed_name):
    if seed_name == "refs_into_summary":
      _prime_refs_into_summary(e)
    if seed_name.startswith("field_display"):
      _prime_field_display(e)
    return {"last_undo": None}

  def gen_bundle(self, st, e, g):
    r = g.rng.random()
    if r < 0.06 and st.get("last_undo"):
      return [["ApplyUndoActions", st["last_undo"]]]
    if r < 0.55:
      return structure_edit(e, g)
    return g.bundle(e)

  def before(self, st, e, bundle):
    if st.get("tainted"): return
    why = requires(e, bundle)
    if why: st["tainted"] = "requires: " + why
    st["pre"] = eng.snapshot(e, tables=META_TABLES)

  def after(self, st, e, bundle, group, exc):
    st["last_undo"] = eng.undo_reprs(group) if group is not None and group.undo else None
    if st.get("tainted"):
      return []          # precondition broken earlier in this history: nothing is claimed any more
    if exc is not None:
      # A failed bundle must leave no trace (C04).  If it did, the rest of the history no longer
      # starts from a state reached by successful bundles only: C04 reports it, C09 stops here.
      if eng.diff_snapshots(st["pre"], eng.snapshot(e, tables=META_TABLES)):
        st["tainted"] = "failed bundle left a trace (C04)"
      return []
    out = metadata_clauses(e)[:1]
    for clause, detail in out:
      if clause == "C09.field_col_in_section_table":
        detail["causes"] = field_causes(st["pre"], e, detail)
      elif clause == "C09.section_has_view":
        detail["causes"] = section_causes(st["pre"], e, detail)
    return out

  def nontrivial(self, st, bundle, group, exc):
    return not st.get("tainted") and (exc is not None or bool(group and group.stored))

  def classify(self, clause, detail, bundle, history):
    kinds = "+".join(sorted(set(a[0] for a in bundle if isinstance(a, list) and a)))
    probs = detail.get("problems") or []
    if clause == "C09.table_has_raw_section" and probs and \
        all(re.match(r"raw section #\d+ of summary table #\d+ shows table", x) for x in probs):
      for a in bundle:
        if isinstance(a, list) and a and a[0] in ("DetachSummaryViewSection", "UpdateSummaryViewSection"):
          return "raw section of a summary table re-targeted by %s" % a[0]
    if clause == "C09.field_col_in_section_table" and probs and \
        all(x.endswith("is no table's raw / record-card section]") and " colRef 0 " in x for x in probs):
      return "field without column in an orphaned ex-raw section of a removed summary table"
    causes = detail.get("causes") or []
    names = [a[0] for a in bundle if isinstance(a, list) and a]
    if "UpdateSummaryViewSection" in names or "DetachSummaryViewSection" in names:
      route = "a summary-section action on it"
    elif any(isinstance(a, list) and a and (a[0] == "RemoveColumn" or (
        a[0] in ("RemoveRecord", "BulkRemoveRecord") and a[1] == "_grist_Tables_column")) for a in bundle):
      route = "the removal of a group-by source column"
    else:
      route = kinds
    if clause == "C09.field_col_in_section_table" and causes and "?" not in causes:
      return "field of a re-grouped summary section left on the old table's column: " + "; ".join(causes)
    if clause == "C09.section_has_view" and causes == ["ex-raw section of a removed summary table"]:
      return "ex-raw section of a removed summary table left behind by %s" % route
    if clause == "C09.refs_resolve":
      return "dangling %s after %s" % (",".join(detail.get("kinds", [])), kinds)
    return "%s after %s" % (clause, kinds)


# ------------------------------------------------------------------------------------------------
# part 2: every single removal applicable to every seed document (exhaustive over that finite space)
# ------------------------------------------------------------------------------------------------

def _seed_engine(seed_name):
  e = eng.new_engine()
  for b in gen.seed_history(seed_name):
    eng.apply(e, b)
  C09Monitor().start(e, seed_name)
  return e


def removal_bundles(e):
  """One bundle per removal the document admits: each plain column (RemoveColumn), each pair of
  plain columns of one table (the client's multi-column delete), each helper column record, each
  table, section, view, page and field."""
  tables = eng.meta_records(e, "_grist_Tables")
  cols = eng.meta_records(e, "_grist_Tables_column")
  out = []
  for t in tables:
    tc = [c for c in cols if c["parentId"] == t["id"] and c["colId"] != "manualSort"]
    plain = [c for c in tc if not c["colId"].startswith("gristHelper_")]
    out += [[["RemoveColumn", t["tableId"], c["colId"]]] for c in plain]
    out += [[["BulkRemoveRecord", "_grist_Tables_column", [a["id"], b["id"]]]]
            for i, a in enumerate(plain) for b in plain[i + 1:]]
    out += [[["RemoveRecord", "_grist_Tables_column", c["id"]]] for c in tc if c not in plain]
    out.append([["RemoveTable", t["tableId"]]])
  out += [[["RemoveViewSection", s["id"]]] for s in eng.meta_records(e, "_grist_Views_section")]
  out += [[["RemoveView", v["id"]]] for v in eng.meta_records(e, "_grist_Views")]
  out += [[["RemoveRecord", "_grist_Pages", x["id"]]] for x in eng.meta_records(e, "_grist_Pages")]
  out += [[["RemoveRecord", "_grist_Views_section_field", f["id"]]]
          for f in eng.meta_records(e, "_grist_Views_section_field")]
  return out


def _sweep_worker(task):
  seed_name, bundle = task
  try:
    failures, stats, _h = explore.run_history(C09Monitor(), seed_name, [bundle])
    return {"seed_doc": seed_name, "bundle": bundle, "failures": failures[:1], "stats": stats}
  except Exception:
    import traceback
    return {"crash": "%s %r: %s" % (seed_name, bundle, traceback.format_exc(limit=6))}


def removal_sweep_run(procs):
  import multiprocessing as mp
  tasks = [(s, b) for s in ALL_SEEDS for b in removal_bundles(_seed_engine(s))]
  with mp.get_context("fork").Pool(procs) as pool:
    return pool.map(_sweep_worker, tasks, chunksize=4)


def removal_sweep_start():
  """The sweep runs in a process of its own (5 workers) next to the random part, which keeps only
  11 of the 16 cores busy."""
  import subprocess
  return subprocess.Popen([sys.executable, os.path.abspath(__file__), "--removal-sweep"],
                          stdout=subprocess.PIPE, env=dict(os.environ))


def removal_sweep_collect(rep, proc):
  import json
  data, _ = proc.communicate()
  try:
    outs = json.loads(data.decode("utf8"))
  except Exception as ex:
    rep.crash("removal sweep: no result (%r, exit %s)" % (ex, proc.returncode)); return
  tasks = outs
  n = raised = 0
  for o in outs:
    if o.get("crash"):
      rep.crash("removal sweep: " + o["crash"]); continue
    n += o["stats"]["bundles"]; raised += o["stats"]["raised"]
    for f in o["failures"]:
      rep.violation("%s-%s" % (f["clause"], f["class"]), {
        "obligation": f["clause"], "class": f["class"], "seed_doc": o["seed_doc"],
        "history": [o["bundle"]], "detail": f["detail"], "tier": "bounded", "part": "removal_sweep",
        "monitor": "checks.C09:C09Monitor",
        "how_to_replay": "apply SEEDS[seed_doc] (+ the monitor's start() priming) then `history` on "
                         "a fresh engine (vlib.rtc.explore.run_history)"})
  cov = rep.coverage
  cov["evaluations"] = cov.get("evaluations", 0) + n
  cov["distinct_nontrivial"] = cov.get("distinct_nontrivial", 0) + n
  cov["removal_sweep"] = {"removals": len(tasks), "raised": raised, "seed_documents": len(ALL_SEEDS),
                          "exhaustive_over": "every single removal action (column, pair of columns "
                          "of one table, helper column record, table, section, view, page, field) "
                          "applicable to each seed document"}


# ------------------------------------------------------------------------------------------------
# part 3: fixed witness histories of known findings the random part does not reach
# ------------------------------------------------------------------------------------------------

class _NoRequires(C09Monitor):
  """The same clauses without the generator's precondition: the witness below shows a column twice
  in one section, which the random part never does (see `requires`)."""
  def before(self, st, e, bundle):
    st["pre"] = eng.snapshot(e, tables=META_TABLES)


# (seed document, history, name, monitor class)
WITNESSES = [
  # the 'count' column of one summary table gets another formula; a summary table created later has
  # the default formula; moving the widget there adds 'count2' and leaves the 'count' field behind
  ("summary", [[["ModifyColumn", "A_summary_cat", "count", {"formula": "len($group) + 1"}]],
               [["CreateViewSection", 1, 0, "record", [3], None]],
               [["UpdateSummaryViewSection", 5, [3]]]],
   "regroup-summary-section-same-named-formula-column-differs", C09Monitor),
  # field #15 and the added field both show column #8 (A_summary_cat.n); only one of them follows
  ("summary", [[["AddRecord", "_grist_Views_section_field", None, {"parentId": 5, "colRef": 8}]],
               [["UpdateSummaryViewSection", 5, [4]]]],
   "regroup-summary-section-with-two-fields-of-one-column", _NoRequires),
]


def run_witnesses(rep):
  n = 0
  for seed_doc, history, name, cls in WITNESSES:
    try:
      failures, stats, _h = explore.run_history(cls(), seed_doc, history)
    except Exception as ex:
      rep.crash("witness %s: %r" % (name, ex)); continue
    n += stats["bundles"]
    for f in failures[:1]:
      rep.violation(f["clause"], {"obligation": f["clause"], "class": "witness:" + name,
                                  "root_cause_class": f["class"], "seed_doc": seed_doc,
                                  "history": history, "detail": f["detail"], "tier": "bounded"})
  rep.coverage["evaluations"] = rep.coverage.get("evaluations", 0) + n
  rep.coverage["witness_histories"] = len(WITNESSES)


def main():
  rep = common.Report("C09", "exploration")
  rep.assumptions += [
    common.SHIM_ASSUMPTION,
    "bounded: seeded random histories over %d seed documents (four of them defined in this check: "
    "'views' - extra page, summary section, display column, conditional rules; 'refs_into_summary'; "
    "'field_display' / 'field_display_wide' - reference fields with their own visible column and "
    "display helper on page widgets and record cards, two linked widgets of one table, laid out so "
    "that field / section ids coincide with column ids); 55%% of the bundles are view / section / "
    "field / display-formula (column- and field-level) / rule / summary / removal (one column, two "
    "columns of one table, table, section, view, page, field) actions generated from the current "
    "metadata, 6%% undo of the previous bundle; not a proof" % len(ALL_SEEDS),
    "removal sweep: every single removal action applicable to each seed document (exhaustive over "
    "that finite set, see coverage.removal_sweep), one fresh engine per removal",
    "fixed witness histories of two known findings the random part does not reach; one of them "
    "shows a column twice in one widget, which is outside the random part's precondition",
    "requires (checked by the monitor on the pre-state of every bundle; a history that breaks it is "
    "not evaluated further): record edits of _grist_* tables only write reference values that "
    "exist, as first action of their bundle; a field only gets a visible column (not manualSort / "
    "gristHelper_* / group) of its section's table that the section does not show yet; "
    "summary sections are not grouped by manualSort / gristHelper_* columns",
    "a history in which a FAILED bundle left a trace in the metadata (C04's concern) is not "
    "evaluated further",
    "a view section's parentId (view) may be 0 only for a table's raw or record-card section "
    "(C09.section_has_view)",
    "metadata is observed through Engine.fetch_table"]
  rep.coverage["rule"] = ("one evaluation = one bundle applied to the real engine followed by the "
                          "eight clauses over all _grist_* tables (%d Ref/RefList columns derived "
                          "from schema.schema_create_actions()); non-trivial = the bundle changed "
                          "the document or raised" % len(ref_columns()))
  rep.coverage["ref_columns_checked"] = len(ref_columns())
  from checks import C02
  C02.tune_explore(4)
  sweep = removal_sweep_start()
  # the first DuplicateTable of a process spends seconds filling astroid's caches: do it once here,
  # before the workers are forked, instead of once in every worker (bundle time limit under load)
  eng.apply(_seed_engine("basic"), [["DuplicateTable", "A", "Dup", False]])
  explore.explore(rep, "checks.C09", "C09Monitor", n_quick=176, budget_quick_s=25)
  removal_sweep_collect(rep, sweep)
  run_witnesses(rep)
  return rep.finish()


if __name__ == "__main__":
  if "--removal-sweep" in sys.argv:
    import json
    json.dump(common._jsonable(removal_sweep_run(5)), sys.stdout)
    sys.exit(0)
  sys.exit(main())
