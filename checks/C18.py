"""C18 Circular references terminate and are reported on the cycle — bounded, EXHAUSTIVE over all
reference graphs of k <= 3 formula columns (2^(k*k) graphs) and over all cross-row variants for
k = 2 with two rows (4^(k*k) graphs), every graph under every evaluation order (the C06 ghost
permutation of Engine._make_sorted_work_items), installed in two ways on the REAL engine:
  load   : fresh Engine, load_meta_tables/load_table, Calculate (all nodes dirty), then a data
           edit (UpdateRecord n) that re-dirties every cell;
  modify : a long-lived engine, one bundle of ModifyColumn actions replacing the formulas
           (incremental path: from the acyclic base document to the graph).
Specification (written from the statement, independent of the engine): graph reachability over
cells.  cell (i, r) reads cell (j, r') for every reference j of column i (same row, other row or
both);  on_cycle(c) = c reaches itself through >= 1 edge;  tainted(c) = c reaches an on-cycle cell.
Clauses:
  C18.terminates_no_internal_error   the bundle returns (no exception, no "not making progress"),
                                     within a wall-clock limit and a bounded number of
                                     _recompute_step calls
  C18.self_dependent_cells_circular  every on-cycle cell holds ['E', 'CircularRefError', ...]
  C18.others_normal                  every cell that is not tainted holds its normal value (spec:
                                     n*10^i + sum of the referenced cells' values)
Cells that depend on a cycle without lying on it are not constrained by the statement; what they
hold is tallied in the evidence (coverage.dependents_of_cycles)."""
import itertools
import math
import os
import random
import signal
import sys

sys.path.insert(0, os.path.dirname(os.path.dirname(os.path.abspath(__file__))))
from vlib import common
from vlib.rtc import eng, fn
from checks import C06

import engine as _engine
import actions
import useractions

SAME, OTHER = "s", "o"


# ------------------------------------------------------------------------------------------------
# documents
# ------------------------------------------------------------------------------------------------

def formula(i, refs, per_row=None):
  """refs: tuple of (j, kind) with kind in SAME / OTHER.  per_row: {row: refs} makes the formula
  choose its references by row id (asymmetric cross-row graphs)."""
  def expr(refs):
    terms = ["$n * %d" % (10 ** i)]
    for (j, kind) in refs:
      terms.append("$c%d" % j if kind == SAME else "$o.c%d" % j)
    return " + ".join(terms)
  if per_row is None:
    return expr(refs)
  return "(%s) if rec.id == 1 else (%s)" % (expr(per_row[1]), expr(per_row[2]))


def spec(k, rows, cell_refs, n_of):
  """cell_refs: {(i, r): [(j, r'), ...]}.  -> (on_cycle set, tainted set, normal values dict)"""
  cells = [(i, r) for i in range(k) for r in rows]
  def reach(c):
    seen, todo = set(), list(cell_refs[c])
    while todo:
      d = todo.pop()
      if d in seen: continue
      seen.add(d)
      todo.extend(cell_refs[d])
    return seen
  reachable = {c: reach(c) for c in cells}
  on_cycle = set(c for c in cells if c in reachable[c])
  tainted = set(c for c in cells if c in on_cycle or (reachable[c] & on_cycle))
  values = {}
  def val(c):
    if c not in values:
      values[c] = n_of[c[1]] * 10 ** c[0] + sum(val(d) for d in cell_refs[c])
    return values[c]
  for c in cells:
    if c not in tainted: val(c)
  return on_cycle, tainted, values


def cell_refs_of(k, rows, graph):
  """graph: {i: refs} (symmetric over rows) or {i: {row: refs}}."""
  other = {1: 2, 2: 1}
  out = {}
  for i in range(k):
    for r in rows:
      refs = graph[i][r] if isinstance(graph[i], dict) else graph[i]
      out[(i, r)] = [(j, r if kind == SAME else other[r]) for (j, kind) in refs]
  return out


_template = {}

def template(k, nrows):
  """Metadata + data of the base document (built once per process on the real engine through user
  actions): table T(n Int, o Ref:T, c0..c{k-1} formula columns)."""
  key = (k, nrows)
  if key not in _template:
    e = eng.new_engine()
    cols = [gen_col("n", "Int"), gen_col("o", "Ref:T")]
    cols += [gen_col("c%d" % i, "Any", formula(i, ())) for i in range(k)]
    eng.apply(e, [["AddTable", "T", cols]])
    rows = list(range(1, nrows + 1))
    eng.apply(e, [["BulkAddRecord", "T", rows,
                   {"n": [r for r in rows], "o": [(3 - r if nrows == 2 else 0) for r in rows]}]])
    _template[key] = e
  return _template[key]


def gen_col(id_, type_, formula_=""):
  return {"id": id_, "type": type_, "formula": formula_, "isFormula": bool(formula_)}


def formulas_of(k, graph):
  out = {}
  for i in range(k):
    if isinstance(graph[i], dict):
      out["c%d" % i] = formula(i, (), per_row=graph[i])
    else:
      out["c%d" % i] = formula(i, graph[i])
  return out


def load_document(k, nrows, forms, strat):
  """Fresh real Engine loaded from the template's own metadata with the formulas replaced."""
  base = template(k, nrows)
  mt = base.fetch_table('_grist_Tables')
  mc = base.fetch_table('_grist_Tables_column')
  fcol = list(mc.columns["formula"])
  for idx, cid in enumerate(mc.columns["colId"]):
    if cid in forms and mc.columns["parentId"][idx] == eng.table_ref(base, "T"):
      fcol[idx] = forms[cid]
  cols = dict(mc.columns); cols["formula"] = fcol
  mc = actions.TableData('_grist_Tables_column', mc.row_ids, cols)
  f = _engine.Engine()
  rest = f.load_meta_tables(mt, mc)
  for t in rest:
    f.load_table(base.fetch_table(t, formulas=False))
  C06.set_strategy(f, strat)
  f.apply_user_actions([useractions.from_repr(['Calculate'])])
  return f


class Limit(Exception):
  pass


class step_counter(object):
  """Counts calls of the real Engine._recompute_step while a bundle runs, and turns a hang into an
  exception (SIGALRM)."""
  def __init__(self, seconds=60):
    self.seconds, self.n = seconds, 0
  def __enter__(self):
    E = _engine.Engine
    self.orig = E._recompute_step
    me = self
    def counted(self_, *a, **kw):
      me.n += 1
      return me.orig(self_, *a, **kw)
    E._recompute_step = counted
    def on_alarm(signum, frame): raise Limit("no termination within %d s" % self.seconds)
    self.old = signal.signal(signal.SIGALRM, on_alarm)
    signal.alarm(self.seconds)
    return self
  def __exit__(self, *a):
    signal.alarm(0)
    signal.signal(signal.SIGALRM, self.old)
    _engine.Engine._recompute_step = self.orig
    return False


def observe(e, k, rows):
  snap = eng.table_snapshot(e, "T")
  ids = list(snap[0])
  return {(i, r): snap[1]["c%d" % i][ids.index(r)] for i in range(k) for r in rows}


_long_lived = {}

def call(a):
  """Runs one case on the real engine; returns the observations, or raises what the engine raised."""
  C06.install_hook()
  k, nrows, graph, mode = a["k"], a["rows"], a["graph"], a["mode"]
  rows = list(range(1, nrows + 1))
  forms = formulas_of(k, graph)
  strat = C06.Strategy("index", {c: (a["perm"], 0) for c in range(64)})
  obs = []
  try:
    return _call(a, k, nrows, rows, forms, strat, mode, obs)
  except Exception as ex:          # exceptional outcome: judged by C18.terminates_no_internal_error
    _long_lived.pop((k, nrows), None)
    return {"obs": obs, "steps": 0, "raised": "%s: %s" % (type(ex).__name__, ex)}


def _call(a, k, nrows, rows, forms, strat, mode, obs):
  graph = a["graph"]
  template(k, nrows)                 # built outside the timed region (first use imports astroid)
  if mode != "load" and (k, nrows) not in _long_lived:
    _long_lived[(k, nrows)], _ = C06.fork_by_load(template(k, nrows))
  with step_counter() as sc:
    if mode == "load":
      e = load_document(k, nrows, forms, strat)
      obs.append(({r: r for r in rows}, observe(e, k, rows)))
      # a data edit that re-dirties every cell, under EVERY order of the k columns
      for i, p in enumerate(a.get("edit_perms", [a["perm"]])):
        C06.set_strategy(e, C06.Strategy("index", {c: (p, 0) for c in range(64)}))
        n_of = {r: r + 4 * (i + 1) for r in rows}
        eng.apply(e, [["BulkUpdateRecord", "T", rows, {"n": [n_of[r] for r in rows]}]])
        obs.append((n_of, observe(e, k, rows)))
    elif mode == "transition":
      # graph -> graph: install G, then edit ONE column to every other reference set and back;
      # after each edit every cell is judged against reachability in the graph it has NOW
      e = _long_lived[(k, nrows)]
      C06.set_strategy(e, strat)
      eng.apply(e, [["ModifyColumn", "T", c, {"formula": forms[c]}] for c in sorted(forms)])
      n_of = {r: r for r in rows}
      obs.append((n_of, observe(e, k, rows), graph))
      col = a["col"]
      for alt in a["alternatives"]:
        for refs in (alt, graph[col]):
          g2 = dict(graph); g2[col] = refs
          eng.apply(e, [["ModifyColumn", "T", "c%d" % col, {"formula": formula(col, refs)}]])
          obs.append((n_of, observe(e, k, rows), g2))
    else:
      key = (k, nrows)
      if key not in _long_lived:
        f, _ = C06.fork_by_load(template(k, nrows))
        _long_lived[key] = f
      e = _long_lived[key]
      C06.set_strategy(e, None)
      base = formulas_of(k, {i: () for i in range(k)})
      eng.apply(e, [["ModifyColumn", "T", c, {"formula": base[c]}] for c in sorted(base)])
      C06.set_strategy(e, strat)
      eng.apply(e, [["ModifyColumn", "T", c, {"formula": forms[c]}] for c in sorted(forms)])
      obs.append(({r: r for r in rows}, observe(e, k, rows)))
  return {"obs": obs, "steps": sc.n}


def is_circular(v):
  return isinstance(v, tuple) and len(v) >= 3 and v[0] == "l" and v[1] == "E" and v[2] == "CircularRefError"


def _spec_for(a, n_of, graph=None):
  rows = list(range(1, a["rows"] + 1))
  return spec(a["k"], rows, cell_refs_of(a["k"], rows, graph or a["graph"]), n_of)


def _obs(r):
  """(n_of, cells, graph-or-None) for every observation of a case"""
  for o in r["obs"]:
    yield (o[0], o[1], o[2] if len(o) > 2 else None)


def ens_terminates(a, r):
  if r.get("raised"):
    return "apply_user_actions raised %s" % r["raised"]
  cells = a["k"] * a["rows"]
  bound = 200 * (cells + 1) ** 2 + 2000      # generous polynomial bound on _recompute_step calls
  if r["steps"] > bound:
    return "%d _recompute_step calls > bound %d" % (r["steps"], bound)
  return True


def ens_circular(a, r):
  for step, (n_of, cells, g) in enumerate(_obs(r)):
    on_cycle, tainted, values = _spec_for(a, n_of, g)
    for c in sorted(on_cycle):
      if not is_circular(cells[c]):
        return "step %d: cell c%d[%d] lies on a cycle but holds %r" % (step, c[0], c[1], cells[c])
  return True


def ens_normal(a, r):
  for step, (n_of, cells, g) in enumerate(_obs(r)):
    on_cycle, tainted, values = _spec_for(a, n_of, g)
    for c, v in sorted(values.items()):
      if cells[c] != eng._norm(v):
        return "step %d%s: cell c%d[%d] neither lies on nor depends on a cycle; expected %d, holds %r" % (
          step, (" (formulas %r)" % formulas_of(a["k"], g)) if g else "", c[0], c[1], v, cells[c])
  return True


def shape(a):
  rows = list(range(1, a["rows"] + 1))
  on_cycle, tainted, values = _spec_for(a, {r: r for r in rows})
  return "k=%d rows=%d mode=%s cycle_cells=%d dependents=%d" % (
    a["k"], a["rows"], a["mode"], len(on_cycle), len(tainted) - len(on_cycle))


def classify(a, clause, detail):
  d = str(detail)
  what = "raised" if "raised" in d else (
    "holds-error" if "'E'" in d else "wrong-value")
  return "%s|%s|%s" % (clause, what, shape(a))


# ------------------------------------------------------------------------------------------------
# the bound
# ------------------------------------------------------------------------------------------------

def subsets(items):
  items = list(items)
  for n in range(len(items) + 1):
    for c in itertools.combinations(items, n):
      yield c


def single_row_graphs(k):
  """All 2^(k*k) graphs: column i references any subset of the k columns (same row)."""
  per_col = [tuple((j, SAME) for j in s) for s in subsets(range(k))]
  for combo in itertools.product(per_col, repeat=k):
    yield dict(enumerate(combo))


def cross_row_graphs_k2():
  """k = 2, two rows, symmetric formulas: each (i -> j) is absent / same row / other row / both:
  4^(k*k) = 256 graphs."""
  variants = [(), ((SAME),), ((OTHER),), (SAME, OTHER)]
  per_col = []
  for v0 in variants:
    for v1 in variants:
      per_col.append(tuple((0, kd) for kd in v0) + tuple((1, kd) for kd in v1))
  for combo in itertools.product(per_col, repeat=2):
    yield dict(enumerate(combo))


def asymmetric_graphs_k2(rng, n):
  """k = 2, two rows, every cell chooses its own subset of the 4 cells (2^16 graphs): sampled."""
  targets = [(0, SAME), (0, OTHER), (1, SAME), (1, OTHER)]
  for _ in range(n):
    g = {}
    for i in range(2):
      g[i] = {r: tuple(t for t in targets if rng.random() < 0.35) for r in (1, 2)}
    yield g


def random_graphs(k, rng, n, p=0.25):
  for _ in range(n):
    yield {i: tuple((j, SAME) for j in range(k) if rng.random() < p) for i in range(k)}


def cases(tier, seed):
  """Every graph of the stated space.  Per graph: 'load' = Calculate on load under one order
  (rotating over the k! orders along the enumeration; thorough: every order) followed by a data
  edit re-dirtying every cell under EVERY order; 'modify' = the ModifyColumn transition from the
  acyclic base document under one rotating order (thorough: every order)."""
  every = tier == "thorough"
  for mode in ("load", "modify"):
    for k, nrows, graphs in ((1, 1, single_row_graphs(1)), (2, 1, single_row_graphs(2)),
                             (3, 1, single_row_graphs(3)), (2, 2, cross_row_graphs_k2())):
      nperm = math.factorial(k)
      for gi, g in enumerate(graphs):
        for perm in (range(nperm) if every else [(gi + seed) % nperm]):
          a = {"k": k, "rows": nrows, "graph": g, "perm": perm, "mode": mode}
          if mode == "load":
            a["edit_perms"] = list(range(nperm))
          yield a


def transition_cases(tier, seed):
  """Single-column edits between graphs: for a graph G and a column i, G is installed, then column
  i is set to each of the other 2^k - 1 reference sets and back to G[i] (so every directed
  single-column transition G -> G' is met from both sides).  k = 1, 2: all (graph, column) pairs;
  k = 3: all 1536 pairs in the thorough tier, every 4th pair (rotating with the seed) in quick."""
  for k in (1, 2, 3):
    per_col = [tuple((j, SAME) for j in s) for s in subsets(range(k))]
    nperm = math.factorial(k)
    n = 0
    for gi, g in enumerate(single_row_graphs(k)):
      for col in range(k):
        n += 1
        if k == 3 and tier == "quick" and (n + seed) % 4: continue
        yield {"k": k, "rows": 1, "graph": g, "mode": "transition", "col": col,
               "perm": (gi + col + seed) % nperm,
               "alternatives": [r for r in per_col if r != g[col]]}


def sampled_cases(tier, seed):
  rng = random.Random(seed * 31 + 18)
  n_asym, n_k4 = (160, 80) if tier == "quick" else (6000, 4000)
  for g in asymmetric_graphs_k2(rng, n_asym):
    yield {"k": 2, "rows": 2, "graph": g, "perm": rng.randrange(2), "mode": rng.choice(["load", "modify"])}
  for g in random_graphs(4, rng, n_k4):
    yield {"k": 4, "rows": 1, "graph": g, "perm": rng.randrange(24), "mode": rng.choice(["load", "modify"])}
  if tier == "thorough":
    for g in random_graphs(5, rng, 1500, p=0.2):
      yield {"k": 5, "rows": 1, "graph": g, "perm": rng.randrange(120), "mode": rng.choice(["load", "modify"])}


def nontrivial(a, r, exc):
  rows = list(range(1, a["rows"] + 1))
  on_cycle, tainted, values = _spec_for(a, {r_: r_ for r_ in rows})
  return bool(on_cycle)


def show(a):
  return {"k": a["k"], "rows": a["rows"], "mode": a["mode"], "perm": a["perm"], "col": a.get("col"),
          "edit_perms": a.get("edit_perms"),
          "formulas": formulas_of(a["k"], a["graph"])}


def contract(name):
  return fn.FnContract(
    name=name, call=call,
    ensures={"C18.terminates_no_internal_error": ens_terminates,
             "C18.self_dependent_cells_circular": ens_circular,
             "C18.others_normal": ens_normal},
    raises={},                     # any exception out of apply_user_actions fails the first clause
    classify=classify, nontrivial=nontrivial, show=show)


def tally_dependents():
  """What do cells hold that depend on a cycle without lying on it (not constrained by the
  statement)?  Measured on the k=3 single-row graphs, own order, load mode."""
  from collections import Counter
  out = Counter()
  for g in single_row_graphs(3):
    a = {"k": 3, "rows": 1, "graph": g, "perm": 0, "mode": "load"}
    on_cycle, tainted, values = _spec_for(a, {1: 1})
    if not (tainted - on_cycle): continue
    r = call(a)
    for c in tainted - on_cycle:
      v = r["obs"][0][1][c]
      out["CircularRefError" if is_circular(v) else repr(v)[:40]] += 1
  return dict(out)


def main():
  rep = common.Report("C18", "exploration")
  rep.assumptions += [
    common.SHIM_ASSUMPTION,
    "bounded: exhaustive over the stated graph space, not a proof for larger graphs",
    "formulas are sums ($n * 10^i + referenced cells): every reference is read unconditionally; "
    "references are same-row ($cj) or through a Ref column to the other row ($o.cj)",
    "evaluation orders are the permutations of the initial work-item list (C06 hook on the real "
    "Engine._make_sorted_work_items, lookup nodes kept first)",
    "'modify' cases run on a long-lived engine per worker process (reset to the acyclic base "
    "document before each case); 'load' cases are stand-alone",
    "cells that depend on a cycle without lying on it are not constrained by the statement",
  ]
  rep.coverage["rule"] = (
    "one evaluation = one (graph, installation mode) case run on the real engine with all three "
    "clauses checked on every cell after every step; exhaustive part: all 2^(k*k) same-row graphs "
    "for k = 1, 2, 3 and all 4^4 = 256 symmetric cross-row graphs for k = 2 with two rows, each in "
    "both modes; per graph, 'load' = Calculate on load under one evaluation order (rotating over "
    "the k! orders along the enumeration; thorough tier: a case per order) followed by a data edit "
    "re-dirtying every cell under EVERY one of the k! orders, 'modify' = the ModifyColumn "
    "transition from the acyclic base document under one rotating order (thorough: every order); "
    "sampled part (not exhaustive): asymmetric two-row graphs and k = 4 (k = 5 in thorough); "
    "non-trivial = the graph has at least one cell on a cycle")
  C06.install_hook()
  for key in ((1, 1), (2, 1), (3, 1), (2, 2), (4, 1), (5, 1)):   # warm-up in the parent: forked
    template(*key)                                                # workers inherit the documents
  fn.check(rep, contract("Engine.apply_user_actions [all graphs, k<=3 and k=2 cross-row]"), cases,
           exhaustive=True, limit_quick_s=40)
  exhaustive = rep.coverage.get("exhaustive", False)
  fn.check(rep, contract("Engine.apply_user_actions [graph -> graph: single-column edits, k<=3]"),
           transition_cases, limit_quick_s=25)
  rep.coverage["transition_scope"] = (
    "every (graph, column) pair for k <= 2, %s for k = 3: the column is edited to each of the "
    "other reference sets and back, all clauses checked against the graph in force after each "
    "edit" % ("every pair" if common.tier() == "thorough" else "every 4th pair (rotating with the seed)"))
  fn.check(rep, contract("Engine.apply_user_actions [sampled: asymmetric cross-row, k=4,5]"),
           sampled_cases, limit_quick_s=12)
  rep.coverage["exhaustive"] = exhaustive
  rep.coverage["exhaustive_scope"] = ("all graphs over k<=3 same-row formula columns (2+16+512) and "
                                      "all 256 symmetric cross-row graphs for k=2, x 2 modes; "
                                      "orders as described in rule")
  try:
    import time
    if common.tier() == "quick" and time.time() - rep.t0 > 70:
      raise RuntimeError("skipped: quick-tier time budget used up")
    rep.coverage["dependents_of_cycles"] = tally_dependents()
  except Exception as ex:
    rep.coverage["dependents_of_cycles"] = "not measured: %r" % (ex,)
  # supporting deductive lemmas: depend.Graph against its abstract edge set, with the invariant that
  # both node indexes are exactly that set (a dependency kept for a cell that no longer reads it keeps a broken cycle alive)
  from vlib.pysym import runner
  common.setup_grist_path()
  runner.semantics_selfcheck(rep)
  runner.run_property(rep, "contracts.C05_graph", bounded=False)
  return rep.finish()


if __name__ == "__main__":
  sys.exit(main())
