"""C29 Read-only calls leave the document untouched — bounded run-time contract (frame condition
`modifies: nothing`) on the real Engine.fetch_table, Engine.fetch_meta_tables,
Engine.get_formula_error, formula_prompt.evaluate_formula, formula_prompt.get_formula_prompt,
Engine.autocomplete and Engine.find_col_from_values (the functions main.py exports under these
names).

After every bundle of every explored history (documents with formula columns, lookups, summary
tables — whose private '#summary#' helper formulas call lookupOrAddDerived — and a never-recalculated
trigger column calling lookupOrAddDerived for keys that do not exist yet), the monitor first makes
the engine quiescent (a Calculate that emits nothing), then for each of the 7 functions performs the
calls of the per-state argument enumeration and checks

  C29.snapshot_unchanged   snapshot (every table, formulas and private columns included) == snapshot
                           before the calls
  C29.calculate_silent     a following Calculate returns no stored actions (and leaves the snapshot
                           unchanged)
A call may raise (bad arguments); it still must not modify anything."""
import os, sys
sys.path.insert(0, os.path.dirname(os.path.dirname(os.path.abspath(__file__))))
from vlib import common
from vlib.rtc import eng, explore, gen

_c = gen._col
gen.SEEDS.setdefault("derived", [
  [["AddTable", "A", [_c("cat", "Text"), _c("n", "Int"), _c("tags", "ChoiceList")]]],
  [["BulkAddRecord", "A", [None, None, None, None],
    {"cat": ["x", "y", "x", ""], "n": [1, 2, 3, 4],
     "tags": [["L", "a"], ["L", "a", "b"], None, ["L"]]}]],
  [["CreateViewSection", 1, 0, "record", [2], None]],          # A_summary_cat
  [["CreateViewSection", 1, 0, "record", [4], None]],          # A_summary_tags
  [["AddTable", "B", [_c("k", "Text"),
                      _c("d", "Any", "A_summary_cat.lookupOrAddDerived(cat=$k).count",
                         isFormula=False),
                      _c("cnt", "Any", "len(A.lookupRecords(cat=$k))"),
                      _c("bad", "Any", "1/0"),
                      _c("r", "Ref:A"), _c("rn", "Any", "$r.n"),
                      # a formula that performs a side effect and then FAILS when it is
                      # re-evaluated by a read-only call: at add time ($big = 0) it stores a
                      # ZeroDivisionError; once $big is 18 the re-evaluation runs out of memory
                      # after lookupOrAddDerived has added a row (MemoryError is the one
                      # exception the engine does not wrap into a cell error)
                      _c("zero", "Int"), _c("big", "Int"),
                      _c("m", "Any", "r = A_summary_cat.lookupOrAddDerived(cat=($k or '') + '!')\n"
                                     "pad = [None] * (10 ** ($big or 0))\n"
                                     "return (r.id + len(pad)) // $zero", isFormula=False)]]],
  [["UpdateRecord", "_grist_Tables_column", 15, {"recalcWhen": 1}]],   # B.d: never recalculated
  [["BulkAddRecord", "B", [None, None, None], {"k": ["x", "zz", "q"], "r": [1, 2, 0],
                                                "zero": [0, 0, 0], "big": [0, 0, 0]}]],
  [["BulkUpdateRecord", "B", [1, 2], {"big": [18, 18]}]],
])

ALL_SEEDS = ("derived", "summary", "lookup", "basic", "refs", "trigger", "prevnext", "twoway")

USER = {"Access": "owners", "UserID": 1, "Email": "a@example.com", "Name": "N", "Origin": None,
        "SessionID": "s", "IsLoggedIn": True, "UserRef": "u", "ShareRef": None, "LinkKey": {}}

AUTOCOMPLETE_TXT = ["$", "$n", "$c", "rec.", "A.lookupRecords(", "B.lookupOne(", "$r.", "A.all",
                    "len(", "user.", "value", "A.", "$group.", "A_summary_cat.lookupOrAddDerived(cat='new').",
                    "A.lookupOne(cat='x').n", "SUM", ""]


def calls_for(e, group):
  """The per-state argument enumeration for one group of calls -> list of (label, thunk).  A group
  is a function name, or '<function>(missing row)' for the calls that pass a non-existent row id."""
  import formula_prompt
  fn = group.split("(")[0]
  missing_rows = "missing row" in group
  summary_group = "summary group column" in group
  out = []
  tabs = eng.user_tables(e)
  kinds = {t["tableId"]: bool(t["summarySourceTable"]) for t in eng.meta_records(e, "_grist_Tables")}
  def cols(t, pred=lambda c: True):
    # document columns only: '#lookup#...' / '#summary#...' helper columns are internal to the
    # sandbox, never communicated, and no client can name them
    return [cid for cid, c in e.tables[t].all_columns.items()
            if cid != "id" and not cid.startswith("#") and pred(c)]
  def rows(t):
    r = list(e.tables[t].row_ids)
    picks = r[:1] + r[-1:] if r else []
    if missing_rows: return [max(r or [0]) + 3]
    return sorted(set(picks))
  if fn == "fetch_table":
    for t in tabs + ["_grist_Tables_column", "_grist_Views_section"]:
      out.append(((t, True), lambda t=t: e.fetch_table(t, formulas=True)))
      out.append(((t, False), lambda t=t: e.fetch_table(t, formulas=False)))
      out.append(((t, "private"), lambda t=t: e.fetch_table(t, private=True)))
      cs = [c for c in cols(t) if not c.startswith("#")]
      if cs:
        c0 = cs[len(cs) // 2]
        out.append(((t, "query", c0), lambda t=t, c0=c0: e.fetch_table(t, query={c0: [1, "x", ["L", "a"]]})))
  elif fn == "fetch_meta_tables":
    out.append(((True,), lambda: e.fetch_meta_tables(True)))
    out.append(((False,), lambda: e.fetch_meta_tables(False)))
  elif fn == "get_formula_error":
    for t in tabs:
      for c in cols(t, lambda c: c.has_formula()):
        for r in rows(t):
          out.append(((t, c, r), lambda t=t, c=c, r=r: e.get_formula_error(t, c, r)))
  elif fn == "evaluate_formula":
    for t in tabs:
      for c in cols(t, lambda c: c.has_formula()):
        if (kinds.get(t) and c == "group") != summary_group: continue
        for r in rows(t):
          out.append(((t, c, r), lambda t=t, c=c, r=r: formula_prompt.evaluate_formula(e, t, c, r)))
  elif fn == "get_formula_prompt":
    for t in tabs:
      cs = [c for c in cols(t) if not c.startswith("#")]
      for c in cs[:1] + cs[-1:]:
        out.append(((t, c), lambda t=t, c=c: formula_prompt.get_formula_prompt(e, t, c)))
        out.append(((t, c, False), lambda t=t, c=c: formula_prompt.get_formula_prompt(e, t, c, False, False)))
  elif fn == "autocomplete":
    for t in tabs:
      cs = [c for c in cols(t) if not c.startswith("#")]
      fcs = [c for c in cs if e.tables[t].all_columns[c].is_formula()][:1]
      dcs = [c for c in cs if not e.tables[t].all_columns[c].is_formula()][-1:]
      if not rows(t): continue
      r = rows(t)[0]
      for c in fcs + dcs + ["nosuchcol"]:
        for txt in AUTOCOMPLETE_TXT:
          out.append(((txt, t, c, r), lambda txt=txt, t=t, c=c, r=r: e.autocomplete(txt, t, c, r, USER)))
  elif fn == "find_col_from_values":
    for vals in ([1, 2, 3], ["a", "b", "x"], [["L", "a"]], [], [None, 0, ""], [1.5, True, "Hello"]):
      for n in (0, 1):
        for t in [None] + tabs[:2]:
          out.append(((vals, n, t), lambda vals=vals, n=n, t=t: e.find_col_from_values(vals, n, t)))
  return out


FUNCTIONS = ("fetch_table", "fetch_meta_tables", "get_formula_prompt", "autocomplete",
             "find_col_from_values", "get_formula_error", "evaluate_formula",
             "autocomplete(missing row)", "get_formula_error(missing row)",
             "evaluate_formula(missing row)")
# evaluate_formula on the `group` column of a summary table can leave the engine unable to run any
# further bundle (see known findings); these two groups are therefore only exercised on the LAST
# state of each history (Monitor.finish), so that the history itself is explored undisturbed.
FINAL_GROUPS = ("evaluate_formula(summary group column)",
                "evaluate_formula(summary group column, missing row)")


class C29Monitor(explore.Monitor):
  seeds = ALL_SEEDS
  length = 5
  weights = {"add": 8, "bulk_add": 3, "update": 10, "bulk_update": 3, "remove": 5, "bulk_remove": 2,
             "add_col": 2, "add_formula_col": 6, "remove_col": 2, "rename_col": 2, "modify_type": 2,
             "modify_formula": 6, "to_formula": 2, "to_data": 2, "add_table": 1, "remove_table": 1,
             "rename_table": 1, "meta_update": 1, "invalid": 1, "replace_data": 1, "multi": 3,
             "add_temp": 1, "upsert": 1, "summary": 3, "reverse": 1, "view": 0, "label": 0}

  def start(self, e, seed_name):
    return {"calls": 0, "raised": 0}

  def after(self, st, e, bundle, group, exc):
    # (1) straight after an ordinary bundle - the engine's current ActionGroup is that bundle's,
    # with its stored / undo actions - the read-only calls must leave every table as it is.  (The
    # "then a Calculate is silent" clause needs a quiescent document and is checked in (2), after
    # a settling Calculate whose ActionGroup is empty: the two situations differ in what the
    # engine's undo checkpoint machinery starts from.)
    if exc is None and group is not None and group.stored:
      pre = eng.snapshot(e, private=True)
      for fn in FUNCTIONS:
        for label, thunk in calls_for(e, fn):
          st["calls"] += 1
          try:
            thunk()
          except Exception:
            st["raised"] += 1
        d = eng.diff_snapshots(pre, eng.snapshot(e, private=True))
        if d:
          return [("C29.snapshot_unchanged", {"function": fn, "diff": d, "when": "right after a bundle",
                                              "culprit": None})]
    # (2) quiescence: whatever the bundle (or its rollback) left pending is flushed first; this is
    # not C29's concern (C04 / C05 look at it)
    for _ in range(2):
      try:
        if not eng.apply(e, [["Calculate"]]).stored: break
      except Exception:
        return []
    else:
      return []          # the document itself is not quiescent (volatile formulas): nothing claimed
    return self.check_groups(st, e, FUNCTIONS)

  def check_groups(self, st, e, groups):
    pre = eng.snapshot(e, private=True)
    for fn in groups:
      labels = []
      for label, thunk in calls_for(e, fn):
        st["calls"] += 1
        labels.append(label)
        try:
          thunk()
        except Exception as ex:
          st["raised"] += 1
      d = eng.diff_snapshots(pre, eng.snapshot(e, private=True))
      if d:
        return [("C29.snapshot_unchanged", {"function": fn, "diff": d,
                                            "culprit": self.find_culprit(e, fn, pre)})]
      try:
        g = eng.apply(e, [["Calculate"]])
      except Exception as ex:
        return [("C29.calculate_silent", {"function": fn, "error": repr(ex)[:300],
                                          "error_type": type(ex).__name__,
                                          "attribute_recorder": "AttributeRecorder" in str(ex),
                                          "calls": [repr(l) for l in labels[:20]]})]
      if g.stored:
        stored = eng.stored_reprs(g)
        # root-cause tag: the Calculate only "removes" rows that do not exist (a removal scheduled
        # during the read-only evaluation survived it)
        phantom = all(a[0] in ("RemoveRecord", "BulkRemoveRecord") and
                      not (set(a[2] if isinstance(a[2], list) else [a[2]]) & set(pre.get(a[1], ((),))[0]))
                      for a in stored)
        v = ("C29.calculate_silent", {"function": fn, "stored": stored[:6],
                                      "only_removals_of_nonexistent_rows": phantom,
                                      "calls": [repr(l) for l in labels[:60]]})
        if phantom and not eng.diff_snapshots(pre, eng.snapshot(e, private=True)):
          # nothing else happened and the stale entries are flushed now: remember the violation
          # (reported at the end of the history) and keep exploring this history
          st.setdefault("deferred", []).append(v)
          continue
        return [v]
      d = eng.diff_snapshots(pre, eng.snapshot(e, private=True))
      if d:
        return [("C29.calculate_silent", {"function": fn, "diff_after_calculate": d})]
    return []

  def find_culprit(self, e, fn, pre):
    return None

  def finish(self, st, e):
    out = list(st.get("deferred", []))
    try:
      quiet = not eng.apply(e, [["Calculate"]]).stored
    except Exception:
      quiet = False
    if quiet:
      out = self.check_groups(st, e, FINAL_GROUPS) + out
    stat_sink(st)
    # explore() reports the FIRST failure of a history: failures of classes that are not listed as
    # known findings go first (a new failure must never hide behind a known one), the known ones
    # are rotated so that each of them is reported by some history
    from checks import C04
    known = C04.known_classes("C29")
    new = [v for v in out if (v[0], self.classify(v[0], v[1], None, None)) not in known]
    old = [v for v in out if v not in new]
    if old:
      k = st["calls"] % len(old)
      old = old[k:] + old[:k]
    return new + old

  def classify(self, clause, detail, bundle, history):
    if detail.get("attribute_recorder"):
      return ("Calculate raises %s: an AttributeRecorder was scheduled for auto-removal by %s"
              % (detail.get("error_type"), detail.get("function")))
    if detail.get("only_removals_of_nonexistent_rows"):
      return "Calculate emits removals of rows that do not exist after %s" % detail.get("function")
    return "%s: %s" % (clause, detail.get("function"))


def stat_sink(st):
  d = os.environ.get("VERIF_C29_STATS")
  if d and os.path.isdir(d):
    import json
    with open(os.path.join(d, "%d.jsonl" % os.getpid()), "a") as f:
      f.write(json.dumps({"calls": st["calls"], "raised": st["raised"]}) + "\n")


def witness_nested_read(rep):
  """Fixed witness (outside the random bound): a trigger formula that adds a derived record, makes
  the lookup map refresh, and then READS another row's formula cell.  get_formula_error evaluates
  it and undoes the added record, but the formula cell recomputed in the nested update keeps the
  value computed while the record existed."""
  col = lambda i, t, f="", isf=None: {"id": i, "type": t, "isFormula": bool(f) if isf is None else isf,
                                      "formula": f}
  history = [
    [["AddTable", "D", [col("k", "Int")]]],
    [["AddTable", "X", [col("k", "Int"), col("cnt", "Any", "len(D.lookupRecords(k=$k))")]]],
    [["AddTable", "P", [col("n", "Int"), col("t", "Any", "D.lookupOrAddDerived(k=5) and "
                        "D.lookupRecords(k=5) and X.lookupOne(k=5).cnt", isf=False)]]],
    [["BulkAddRecord", "D", [None], {"k": [1]}]],
    [["BulkAddRecord", "X", [None, None], {"k": [5, 1]}]],
    [["AddRecord", "P", None, {"n": 1, "t": 0}]],
    [["Calculate"]],
  ]
  try:
    e = eng.new_engine()
    for b in history: eng.apply(e, b)
    pre = eng.snapshot(e, private=True)
    try: e.get_formula_error("P", "t", 1)
    except Exception: pass
    d = eng.diff_snapshots(pre, eng.snapshot(e, private=True))
  except Exception as ex:
    rep.crash("C29 witness: %r" % (ex,))
    return
  rep.coverage["witness_histories"] = 1
  if d:
    rep.violation("C29.snapshot_unchanged", {
      "obligation": "C29.snapshot_unchanged", "class": "witness:nested-read-of-formula-cell-after-derived-add",
      "history": history, "call": "get_formula_error('P', 't', 1)", "detail": {"diff": d}, "tier": "bounded"})


def main():
  import glob, json, shutil, tempfile
  rep = common.Report("C29", "exploration")
  rep.assumptions += [
    common.SHIM_ASSUMPTION,
    "bounded: seeded random histories over 8 seed documents (one defined here: two summary tables "
    "plus a never-recalculated trigger column whose formula calls lookupOrAddDerived for missing "
    "keys); after every bundle, for each of the 7 functions, the per-state argument enumeration of "
    "calls_for() (every user table; every formula / trigger / private helper column; first, last "
    "and a non-existent row id; %d autocomplete fragments; 6 value lists); not a proof"
    % len(AUTOCOMPLETE_TXT),
    "the document is made quiescent with Calculate before the calls; states that are not quiescent "
    "after two Calculates are skipped",
    "column arguments range over the document's columns (ids not starting with '#'); the sandbox's "
    "internal helper columns ('#lookup#...', '#summary#...') are never communicated and are not "
    "valid arguments",
    "evaluate_formula on the `group` column of summary tables is exercised on the last state of "
    "each history only (it can leave the engine unusable, see known findings)",
    "observation: Engine.fetch_table(formulas=True, private=True) over all tables; lookup-map "
    "helper columns ('#lookup#...') are virtual and not observable through it"]
  rep.coverage["rule"] = ("one evaluation = one document state (after one bundle of a history) on "
                          "which all 7 functions were called with the enumerated arguments and "
                          "both clauses checked per function; non-trivial = the bundle changed the "
                          "document or raised (a new state)")
  d = tempfile.mkdtemp(prefix="verif-c29-")
  os.environ["VERIF_C29_STATS"] = d
  try:
    from checks import C02
    C02.tune_explore(0 if common.tier() == "quick" else 20)
    explore.explore(rep, "checks.C29", "C29Monitor", n_quick=64, n_thorough=2400,
                    budget_quick_s=25)
    calls = raised = 0
    for p in glob.glob(os.path.join(d, "*.jsonl")):
      for line in open(p):
        r = json.loads(line); calls += r["calls"]; raised += r["raised"]
    rep.coverage["read_only_calls"] = calls
    rep.coverage["read_only_calls_that_raised"] = raised
    witness_nested_read(rep)
  finally:
    shutil.rmtree(d, ignore_errors=True)
  return rep.finish()


if __name__ == "__main__":
  sys.exit(main())
