"""C39 RenameChoices renames exactly the mapped choices.

Tier P (lemmas, lead's file contracts/C39_choices.py): the cell helpers and rename_choices.
Tier B (this file): run-time contract on the REAL engine for bundles [RenameChoices(T, c, renames)]:
   C39.completes            a string->string mapping on a Choice / ChoiceList column is applied
                            (the bundle does not raise)
   C39.cells_renamed        every Choice cell equal to a key, and every element of a ChoiceList
                            cell equal to a key, is replaced by the mapped value - simultaneously
                            (every lookup is in the ORIGINAL mapping, so swaps work)
   C39.filters_renamed      the column's saved filters in _grist_Filters get the same renaming
   C39.nothing_else         every other data cell of every table (metadata included), all row ids
                            and all other filters are unchanged
The expected document is computed from the pre-state snapshot by a transformation written from the
statement.  Exhaustive over a stated small scope + seeded random histories."""
import copy, itertools, json, os, sys
sys.path.insert(0, os.path.dirname(os.path.dirname(os.path.abspath(__file__))))
from vlib import common
from vlib.rtc import eng, explore, gen, fn

import objtypes                     # real module

_col = gen._col


def _strict(v):
  """Canonical, hashable, NaN-stable and TYPE-STRICT form of an encoded cell value
  (1, 1.0 and True are three different values)."""
  if isinstance(v, bool): return ("b", v)
  if isinstance(v, float):
    if v != v: return ("nan",)
    return ("f", repr(v))
  if isinstance(v, int): return ("i", v)
  if isinstance(v, (list, tuple)): return ("l",) + tuple(_strict(x) for x in v)
  if isinstance(v, dict): return ("d",) + tuple(sorted((str(k), _strict(x)) for k, x in v.items()))
  if isinstance(v, bytes): return ("y", v)
  return v


def data_snapshot(e, keep=None):
  """{table: (row_ids, {col: [encoded values]})} for data columns of all tables (metadata too)."""
  out = {}
  derived = summary_tables(e)
  for t in sorted(e.tables):
    if t in derived: continue        # derived from their source table, like formula results (C12)
    td = e.fetch_table(t, formulas=False)
    sch = e.schema.get(t)
    trig = {c.colId for c in sch.columns.values() if c.formula and not c.isFormula} if sch else set()
    trig.discard(keep)               # trigger-formula columns recalculate by design (C15)
    out[t] = (list(td.row_ids),
              {c: [objtypes.encode_object(v) for v in vals] for c, vals in td.columns.items()
               if c not in trig or t.startswith("_grist_")})
  return out


def summary_tables(e):
  return {r["tableId"] for r in eng.meta_records(e, "_grist_Tables") if r["summarySourceTable"]}


def col_info(e, table_id, col_id):
  sch = e.schema.get(table_id)
  if sch is None or col_id not in sch.columns: return None
  c = sch.columns[col_id]
  return {"type": c.type, "isFormula": c.isFormula, "ref": eng.col_ref(e, table_id, col_id)}


def _ren(renames, v):
  try:
    return renames[v] if isinstance(v, str) and v in renames else v
  except TypeError:
    return v


def expected_after(pre, info, table_id, col_id, renames):
  """The statement, as a transformation of the pre-state."""
  exp = copy.deepcopy(pre)
  if not info["isFormula"]:
    cells = exp[table_id][1][col_id]
    for i, v in enumerate(cells):
      if info["type"] == "Choice":
        cells[i] = _ren(renames, v)
      elif isinstance(v, list) and v and v[0] == "L":
        cells[i] = ["L"] + [_ren(renames, x) for x in v[1:]]
  rows, cols = exp["_grist_Filters"]
  for i, r in enumerate(rows):
    if cols["colRef"][i] != info["ref"] or not cols["filter"][i]: continue
    try:
      f = json.loads(cols["filter"][i])
    except ValueError:
      continue
    if not isinstance(f, dict): continue
    cols["filter"][i] = {"__json__": {k: [_ren(renames, x) for x in vals] if isinstance(vals, list) else vals
                                      for k, vals in f.items()}}
  return exp


def compare(exp, post, table_id, col_id):
  """-> list of (clause, detail)"""
  out = []
  for t in sorted(set(exp) | set(post)):
    if t not in exp or t not in post:
      out.append(("C39.nothing_else", {"table_set_changed": t})); continue
    (r1, c1), (r2, c2) = exp[t], post[t]
    if r1 != r2:
      out.append(("C39.nothing_else", {"table": t, "row_ids": [r1, r2]})); continue
    for c in sorted(set(c1) | set(c2)):
      if c not in c1 or c not in c2:
        out.append(("C39.nothing_else", {"table": t, "column_set_changed": c})); continue
      for r, a, b in zip(r1, c1[c], c2[c]):
        if isinstance(a, dict) and "__json__" in a:
          try: same = json.loads(b) == a["__json__"]
          except Exception: same = False
          if not same:
            out.append(("C39.filters_renamed", {"filter_row": r, "expected": a["__json__"], "got": b}))
        elif _strict(a) != _strict(b):
          if t == table_id and c == col_id: clause = "C39.cells_renamed"
          elif t == "_grist_Filters" and c == "filter": clause = "C39.filters_renamed"
          else: clause = "C39.nothing_else"
          out.append((clause, {"table": t, "column": c, "row": r, "expected": a, "got": b}))
  return out


def check_rename(e, table_id, col_id, renames):
  """Applies [RenameChoices] on the real engine and evaluates the clauses. -> (failures, exc)"""
  info = col_info(e, table_id, col_id)
  pre = data_snapshot(e, col_id)
  try:
    eng.apply(e, [["RenameChoices", table_id, col_id, renames]]); exc = None
  except Exception as ex:
    exc = ex
  post = data_snapshot(e, col_id)
  if exc is not None:
    fails = [("C39.completes", {"raised": "%s: %s" % (type(exc).__name__, str(exc)[:160]),
                                "renames": renames, "type": info["type"],
                                "cells": pre[table_id][1].get(col_id)})]
    d = compare(pre, post, None, None)
    if d: fails.append(("C39.nothing_else", {"after_failure": d[0][1]}))
    return fails, exc
  exp = expected_after(pre, info, table_id, col_id, renames)
  return compare(exp, post, table_id, col_id), None


def classify_failure(clause, detail, renames):
  if clause == "C39.completes":
    msg = detail.get("raised", "")
    kind = msg.split(":")[0]
    if "non-existent record" in msg or "nonexistent" in msg: kind += " non-existent record"
    return "completes:%s;%s-key=%s" % (kind, detail.get("type"),
                                       "''" if "" in renames else "nonempty")
  return clause.split(".", 1)[1]


# ------------------------------------------------------------------------------------------------
# exhaustive small scope
# ------------------------------------------------------------------------------------------------

CHOICE_CELLS = ["a", "b", "", 7]
LIST_CELLS = [None, ["L", "a"], ["L", "a", "b"], ["L", "b", "", "a"], "a"]
KEYS, VALS = ["a", "b", ""], ["a", "b", "c", ""]
# choices whose JSON text differs from the choice itself (escapes: non-ASCII, quote, backslash)
SPECIAL = ["caf\u00e9", "q\"t", "b\\s"]


def _mappings():
  out = [{}]
  for k in KEYS:
    for v in VALS: out.append({k: v})
  for k1, k2 in itertools.combinations(KEYS, 2):
    for v1 in VALS:
      for v2 in VALS: out.append({k1: v1, k2: v2})
  out += [{"x": "a"}, {"a": "b", "b": "c", "c": "a"}]
  return out


def _special_mappings():
  out = [{sp: "z"} for sp in SPECIAL]
  out += [{SPECIAL[0]: SPECIAL[1], SPECIAL[1]: SPECIAL[0]}, {"a": SPECIAL[0]},
          {SPECIAL[2]: "a", "a": SPECIAL[2]}, {SPECIAL[0]: "caf\u00e8"}]
  return out


def _tables(pool):
  for n in range(0, 3):
    for cells in itertools.product(pool, repeat=n):
      yield dict(cells=list(cells), hole=False)
  # three rows, the middle one removed afterwards: its storage slot keeps the column default
  yield dict(cells=[pool[0], pool[1], pool[0]], hole=True)
  yield dict(cells=[pool[1], pool[1], pool[2]], hole=True)


def _cases(tier, seed):
  # the escaped-JSON family first: it must not fall victim to the time limit
  for kind in ("Choice", "ChoiceList"):
    special_tables = ([[SPECIAL[0], SPECIAL[1]], [SPECIAL[2], "a"]] if kind == "Choice" else
                      [[["L", SPECIAL[0], SPECIAL[1]], ["L", "a"]], [["L", SPECIAL[2], "a"], None]])
    for cells in special_tables:
      for m in _special_mappings():
        yield dict(kind=kind, cells=cells, hole=False, renames=m)
  for kind, pool in (("Choice", CHOICE_CELLS), ("ChoiceList", LIST_CELLS)):
    for tb in _tables(pool):
      for m in _mappings():
        yield dict(kind=kind, cells=tb["cells"], hole=tb["hole"], renames=m)


FILTERS = [("c", {"included": ["a", "b", "", 7] + SPECIAL}), ("c", {"excluded": ["b", "zz", SPECIAL[0]]}),
           ("o", {"included": ["a", "b"]}), ("s", {"included": ["a", "b", ""]})]


def _build(a):
  e = eng.new_engine()
  other = "ChoiceList" if a["kind"] == "Choice" else "Choice"
  eng.apply(e, [["AddTable", "T", [_col("c", a["kind"]), _col("o", other), _col("s", "Text"),
                                   _col("f", "Any", "$c")]]])
  n = len(a["cells"])
  if n:
    ov = ["L", "a", "b"] if other == "ChoiceList" else "a"
    eng.apply(e, [["BulkAddRecord", "T", [None] * n,
                   {"c": a["cells"], "o": [ov] * n, "s": ["a", "b", ""][:n] + ["a"] * max(0, n - 3)}]])
  if a["hole"]:
    eng.apply(e, [["RemoveRecord", "T", 2]])
  sec = e.tables["_grist_Views_section"].row_ids
  sec = list(sec)[0]
  acts = []
  for cid, f in FILTERS:
    acts.append(["AddRecord", "_grist_Filters", None,
                 {"viewSectionRef": sec, "colRef": eng.col_ref(e, "T", cid), "filter": json.dumps(f)}])
  eng.apply(e, acts)
  return e


def _call(a):
  e = _build(a)
  fails, exc = check_rename(e, "T", "c", a["renames"])
  return dict(fails=fails, exc=repr(exc) if exc else None)


def _ensure(clause):
  def f(a, r):
    bad = [d for c, d in r["fails"] if c == clause]
    return True if not bad else json.dumps(bad[0], default=repr)[:500]
  return f


def _classify(a, clause, detail):
  import re
  m = re.search(r'"raised": "([^"]*)', str(detail))
  return classify_failure(clause, {"raised": m.group(1) if m else "", "type": a["kind"]},
                          a["renames"])


# ------------------------------------------------------------------------------------------------
# histories
# ------------------------------------------------------------------------------------------------

gen.SEEDS["c39_filters"] = [
  [["AddTable", "A", [_col("c", "Choice"), _col("cl", "ChoiceList"), _col("s", "Text"),
                      _col("c2", "Choice"), _col("f", "Any", "$c + '!' if $c else ''"),
                      _col("g", "Any", "len($cl or ())")]]],
  [["BulkAddRecord", "A", [None] * 5,
    {"c": ["a", "b", "", "a", "c"], "cl": [["L", "a", "b"], None, ["L", "c"], ["L", "b", "a", "b"], ["L"]],
     "s": ["a", "x", "b", "", "c"], "c2": ["b", "a", "a", "", "z"]}]],
  [["AddRecord", "_grist_Filters", None, {"viewSectionRef": 1, "colRef": 2, "filter": "{\"included\": [\"a\", \"b\"]}"}],
   ["AddRecord", "_grist_Filters", None, {"viewSectionRef": 1, "colRef": 3, "filter": "{\"excluded\": [\"a\", \"c\", \"\"]}"}],
   ["AddRecord", "_grist_Filters", None, {"viewSectionRef": 1, "colRef": 4, "filter": "{\"included\": [\"a\", \"b\"]}"}],
   ["AddRecord", "_grist_Filters", None, {"viewSectionRef": 2, "colRef": 5, "filter": "{\"included\": [\"a\", \"b\", \"z\"]}"}],
   ["AddRecord", "_grist_Filters", None, {"viewSectionRef": 2, "colRef": 2, "filter": ""}]],
]

NAMES = ["a", "b", "c", "z", "x", "Hello"] + SPECIAL


class C39Monitor(explore.Monitor):
  seeds = ("c39_filters", "choices", "summary")
  length = 10
  weights = {"update": 14, "bulk_update": 8, "remove": 8, "add": 8, "modify_type": 4,
             "rename_col": 2, "to_formula": 1, "to_data": 1, "view": 1, "add_table": 1,
             "remove_table": 0, "label": 1, "summary": 1}

  def start(self, e, seed_name):
    return {"n": 0, "nontrivial": 0}

  def gen_bundle(self, st, e, g):
    st["exploring"] = True
    rng = g.rng
    if rng.random() < 0.45:
      cands = []
      derived = summary_tables(e)
      for t in eng.user_tables(e):
        if t in derived: continue
        for c in e.schema[t].columns.values():
          if c.type in ("Choice", "ChoiceList"): cands.append((t, c.colId))
      if cands:
        t, c = rng.choice(cands)
        keys = rng.sample(NAMES + [""], rng.randint(0, 3))
        m = {k: rng.choice(NAMES + [""]) for k in keys}
        if keys and rng.random() < 0.3:      # swap / cycle
          ks = list(keys); m = {k: ks[(i + 1) % len(ks)] for i, k in enumerate(ks)}
        return [["RenameChoices", t, c, m]]
    return g.bundle(e)

  def before(self, st, e, bundle):
    st["case"] = None
    if len(bundle) == 1 and bundle[0][0] == "RenameChoices" and len(bundle[0]) == 4:
      _, t, c, m = bundle[0]
      info = col_info(e, t, c) if isinstance(t, str) and isinstance(c, str) else None
      if (info and info["type"] in ("Choice", "ChoiceList") and isinstance(m, dict)
          and t not in summary_tables(e)
          and all(isinstance(k, str) and isinstance(v, str) for k, v in m.items())):
        st["case"] = (t, c, m, info, data_snapshot(e, c))

  def after(self, st, e, bundle, group, exc):
    if not st.get("case"): return []
    t, c, m, info, pre = st["case"]
    st["case"] = None
    post = data_snapshot(e, c)
    if exc is not None:
      fails = [("C39.completes", {"raised": "%s: %s" % (type(exc).__name__, str(exc)[:160]),
                                  "renames": m, "type": info["type"]})]
    else:
      fails = compare(expected_after(pre, info, t, c, m), post, t, c)
    out = []
    for clause, d in fails[:1]:
      d = dict(d); d["renames"] = m
      k = (clause, self.classify(clause, d, bundle, None))
      if st.get("exploring") and k in _known_classes() and k in _REPORTED: continue
      _REPORTED.add(k)
      out.append((clause, d))
    return out

  def nontrivial(self, st, bundle, group, exc):
    return bool(bundle and bundle[0][0] == "RenameChoices" and (exc is not None or (group and group.stored)))

  def classify(self, clause, detail, bundle, history):
    return classify_failure(clause, detail, detail.get("renames", {}))


_REPORTED = set()
_KNOWN = []

def _known_classes():
  if not _KNOWN:
    _KNOWN.append({(f["match"].get("obligation"), f["match"].get("class"))
                   for f in common.load_known_findings("C39")})
  return _KNOWN[0]


def main():
  rep = common.Report("C39", "exploration")
  rep.assumptions += [
    common.SHIM_ASSUMPTION,
    "tier P lemmas (contracts/C39_choices.py): choices opaque, compared with ==",
    "bounded, exhaustive part: one table T(c Choice|ChoiceList, o, s, f=$c) with 0..2 rows over the "
    "cell pools %r / %r plus two 3-row tables whose middle row was removed, 4 saved filters (two on "
    "c, one on each other column), every mapping with <= 2 keys from %r to values %r plus a "
    "non-matching key and a 3-cycle, plus tables and mappings over the choices %r whose JSON text is "
    "escaped (saved filters are written with json.dumps); random part: seeded histories in which RenameChoices with "
    "random mappings (incl. swaps/cycles) alternates with edits, type changes and removals; "
    "not a proof" % (CHOICE_CELLS, LIST_CELLS, KEYS, VALS, SPECIAL),
    "mappings are str -> str; the column belongs to a user table that is not a summary table; "
    "formula columns, other trigger-formula columns and summary tables are outside the frame clause (they are recalculated / "
    "regrouped from the renamed data; C12 covers them); "
    "filters are compared as parsed JSON"]
  rep.coverage["rule"] = (
    "one evaluation = one bundle [RenameChoices] applied to the real engine and compared with the "
    "transformation of the pre-state; non-trivial (exhaustive part) = distinct (column kind, "
    "cells, mapping); (random part) = RenameChoices bundles that changed the document or raised")
  from vlib.pysym import runner
  runner.run_property(rep, "contracts.C39_choices", bounded=False)
  c = fn.FnContract(
    "Engine.apply_user_actions([RenameChoices]) (small scope)", _call,
    ensures={k: _ensure(k) for k in ("C39.completes", "C39.cells_renamed", "C39.filters_renamed",
                                     "C39.nothing_else")},
    classify=_classify)
  n_small = fn.check(rep, c, _cases, exhaustive=True, limit_quick_s=40)
  small_exhaustive = rep.coverage.get("exhaustive")
  explore.explore(rep, "checks.C39", "C39Monitor", n_quick=320, n_thorough=6000,
                  budget_quick_s=25, budget_thorough_s=600)
  rep.coverage["exhaustive"] = False
  rep.coverage["exhaustive_part"] = {"cases": n_small, "complete": bool(small_exhaustive)}
  return rep.finish()


if __name__ == "__main__":
  sys.exit(main())
