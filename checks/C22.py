"""C22 Cell value conversion is total and idempotent — bounded run-time contract on the real
usertypes.<Type>().convert for every column type class found in usertypes.py.

  requires  : (none: any Python value)
  ensures   : C22.never_raises   convert(v) and convert(convert(v)) return normally
              C22.result_typed   r = convert(v) satisfies the type's own is_right_type(r), or is a
                                 string (alt-text), or is v itself when v is a RaisedException
              C22.error_unchanged  v a RaisedException  =>  convert(v) is v
              C22.idempotent     convert(r) is the same value as r (same scalar type and value,
                                 NaN == NaN, sequences element-wise)
Bound: every type class x a fixed pool of ~330 values (numbers incl. 10**400 / inf / NaN, strings
incl. numeric / JSON / ISO-date / RecordList look-alikes, bytes, containers, dates, records and
record sets of a real engine, AltText, errors, hostile user classes) — enumerated completely — plus
seeded random values (strings from a conversion-relevant alphabet, numbers from random bit
patterns, nested lists).  Bounded, never a proof."""
import os, sys
sys.path.insert(0, os.path.dirname(os.path.dirname(os.path.abspath(__file__))))
import datetime
import decimal
import enum
import fractions
import json
import math
import random
import struct
import collections
import warnings

from vlib import common
from vlib.rtc import fn

common.setup_grist_path()
warnings.simplefilter("ignore")

PROP = "C22"
N_RANDOM = {"quick": 1500, "thorough": 400000}      # random values, each tried on every type


from contracts.C22_values import pool, value as pool_value, StrSub    # noqa: E402

_STATE = {}

ALPHA = list("0123456789") * 2 + list("+-.eE,[]{}\"' :TZ_/xna") + ["[1", "RecordList([", "])", "true", "inf",
         "nan", "2020-01-02", "T03:04:05", "+05:00", "1e", "１", "\xe9", "null", ", "]

def random_value(seed, i):
  r = random.Random(seed * 1000003 + i * 7919 + 17)
  k = r.randrange(10)
  if k <= 3:
    return "".join(r.choice(ALPHA) for _ in range(r.randint(1, 8)))
  if k == 4:    # JSON-ish list text
    items = [r.choice(["1", "2", "0", "-1", "1.5", "\"a\"", "\"\"", "null", "true", "[1]", "1e400", "2147483648"])
             for _ in range(r.randint(0, 3))]
    return r.choice(["", " "]) + "[" + r.choice([",", ", "]).join(items) + "]" + r.choice(["", " ", "x"])
  if k == 5:    # float from random bits
    return struct.unpack("<d", struct.pack("<Q", r.getrandbits(64)))[0]
  if k == 6:
    return r.choice([1, -1]) * r.getrandbits(r.choice([4, 16, 31, 32, 33, 53, 64, 1100, 1400]))
  if k == 7:    # list / tuple of small things
    items = [r.choice([0, 1, 2, -1, 2 ** 31, True, None, "a", "", 1.5, float("nan"), [1], ("a",)])
             for _ in range(r.randint(0, 3))]
    return r.choice([list, tuple])(items)
  if k == 8:    # date-ish text
    return "%04d-%02d-%02d%s" % (r.choice([0, 1, 1969, 1970, 2020, 9999, 10000]), r.randint(0, 13), r.randint(0, 32),
                                 r.choice(["", "T00:00:00", "T23:59:59Z", " 12:00", "T12:00:00-11:00", "T24:00:00"]))
  return r.choice(["RecordList([%s])", "RecordList([%s], group_by=None, sort_by=None)", "RecordList([%s]", "[%s]"]) % (
      r.choice([",", ", "]).join(str(r.choice([0, 1, 2, 3, -1, 2 ** 31, "a", 1.5, ""])) for _ in range(r.randint(0, 3))))


def value_of(a):
  if a["value"].startswith("rnd:"):
    return random_value(a["seed"], int(a["value"][4:]))
  return pool_value(a["value"])


def type_instances():
  """{name: instance} for every BaseColumnType subclass defined in the real usertypes module."""
  if "types" in _STATE:
    return _STATE["types"]
  import usertypes, inspect
  out = {}
  for name, cls in sorted(vars(usertypes).items()):
    if not (inspect.isclass(cls) and issubclass(cls, usertypes.BaseColumnType)) or cls is usertypes.BaseColumnType:
      continue
    params = list(inspect.signature(cls.__init__).parameters)[1:]
    if "table_id" in params:
      out[name] = cls("T")
    elif "timezone" in params:
      out[name] = cls("America/New_York")
      out[name + "@UTC"] = cls("UTC")
      out[name + "@Asia/Kolkata"] = cls("Asia/Kolkata")
    else:
      out[name] = cls()
  _STATE["types"] = out
  return out


def safe_repr(v, limit=200):
  try:
    s = repr(v)
  except Exception:
    s = "<%s (repr raises)>" % type(v).__name__
  return s if len(s) <= limit else s[:limit // 2] + "...(len %d)..." % len(s) + s[-40:]


def same(a, b, depth=0):
  """Same value: identical object, or same scalar type and equal (NaN == NaN); strings by ==; lists / tuples
  element-wise (a RecordList is a list: list subclasses that compare equal element-wise are the
  same value); anything else by type identity and ==."""
  if a is b:
    return True
  if depth > 50:
    return False
  try:
    if isinstance(a, float) and isinstance(b, float) and type(a) is type(b):
      return a == b or (math.isnan(a) and math.isnan(b))
    if isinstance(a, str) and isinstance(b, str):
      return str.__eq__(a, b) is True
    for kind in (list, tuple):
      if isinstance(a, kind) or isinstance(b, kind):
        return (isinstance(a, kind) and isinstance(b, kind) and len(a) == len(b) and
                all(same(x, y, depth + 1) for x, y in zip(a, b)))
    return type(a) is type(b) and bool(a == b)
  except Exception:
    return False


class Outcome(dict):
  def __repr__(self):
    return "{%s}" % ", ".join("%s: %s" % (k, safe_repr(self[k])) for k in ("r", "r2", "raised1", "raised2")
                              if k in self)


def call(a):
  t = type_instances()[a["type"]]
  v = value_of(a)
  out = Outcome(v=v, t=t)
  try:
    out["r"] = t.convert(v)
  except BaseException as e:         # convert must never raise
    if isinstance(e, (KeyboardInterrupt, SystemExit, MemoryError)): raise
    out["raised1"] = e
    return out
  try:
    out["r2"] = t.convert(out["r"])
  except BaseException as e:
    if isinstance(e, (KeyboardInterrupt, SystemExit, MemoryError)): raise
    out["raised2"] = e
  return out


def _is_huge_integral(v):
  """ints / integral rationals (or their digit strings held in AltText) beyond the float range."""
  import objtypes
  try:
    if isinstance(v, objtypes.AltText): v = int(str(v))
    if isinstance(v, (list, tuple)) and len(v) == 1: v = v[0]
    if isinstance(v, bool) or not isinstance(v, (int, fractions.Fraction)): return False
    return abs(v) > 2 ** 1024 and v == int(v)
  except Exception:
    return False


def value_kind(v):
  import objtypes, records
  if isinstance(v, objtypes.AltText): return "AltText"
  if isinstance(v, (bool, int, float, complex, decimal.Decimal, fractions.Fraction)): return "number"
  if isinstance(v, str): return "str"
  if isinstance(v, (bytes, bytearray, memoryview)): return "bytes"
  if isinstance(v, (datetime.date, datetime.time, datetime.timedelta)): return "date"
  if isinstance(v, (records.Record, records.RecordSet)): return "record"
  if isinstance(v, objtypes.RaisedException): return "error"
  if isinstance(v, (list, tuple, dict, set, frozenset, range)) or hasattr(type(v), "__next__"): return "container"
  return "object"


def value_class(a, o):
  """Canonical class of the failing input, computed from the input and the real results."""
  tname = a["type"].split("@")[0]
  v = o["v"]
  r, r2 = o.get("r"), o.get("r2")
  if tname in ("Numeric", "PositionNumber", "ManualSortPos") and _is_huge_integral(v) and \
      isinstance(r, str) and r2 in (float("inf"), float("-inf")):
    return "float-family:integral>float-max gives digit string, digit string gives inf"
  if tname in ("ChoiceList", "ReferenceList", "Attachments") and "r2" in o and \
      isinstance(r, (list, tuple)) and len(r) == 0 and r2 is None:
    return "list-types:empty sequence result is not normalised to None (%s input)" % value_kind(v)
  if tname == "Blob" and r is v and not isinstance(v, str):
    return "Blob:do_convert is the identity (non-bytes value returned unchanged)"
  if "r2" in o and isinstance(r, str) and not isinstance(v, str) and not isinstance(r2, str):
    try:
      is_alt = (r == str(v))
    except Exception:
      is_alt = False
    if is_alt:
      return "alt-text str(v) of an unconvertible %s is itself convertible text" % value_kind(v)
  return "%s:%s" % (tname, type(v).__name__)


def _c_never_raises(a, o):
  if "raised1" in o: return "%s :: convert(v) raised %r" % (value_class(a, o), o["raised1"])
  if "raised2" in o: return "%s :: convert(convert(v)) raised %r (convert(v)=%s)" % (
      value_class(a, o), o["raised2"], safe_repr(o["r"]))
  return True

def _c_result_typed(a, o):
  import objtypes
  if "r" not in o: return True         # reported by never_raises
  r, v, t = o["r"], o["v"], o["t"]
  if isinstance(r, str): return True
  if isinstance(v, objtypes.RaisedException) and r is v: return True
  try:
    ok = t.is_right_type(r)
  except Exception as e:
    return "%s :: is_right_type raised %r on %s" % (value_class(a, o), e, safe_repr(r))
  if ok is True or (ok and not isinstance(r, objtypes.RaisedException)): return True
  return "%s :: convert(v) = %s is neither of the type, nor a string, nor the unchanged error" % (
      value_class(a, o), safe_repr(r))

def _c_error_unchanged(a, o):
  import objtypes
  if "r" not in o or not isinstance(o["v"], objtypes.RaisedException): return True
  return True if o["r"] is o["v"] else "%s :: error object replaced by %s" % (value_class(a, o), safe_repr(o["r"]))

def _c_idempotent(a, o):
  if "r2" not in o: return True
  if same(o["r"], o["r2"]): return True
  return "%s :: convert(v) = %s but convert(convert(v)) = %s" % (
      value_class(a, o), safe_repr(o["r"]), safe_repr(o["r2"]))


_SEEN = collections.Counter()

def _dedup(clause, pred):
  """At most 3 reports per (clause, class) and worker process, so that one class cannot crowd
  out others in fn.check's per-worker failure list; counts stay in the evidence as 'count'."""
  def wrapped(a, o):
    res = pred(a, o)
    if res is True: return True
    k = (clause, res.split(" :: ")[0])
    _SEEN[k] += 1
    return res if _SEEN[k] <= 3 else True
  return wrapped


def cases(tier, seed):
  names = list(type_instances())
  for label, _ in pool():
    for tn in names:
      yield {"type": tn, "value": label, "seed": seed}
  for i in range(N_RANDOM[tier]):
    for tn in names:
      yield {"type": tn, "value": "rnd:%d" % i, "seed": seed}


def show(a):
  return {"type": a["type"], "value": a["value"], "seed": a["seed"], "repr": safe_repr(value_of(a), 300)}


def main():
  rep = common.Report(PROP, "exploration")
  tier = common.tier()
  names = list(type_instances())
  npool = len(pool())
  rep.assumptions += [
    "bounded: a fixed pool of %d values x %d type instances (enumerated completely) plus %d seeded "
    "random values per type; not a proof" % (npool, len(names), N_RANDOM[tier]),
    "'alt-text string' is read as: any str instance; 'of that type' is the type's own is_right_type",
    "same value = same scalar type and ==, NaN equal to NaN, 0.0 equal to -0.0, lists/tuples "
    "element-wise; a RecordList and a list with the same row ids count as the same value (== holds, "
    "the encoded form is identical; the group_by/sort_by attributes are not part of the value)",
    "values are Python objects built in-process (records and record sets of a real two-table engine); "
    "KeyboardInterrupt/SystemExit/MemoryError are out of scope",
    "DateTime is instantiated for America/New_York, UTC and Asia/Kolkata; Ref/RefList for table 'T'",
  ]
  rep.coverage["rule"] = ("one evaluation = convert(v) then convert(convert(v)) on one (type instance, value) "
                          "pair with all four clauses checked; non-trivial and distinct = distinct pairs "
                          "for which convert did not return the identical input object")
  # deductive part (all values, all types): exception flow of BaseColumnType.convert / safe_repr
  from vlib.pysym import runner
  rep.assumptions.append(
    "deductive part: do_convert, str(value), repr(value) are arbitrary code that may return or "
    "raise any Exception; type(obj).__name__ and str concatenation never raise; exceptions "
    "outside Exception are out of scope")
  runner.run_property(rep, "contracts.C22_convert", bounded=False)
  rep.coverage["types"] = names
  rep.coverage["pool_values"] = npool
  rep.coverage["random_values_per_type"] = N_RANDOM[tier]
  contract = fn.FnContract(
    name="usertypes.<Type>.convert",
    call=call,
    ensures={"C22.never_raises": _dedup("C22.never_raises", _c_never_raises),
             "C22.result_typed": _dedup("C22.result_typed", _c_result_typed),
             "C22.error_unchanged": _dedup("C22.error_unchanged", _c_error_unchanged),
             "C22.idempotent": _dedup("C22.idempotent", _c_idempotent)},
    classify=lambda a, clause, detail: str(detail).split(" :: ")[0],
    nontrivial=lambda a, o, exc: o is not None and o.get("r", a) is not o["v"],
    show=show)
  fn.check(rep, contract, cases, exhaustive=False)
  rep.coverage["exhaustive"] = False
  rep.coverage["pool_enumerated_completely"] = not any(
      c.get("truncated_by_time_limit") for c in rep.coverage.get("contracts", []))
  return rep.finish()


if __name__ == "__main__":
  try:
    code = main()
  except Exception:          # a failure of the harness itself is a checker error, never a verdict
    import traceback
    print("CHECKER-ERROR property=%s %s" % (PROP, traceback.format_exc(limit=6).replace("\n", " | ")))
    code = common.EXIT_CRASH
  sys.exit(code)
