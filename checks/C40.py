"""C40 Predicate formula parse trees are faithful — bounded run-time contract on the real
predicate_formula.parse_predicate_formula.

  requires : (none: any text)
  raises   : SyntaxError  only if the text is outside the documented subset (C40.subset_accepted)
  ensures  : C40.unsupported_rejected  the text lies in the documented subset (otherwise a tree was
                                       produced for syntax the node table cannot express)
             C40.json_serialisable     json.dumps(tree) works and the tree is made of lists whose
                                       leaves are str/int/float/bool/None (loads(dumps(t)) == t)
             C40.eval_agrees           a tree interpreter written from the documented node table
                                       gives the same value (type + value) or the same exception
                                       type as Python eval of the expression with $x read as rec.x
             C40.comment               a trailing comment yields ['Comment', tree, text]; no
                                       Comment node otherwise
The subset is decided on Python's own ast of the text (independent of the code under test):
Expression, BoolOp And/Or, BinOp Add/Sub/Mult/Div/Mod, UnaryOp Not, Compare with one operator of
Eq/NotEq/Lt/LtE/Gt/GtE/Is/IsNot/In/NotIn, List, Tuple (read as List, as documented), Constant of
str/int/float/bool/None, Name, Attribute, Call with plain and keyword arguments.

Bound: family E3 = every fully parenthesised expression of nesting depth <= 3 over 3 atoms
($x, 'a', None; thorough: 5 atoms, adding 2 and [2, 'a']), the 15 binary operators, `not`, and `is`/`is not` against None — enumerated
completely; family W = every depth-2 expression over a wide atom set (attributes, names,
constants of every supported kind, lists, tuples, calls) x all operators; family F = the same
operator trees printed WITHOUT parentheses (precedence, n-ary and/or, chained comparisons);
family C = trailing comments; family N = a fixed list of non-subset texts; plus seeded random
deeper expressions.  Bounded, never a proof."""
import os, sys
sys.path.insert(0, os.path.dirname(os.path.dirname(os.path.abspath(__file__))))
import ast
import itertools
import json
import math
import random
import warnings

from vlib import common
from vlib.rtc import fn

common.setup_grist_path()
warnings.simplefilter("ignore")

PROP = "C40"

BIN = [("Add", "+"), ("Sub", "-"), ("Mult", "*"), ("Div", "/"), ("Mod", "%"),
       ("And", "and"), ("Or", "or"),
       ("Eq", "=="), ("NotEq", "!="), ("Lt", "<"), ("LtE", "<="), ("Gt", ">"), ("GtE", ">="),
       ("In", "in"), ("NotIn", "not in")]
IS = [("Is", "is"), ("IsNot", "is not")]

# An expression is a pair (formula text given to the parser, python text given to eval).
def atom(f, py=None): return (f, f if py is None else py)
ATOMS = {"quick": [atom("$x", "rec.x"), atom("'a'"), atom("None")],
         "thorough": [atom("$x", "rec.x"), atom("'a'"), atom("2"), atom("None"), atom("[2, 'a']")]}
SINGLETONS = [atom("None")]
WIDE = [atom("$x", "rec.x"), atom("rec.y"), atom("$z", "rec.z"), atom("$l", "rec.l"), atom("$f", "rec.f"),
        atom("$b", "rec.b"), atom("user.name"), atom("user.info.k"), atom("newRec.x"), atom("k"),
        atom("$x.real", "rec.x.real"), atom("1"), atom("0"), atom("2.5"), atom("1e3"), atom("0x10"),
        atom("10000000000000000000000"), atom("'a'"), atom("''"), atom('"b"'), atom("'$x'"),
        atom("'#no'"), atom("'a' 'b'"), atom("u'\\xe9'"), atom("True"), atom("False"), atom("None"),
        atom("[]"), atom("[1, 'a']"), atom("[$x, 2]", "[rec.x, 2]"), atom("()", "[]"),
        atom("(1, 'a')", "[1, 'a']"), atom("(3,)", "[3]"), atom("[[1], []]"),
        atom("f(1)"), atom("f()"), atom("f($x, k=2)", "f(rec.x, k=2)"), atom("user.m(1, 'a')"),
        atom("f(1).k"), atom("f(a=1, **d)"), atom("g([1, 2], 2)"),
        # literal non-ASCII text (1-, 2-, 3- and 4-byte UTF-8, i.e. byte, character and UTF-16
        # offsets all differ after it) ahead of a $ reference on the same line
        atom("'\u00e9'"), atom("'Jos\u00e9 \u65e5\u672c'"), atom("'\U0001f600'"), atom("user.N\u00f6m")]


def paren(op, l, r):
  return ("(%s) %s (%s)" % (l[0], op, r[0]), "(%s) %s (%s)" % (l[1], op, r[1]))

def flat(op, l, r):
  return ("%s %s %s" % (l[0], op, r[0]), "%s %s %s" % (l[1], op, r[1]))

def neg(e, par=True):
  return ("not (%s)" % e[0], "not (%s)" % e[1]) if par else ("not %s" % e[0], "not %s" % e[1])


def level_up(prev, atoms_for_is, join):
  """All expressions with one more operator level over `prev` (a list)."""
  for (_, op) in BIN:
    for l in prev:
      for r in prev:
        yield join(op, l, r)
  for (_, op) in IS:
    for l in prev:
      for r in atoms_for_is:
        yield join(op, l, r)
  for e in prev:
    yield neg(e, join is paren)


def family_E3(atoms):
  e1 = list(atoms)
  e2 = e1 + list(level_up(e1, SINGLETONS, paren))
  return itertools.chain(e2, level_up(e2, SINGLETONS, paren))


def family_W():
  return itertools.chain(WIDE, level_up(WIDE, [atom("None"), atom("True"), atom("False")], paren))


def family_F():
  """Operator trees of depth <= 3 printed without parentheses (precedence decides the tree;
  `a < b < c` is a chained comparison and must be rejected)."""
  atoms = [atom("$x", "rec.x"), atom("'a'"), atom("2")]
  e2 = list(level_up(atoms, SINGLETONS, flat))
  for e in e2: yield e
  for (_, op) in BIN + IS:
    for l in e2[::3]:
      for r in atoms:
        yield flat(op, l, r)
        yield flat(op, r, l)
  for op in ("and", "or"):
    for a, b, c in itertools.product(atoms + [atom("None")], repeat=3):
      yield ("%s %s %s %s %s" % (a[0], op, b[0], op, c[0]), "%s %s %s %s %s" % (a[1], op, b[1], op, c[1]))


COMMENTS = [" # hello", "#x", "  #  a # b  ", " # 'q' $y", " #", " # \xe9"]
def family_C():
  for e in WIDE[:12] + [paren("==", WIDE[0], WIDE[17]), flat("and", WIDE[0], WIDE[1])]:
    for c in COMMENTS:
      yield (e[0] + c, e[1], c.strip()[1:].strip())
  yield ("($x # inner\n + 1)", "(rec.x\n + 1)", "inner")
  yield ("'#' == $y", "'#' == rec.y", None)


NONSUBSET = ["-1", "+$x", "~$x", "not -1", "$x ** 2", "$x // 2", "$x << 1", "$x >> 1", "$x | 1", "$x & 1", "$x ^ 1",
             "$x @ 1", "$x if $y else 2", "1 < 2 < 3", "$x == 1 == 1", "1 < $x <= 3", "$x in [1] in [2]",
             "(a := 1)", "lambda: 1", "lambda x: x", "{}", "{1}", "{1: 2}", "{**a}", "[a for a in b]",
             "{a for a in b}", "{a: 1 for a in b}", "(a for a in b)", "$l[0]", "$l[0:1]", "$l[::2]", "[*a]",
             "f(*a)", "f(1, *a)", "f'x'", "f'{a}'", "f'{$x}'", "await a", "yield", "(yield)", "(yield a)",
             "rec.x == b'a'", "b'a'", "b''", "1j", "2.5j", "$x + 1j", "...", "$x == ...", "[...]", "f(...)",
             "[b'a']", "f(k=b'a')", "$x in (1, b'a')", "not b'a'",
             "", " ", "\n", "$", "$1", "1 +", "(1", "1)", "[1", "1 if", "x = 1", "x == 1; y", "import os",
             "a\n+b", "print 1", "1 2", "'a", "a.", ".a", "a..b", "$x $y", "x y", "not", "and", "1 and", "in [1]",
             "def f(): pass", "a, b = 1, 2", "*a", "**a", "a := 1", "del a", "pass", "return 1", "#only comment",
             "1e999", "-1e999", "10 ** 400", "$x.1", "0777", "1__0", "'\\ud800'", "'\\N{nope}'"]


def random_expr(r, depth):
  """Random expression of the subset (plus, rarely, a non-subset operator), mixed parenthesisation."""
  if depth <= 0 or r.random() < 0.2:
    return r.choice(WIDE)
  k = r.randrange(12)
  if k == 0:
    return neg(random_expr(r, depth - 1), r.random() < 0.7)
  if k == 1:
    elts = [random_expr(r, depth - 1) for _ in range(r.randint(0, 3))]
    if r.random() < 0.5 or len(elts) == 0:
      return ("[%s]" % ", ".join(e[0] for e in elts), "[%s]" % ", ".join(e[1] for e in elts))
    tail = "," if len(elts) == 1 else ""
    return ("(%s%s)" % (", ".join(e[0] for e in elts), tail), "[%s]" % ", ".join(e[1] for e in elts))
  if k == 2:
    args = [random_expr(r, depth - 1) for _ in range(r.randint(0, 2))]
    kw = [("k", random_expr(r, depth - 1))] if r.random() < 0.4 else []
    fa = [e[0] for e in args] + ["%s=%s" % (n, e[0]) for n, e in kw]
    pa = [e[1] for e in args] + ["%s=%s" % (n, e[1]) for n, e in kw]
    return ("f(%s)" % ", ".join(fa), "f(%s)" % ", ".join(pa))
  if k == 3:
    e = random_expr(r, depth - 1)
    a = r.choice(["k", "real", "name", "x"])
    return ("(%s).%s" % (e[0], a), "(%s).%s" % (e[1], a))
  if k == 4 and r.random() < 0.3:
    op = r.choice(["**", "//", "|", "&", "<<"])
  elif k == 5:
    op = r.choice(IS)[1]
    return (paren if r.random() < 0.6 else flat)(op, random_expr(r, depth - 1), r.choice(
        [atom("None"), atom("True"), atom("False")]))
  else:
    op = r.choice(BIN)[1]
  return (paren if r.random() < 0.6 else flat)(op, random_expr(r, depth - 1), random_expr(r, depth - 1))


N_RANDOM = {"quick": 20000, "thorough": 600000}

def cases(tier, seed):
  seen = set()
  for fam, gen in (("E3", family_E3(ATOMS[tier])), ("W", family_W()), ("F", family_F())):
    for e in gen:
      if fam == "F":
        if e[0] in seen: continue
        seen.add(e[0])
      yield {"family": fam, "formula": e[0], "py": e[1], "comment": None}
  for e in family_C():
    yield {"family": "C", "formula": e[0], "py": e[1], "comment": e[2]}
  for s in NONSUBSET:
    yield {"family": "N", "formula": s, "py": s.replace("$", "rec."), "comment": None}
  r = random.Random(seed * 7919 + 5)
  for i in range(N_RANDOM[tier]):
    e = random_expr(r, 4)
    c = r.choice(COMMENTS) if r.random() < 0.1 else None
    if e[0] + (c or "") in seen: continue
    seen.add(e[0] + (c or ""))
    yield {"family": "R", "formula": e[0] + (c or ""), "py": e[1], "comment": c.strip()[1:].strip() if c else None}


# ---------------------------------------------------------------------------------------------
# The specification side: subset membership on Python's ast, the environment, the interpreter.
_OK_BINOP = (ast.Add, ast.Sub, ast.Mult, ast.Div, ast.Mod)
_OK_CMP = (ast.Eq, ast.NotEq, ast.Lt, ast.LtE, ast.Gt, ast.GtE, ast.Is, ast.IsNot, ast.In, ast.NotIn)

import functools

@functools.lru_cache(maxsize=8)
def unsupported_reason(py):
  """None when the text is inside the documented subset, else a short reason (class)."""
  try:
    tree = ast.parse(py, mode="eval")
  except (SyntaxError, ValueError):
    return "not-a-python-expression"
  for n in ast.walk(tree):
    if isinstance(n, (ast.Expression, ast.Load, ast.And, ast.Or, ast.Not, ast.Name, ast.Attribute,
                      ast.List, ast.Tuple, ast.keyword) + _OK_BINOP + _OK_CMP):
      continue
    if isinstance(n, ast.BoolOp) or isinstance(n, ast.Call):
      continue
    if isinstance(n, ast.BinOp):
      if isinstance(n.op, _OK_BINOP): continue
      return "BinOp-" + type(n.op).__name__
    if isinstance(n, ast.UnaryOp):
      if isinstance(n.op, ast.Not): continue
      return "UnaryOp-" + type(n.op).__name__
    if isinstance(n, ast.Compare):
      if len(n.ops) == 1: continue
      return "chained-comparison"
    if isinstance(n, ast.Constant):
      if type(n.value) in (str, int, float, bool, type(None)): continue
      return "Constant-" + type(n.value).__name__
    if isinstance(n, (ast.operator, ast.unaryop, ast.cmpop)):
      continue      # judged at the parent
    return type(n).__name__
  return None


class Obj(object):
  def __init__(self, **kw): self.__dict__.update(kw)
  def m(self, *a): return ["m"] + list(a)

def environment():
  return dict(_ENV)

def _environment():
  def f(*a, **k): return Obj(k=len(a) + len(k), args=list(a), kw=sorted(k.items()), x=1, name="f", real=0)
  def g(a, b): return a * b
  return {"rec": Obj(x=3, y="a", z=None, l=[1, "a"], f=2.5, b=True),
          "user": Obj(name="a", n=2, info=Obj(k=3), k=4, x=5, real=6),
          "newRec": Obj(x=4), "k": 7, "d": {"z": 1}, "f": f, "g": g, "__builtins__": {}}


class Unknown(Exception):
  pass

_ENV = _environment()

def interpret(t, env):
  """Tree interpreter written from the node table in parse_predicate_formula's docstring (Python
  value semantics: and/or short-circuit and return the deciding operand)."""
  if not isinstance(t, list) or not t or not isinstance(t[0], str):
    raise Unknown("not a node: %r" % (t,))
  tag, args = t[0], t[1:]
  if tag in ("And", "Or"):
    if len(args) < 2: raise Unknown("%s with %d values" % (tag, len(args)))
    v = None
    for a in args:
      v = interpret(a, env)
      if (not v) if tag == "And" else bool(v):
        return v
    return v
  if tag in ("Add", "Sub", "Mult", "Div", "Mod", "Eq", "NotEq", "Lt", "LtE", "Gt", "GtE", "Is", "IsNot", "In", "NotIn"):
    if len(args) != 2: raise Unknown("%s with %d operands" % (tag, len(args)))
    l = interpret(args[0], env); r = interpret(args[1], env)
    if tag == "Add": return l + r
    if tag == "Sub": return l - r
    if tag == "Mult": return l * r
    if tag == "Div": return l / r
    if tag == "Mod": return l % r
    if tag == "Eq": return l == r
    if tag == "NotEq": return l != r
    if tag == "Lt": return l < r
    if tag == "LtE": return l <= r
    if tag == "Gt": return l > r
    if tag == "GtE": return l >= r
    if tag == "Is": return l is r
    if tag == "IsNot": return l is not r
    if tag == "In": return l in r
    return l not in r
  if tag == "Not":
    if len(args) != 1: raise Unknown("Not with %d operands" % len(args))
    return not interpret(args[0], env)
  if tag == "List":
    return [interpret(a, env) for a in args]
  if tag == "Const":
    if len(args) != 1: raise Unknown("Const arity")
    return args[0]
  if tag == "Name":
    if len(args) != 1 or not isinstance(args[0], str): raise Unknown("Name arity")
    if args[0] not in env: raise NameError(args[0])
    return env[args[0]]
  if tag == "Attr":
    if len(args) != 2 or not isinstance(args[1], str): raise Unknown("Attr arity")
    return getattr(interpret(args[0], env), args[1])
  if tag == "Comment":
    if len(args) != 2: raise Unknown("Comment arity")
    return interpret(args[0], env)
  if tag == "Call":
    func = interpret(args[0], env)
    pos, kw = [], {}
    for a in args[1:]:
      if isinstance(a, list) and a and a[0] == "keywords":
        for name, v in a[1:]:
          if name is None: kw.update(interpret(v, env))
          else: kw[name] = interpret(v, env)
      else:
        pos.append(interpret(a, env))
    return func(*pos, **kw)
  raise Unknown("node type %r is not in the documented table" % (tag,))


def outcome(thunk):
  try:
    v = thunk()
  except Unknown:
    raise
  except Exception as e:
    return ("raises", type(e).__name__)
  return ("value", canon(v))

def canon(v):
  if isinstance(v, Obj):
    return ("Obj", tuple(sorted((k, canon(x)) for k, x in v.__dict__.items())))
  if isinstance(v, float) and math.isnan(v):
    return ("float", "nan")
  if isinstance(v, (list, tuple)):
    return (type(v).__name__, tuple(canon(x) for x in v))
  if isinstance(v, dict):
    return ("dict", tuple(sorted((k, canon(x)) for k, x in v.items())))
  if callable(v):
    return ("callable", getattr(v, "__name__", "?"))
  return (type(v).__name__, repr(v))


def is_json_tree(t):
  if type(t) is list:
    return all(is_json_tree(x) for x in t)
  return type(t) in (str, int, float, bool, type(None))


# ---------------------------------------------------------------------------------------------
def call(a):
  import predicate_formula
  return predicate_formula.parse_predicate_formula(a["formula"])

def _cls(a):
  return unsupported_reason(a["py"]) or "in-subset"

def c_unsupported_rejected(a, tree):
  why = unsupported_reason(a["py"])
  return True if why is None else "%s :: no SyntaxError; tree %r" % (why, tree)

def c_json(a, tree):
  if unsupported_reason(a["py"]) is not None: return True     # reported by unsupported_rejected
  try:
    s = json.dumps(tree)
  except Exception as e:
    return "in-subset :: json.dumps raised %r" % (e,)
  if not is_json_tree(tree): return "in-subset :: tree contains a non-JSON container or leaf: %r" % (tree,)
  back = json.loads(s)
  return True if json.dumps(back) == s else "in-subset :: does not round-trip through JSON"

def identity_well_defined(py):
  """`is` / `is not` only against the literals None/True/False (otherwise object identity depends on
  constant folding and interning, not on the tree)."""
  for n in ast.walk(ast.parse(py, mode="eval")):
    if isinstance(n, ast.Compare) and isinstance(n.ops[0], (ast.Is, ast.IsNot)):
      c = n.comparators[0]
      if not (isinstance(c, ast.Constant) and (c.value is None or c.value is True or c.value is False)):
        return False
  return True

def c_eval(a, tree):
  if unsupported_reason(a["py"]) is not None: return True
  if not identity_well_defined(a["py"]): return True       # precondition of this clause
  env = environment()
  try:
    got = outcome(lambda: interpret(tree, env))
  except Unknown as e:
    return "in-subset :: tree is not interpretable by the node table: %s" % (e,)
  want = outcome(lambda: eval(compile(a["py"], "<c40>", "eval"), environment()))
  return True if got == want else "in-subset :: tree %r evaluates to %r, Python gives %r" % (tree, got, want)

def c_comment(a, tree):
  if unsupported_reason(a["py"]) is not None: return True
  has = isinstance(tree, list) and tree and tree[0] == "Comment"
  if a["comment"] is None:
    return True if not has else "in-subset :: unexpected Comment node %r" % (tree,)
  if not has or len(tree) != 3 or tree[2] != a["comment"]:
    return "in-subset :: expected ['Comment', tree, %r], got %r" % (a["comment"], tree)
  return True

def r_syntax_error(a, exc):
  why = unsupported_reason(a["py"])
  return True if why is not None else "in-subset :: SyntaxError(%s) for a formula of the documented subset" % (exc,)


def classify(a, clause, detail):
  d = str(detail)
  return d.split(" :: ")[0] if " :: " in d else _cls(a)


def main():
  rep = common.Report(PROP, "exploration")
  tier = common.tier()
  # ---- deductive part: structural induction over the node classes (contracts/C40_tree.py) --------
  from vlib.pysym import runner
  common.setup_grist_path()
  runner.run_property(rep, "contracts.C40_tree", bounded=False)
  import contracts.C40_tree as tree_contracts
  handled, rejected, probe = tree_contracts.dispatch_report()
  rep.coverage["dispatch"] = {"visit_methods": handled, "reach_generic_visit": rejected,
                              "probe_of_rejected_classes": probe}
  for name, outcome in probe.items():
    if outcome == "ACCEPTED":
      rep.violation("C40.dispatch_total-%s" % name,
                    {"obligation": "C40.dispatch_total", "class": name,
                     "failing_input": "an ast.%s node is accepted without a visit_ method" % name})
  rep.assumptions.append(
    "deductive part: for BoolOp/BinOp/UnaryOp/Compare/Attribute/List/Tuple/Name/Expression the "
    "real visit_ method returns exactly the documented table row, children being abstracted by "
    "the induction hypothesis T(child); visit_Constant, visit_Call, the Comment wrapper and "
    "tokenisation are covered by the bounded tier only")
  rep.assumptions += [
    "bounded: the expression families of the module docstring, enumerated completely, plus %d seeded "
    "random expressions of depth <= 4; not a proof" % N_RANDOM[tier],
    "node semantics: the table in parse_predicate_formula's docstring with Python value semantics "
    "(and/or return the deciding operand); tuples are read as lists (documented); C40.eval_agrees requires `is`/`is not` "
    "to have a literal None/True/False as right operand (identity of other objects depends on constant "
    "folding/interning, not on the tree); such formulas are still checked by the other clauses",
    "subset membership is decided on CPython's own ast of the text ($x replaced by rec.x by the "
    "generator, not by the code under test)",
    "JSON-serialisable = json.dumps succeeds and the tree consists of lists and str/int/float/bool/None "
    "leaves; 1e999 (Infinity) is accepted by Python's json and not counted (DESIGN 6)",
    "f(**d) yields a keywords entry with a null name; read as 'spread d' (DESIGN 6 observation)",
  ]
  rep.coverage["rule"] = ("one evaluation = one formula text parsed by the real parse_predicate_formula and "
                          "checked against all clauses (or its SyntaxError against the subset oracle); "
                          "non-trivial and distinct = distinct texts that contain at least one operator, "
                          "call, list or comment (not a bare atom), or are non-subset texts")
  contract = fn.FnContract(
    name="predicate_formula.parse_predicate_formula",
    call=call,
    ensures={"C40.unsupported_rejected": c_unsupported_rejected, "C40.json_serialisable": c_json,
             "C40.eval_agrees": c_eval, "C40.comment": c_comment},
    raises={"SyntaxError": r_syntax_error},
    classify=classify,
    nontrivial=lambda a, r, exc: a["family"] != "E3" or " " in a["formula"],
    show=lambda a: {"formula": a["formula"], "family": a["family"]})
  fn.check(rep, contract, cases, exhaustive=False)
  n_e3 = sum(1 for _ in family_E3(ATOMS[tier])); n_w = sum(1 for _ in family_W()); n_f = sum(1 for _ in family_F())
  rep.coverage.update({"family_E3": n_e3, "family_W": n_w, "family_F": n_f,
                       "family_C": sum(1 for _ in family_C()), "family_N": len(NONSUBSET),
                       "family_R_random": N_RANDOM[tier], "exhaustive": False,
                       "families_enumerated_completely": not any(
                           c.get("truncated_by_time_limit") for c in rep.coverage.get("contracts", []))})
  return rep.finish()


if __name__ == "__main__":
  try:
    code = main()
  except Exception:          # a failure of the harness itself is a checker error, never a verdict
    import traceback
    print("CHECKER-ERROR property=%s %s" % (PROP, traceback.format_exc(limit=6).replace("\n", " | ")))
    code = common.EXIT_CRASH
  sys.exit(code)
