"""C23 Changing a column's type converts each stored value.

Tier B: run-time contract on the REAL engine for bundles [ModifyColumn(T, c, {type: new})] (and the
metadata path [UpdateRecord(_grist_Tables_column, ref, {type: new})]) on a DATA column:
   C23.completes   the type change of a data column is applied (the bundle does not raise)
   C23.converted   every cell's new stored value == the new column type's convert(old stored value)
                   (the conversion function is taken from the new column object after the change and
                   applied by the check to the OLD raw values captured before it; alt-text where
                   conversion fails is what that function returns)
   C23.frame       no other data cell of any table changes, except the reverse column of a two-way
                   reference; row ids and the table set are unchanged; in metadata only the
                   column's own record, display-helper columns / fields of this column may change
Formula columns, trigger-formula columns and summary tables are recalculated results and are
outside the frame clause (C05 / C15 / C12 cover them).
Exhaustive: all ordered pairs of 11 types x a pool of cell values; plus seeded random histories."""
import copy, itertools, json, math, os, sys
sys.path.insert(0, os.path.dirname(os.path.dirname(os.path.abspath(__file__))))
from vlib import common
from vlib.rtc import eng, explore, gen, fn

import objtypes      # real module

_col = gen._col
INF = float("inf")


def _strict(v):
  """Canonical, hashable, NaN-stable and TYPE-STRICT form of an encoded cell value
  (1, 1.0 and True are three different values)."""
  if isinstance(v, bool): return ("b", v)
  if isinstance(v, float):
    if v != v: return ("nan",)
    return ("f", repr(v))
  if isinstance(v, int): return ("i", v)
  if isinstance(v, (list, tuple)): return ("l",) + tuple(_strict(x) for x in v)
  if isinstance(v, dict): return ("d",) + tuple(sorted((str(k), _strict(x)) for k, x in v.items()))
  if isinstance(v, bytes): return ("y", v)
  return v


def _n(v):
  return _strict(objtypes.encode_object(v))


def _cp(v):
  """Copies containers, keeps leaves (dates with custom tzinfo do not deep-copy)."""
  if isinstance(v, list): return [_cp(x) for x in v]
  if isinstance(v, tuple): return tuple(_cp(x) for x in v)
  if isinstance(v, dict): return {k: _cp(x) for k, x in v.items()}
  return v


def summary_tables(e):
  return {r["tableId"] for r in eng.meta_records(e, "_grist_Tables") if r["summarySourceTable"]}


def raw_snapshot(e):
  """{table: (row_ids, {col: [raw values]})} of data columns without a formula, all tables."""
  out = {}
  derived = summary_tables(e)
  for t in sorted(e.tables):
    if t in derived: continue
    td = e.fetch_table(t, formulas=False)
    sch = e.schema.get(t)
    trig = {c.colId for c in sch.columns.values() if c.formula and not c.isFormula} if sch else set()
    if t.startswith("_grist_"): trig = set()
    out[t] = (list(td.row_ids), {c: _cp(list(v)) for c, v in td.columns.items()
                                 if c not in trig})
  return out


def column_facts(e, table_id, col_id):
  sch = e.schema.get(table_id)
  if sch is None or col_id not in sch.columns: return None
  c = sch.columns[col_id]
  rec = [r for r in eng.meta_records(e, "_grist_Tables_column")
         if r["colId"] == col_id and r["parentId"] == eng.table_ref(e, table_id)]
  rec = rec[0] if rec else None
  rev = None
  if rec and rec["reverseCol"]:
    for r in eng.meta_records(e, "_grist_Tables_column"):
      if r["id"] == rec["reverseCol"]:
        tabs = {t["id"]: t["tableId"] for t in eng.meta_records(e, "_grist_Tables")}
        rev = (tabs.get(r["parentId"]), r["colId"], r["id"])
  return {"type": c.type, "isFormula": c.isFormula, "formula": c.formula,
          "ref": rec["id"] if rec else None, "reverse": rev,
          "displayCol": rec["displayCol"] if rec else 0}


def check_type_change(e, pre, facts, table_id, col_id, new_type, exc):
  """-> list of (clause, detail); e is in its post-state."""
  post = raw_snapshot(e)
  if exc is not None:
    d = frame_diff(pre, post, set(), set())
    # documented restriction: a column linked two-way may only switch between Ref and RefList of
    # the same table (useractions: "invalid change to type of a two-way reference column")
    tgt = facts["type"].split(":", 1)[1] if ":" in facts["type"] else None
    restricted = bool(facts["reverse"]) and new_type not in ("Ref:%s" % tgt, "RefList:%s" % tgt)
    out = [] if restricted else [
      ("C23.completes", {"raised": "%s: %s" % (type(exc).__name__, str(exc)[:200]),
                         "from": facts["type"], "to": new_type})]
    if d: out.append(("C23.frame", dict(d[0], why="failed bundle left a trace")))
    return out
  out = []
  new_col = e.tables[table_id].get_column(col_id)
  rows, cols = pre[table_id]
  prow, pcols = post.get(table_id, ([], {}))
  if col_id in cols and col_id in pcols and rows == prow:
    for r, old, new in zip(rows, cols[col_id], pcols[col_id]):
      try:
        want = new_col.convert(_cp(old))
      except Exception as ex:
        out.append(("C23.converted", {"row": r, "old": repr(old), "why": "convert raised %r" % (ex,)}))
        break
      if _n(want) != _n(new):
        root = "value-mismatch"
        cleanup = getattr(new_col, "_clean_up_value", None)
        try:
          if callable(cleanup) and isinstance(want, str) and _n(cleanup(want)) == _n(new):
            root = "alt-text-of-convert-reparsed-by-column.set"
        except Exception:
          pass
        out.append(("C23.converted", {"row": r, "old": repr(old), "new": repr(new),
                                      "convert(old)": repr(want), "from": facts["type"],
                                      "to": new_type, "root": root}))
        break
  elif col_id in cols:
    out.append(("C23.converted", {"why": "column or rows missing after the change"}))
  allowed_cells = {(table_id, col_id)}
  if facts["reverse"]: allowed_cells.add((facts["reverse"][0], facts["reverse"][1]))
  own_refs = {facts["ref"]}
  for clause_d in frame_diff(pre, post, allowed_cells, own_refs, facts):
    out.append(("C23.frame", clause_d))
    break
  return out


META_COLUMN_TABLES = ("_grist_Tables_column", "_grist_Views_section_field")


def frame_diff(pre, post, allowed_cells, own_refs, facts=None):
  out = []
  for t in sorted(set(pre) | set(post)):
    if t not in pre or t not in post:
      out.append({"table_set_changed": t}); continue
    (r1, c1), (r2, c2) = pre[t], post[t]
    if t == "_grist_Tables_column":
      # the group-by columns of summary tables mirror their source column (derived, like the
      # summary tables themselves)
      own_refs = set(own_refs) | {r for i, r in enumerate(r1) if c1["summarySourceCol"][i] in own_refs} \
                 | {r for i, r in enumerate(r2) if c2["summarySourceCol"][i] in own_refs}
      # display-helper columns of this column may come and go; the own record may change
      helper = lambda i, cols: str(cols["colId"][i]).startswith("gristHelper_Display")
      keep1 = [i for i, r in enumerate(r1) if r not in own_refs and not helper(i, c1)]
      keep2 = [i for i, r in enumerate(r2) if r not in own_refs and not helper(i, c2)]
      a = [(r1[i], {c: _n(v[i]) for c, v in c1.items()}) for i in keep1]
      b = [(r2[i], {c: _n(v[i]) for c, v in c2.items()}) for i in keep2]
      if a != b:
        diff = [x for x in a if x not in b][:1] + [y for y in b if y not in a][:1]
        out.append({"table": t, "why": "another column's metadata changed", "diff": repr(diff)[:600]})
      continue
    if t == "_grist_Views_section_field":
      # fields showing this column may have displayCol / visibleCol / widgetOptions reset
      a = [(r, {c: _n(v[i]) for c, v in c1.items()}) for i, r in enumerate(r1)
           if c1["colRef"][i] not in own_refs]
      b = [(r, {c: _n(v[i]) for c, v in c2.items()}) for i, r in enumerate(r2)
           if c2["colRef"][i] not in own_refs]
      if a != b: out.append({"table": t, "why": "a field of another column changed"})
      continue
    if r1 != r2:
      out.append({"table": t, "row_ids": [r1, r2]}); continue
    for c in sorted(set(c1) | set(c2)):
      if (t, c) in allowed_cells: continue
      if c.startswith("gristHelper_Display"): continue      # helper of the column's display
      if c not in c1 or c not in c2:
        out.append({"table": t, "column_set_changed": c}); continue
      for r, x, y in zip(r1, c1[c], c2[c]):
        if _n(x) != _n(y):
          out.append({"table": t, "column": c, "row": r, "before": repr(x), "after": repr(y)})
          break
  return out


# ------------------------------------------------------------------------------------------------
# exhaustive: all ordered type pairs x value pool
# ------------------------------------------------------------------------------------------------

TYPES = ["Text", "Int", "Numeric", "Bool", "Any", "Choice", "ChoiceList", "Date", "DateTime:UTC",
         "Ref:P", "RefList:P"]

POOL = [None, 0, 1, 2, -1, 3, 7, 2.5, 2.0, 1e10, -0.0, INF, float("nan"), True, False,
        "", "a", "1", "2", "2.5", "abc", " 3 ", "true", "0", "2020-01-01", "1e3", "[1, 2]",
        "[\"a\", \"b\"]", "a,b", 86400, 1600000000, 1.5e9, 10 ** 20,
        ["L"], ["L", "a", "b"], ["L", 1, 2], ["L", 2], ["L", 3, 3], ["L", 9],
        ["d", 86400], ["D", 1600000000, "UTC"], ["O", {"a": 1}], ["l", [1, 2]]]


def _pair_cases(tier, seed):
  for a in TYPES:
    for b in TYPES:
      if a == b: continue
      for variant in ("plain", "reverse") if (a.startswith("Ref") or b.startswith("Ref")) else ("plain",):
        for path in ("ModifyColumn", "metadata"):
          if path == "metadata" and tier == "quick" and variant != "plain": continue
          yield dict(src=a, dst=b, variant=variant, path=path)


def _build(a):
  e = eng.new_engine()
  eng.apply(e, [["AddTable", "P", [_col("name", "Text")]],
                ["AddTable", "T", [_col("c", a["src"]), _col("k", "Int"),
                                   _col("f", "Any", "$c"), _col("g", "Any", "$k + 1")]],
                ["AddTable", "Q", [_col("t", "Ref:T"), _col("v", "Any", "$t.c"), _col("w", "Text")]]])
  eng.apply(e, [["BulkAddRecord", "P", [None] * 3, {"name": ["p", "q", "r"]}]])
  pool = copy.deepcopy(POOL)
  if a["src"].startswith("Ref"):      # negative ids are temporary row ids there (C26), not values
    pool = [v for v in pool if not (isinstance(v, int) and not isinstance(v, bool) and v < 0)]
  n = len(pool)
  eng.apply(e, [["BulkAddRecord", "T", [None] * n, {"c": pool, "k": list(range(n))}]])
  eng.apply(e, [["BulkAddRecord", "Q", [None] * 3, {"t": [1, 2, 5], "w": ["x", "y", "z"]}]])
  if a["variant"] == "reverse" and a["src"].startswith("Ref"):
    eng.apply(e, [["AddReverseColumn", "T", "c"]])
  return e


def _call(a):
  e = _build(a)
  facts = column_facts(e, "T", "c")
  pre = raw_snapshot(e)
  if a["path"] == "ModifyColumn":
    bundle = [["ModifyColumn", "T", "c", {"type": a["dst"]}]]
  else:
    bundle = [["UpdateRecord", "_grist_Tables_column", facts["ref"], {"type": a["dst"]}]]
  try:
    eng.apply(e, bundle); exc = None
  except Exception as ex:
    exc = ex
  fails = check_type_change(e, pre, facts, "T", "c", a["dst"], exc)
  changed = sum(1 for x, y in zip(pre["T"][1]["c"], raw_snapshot(e)["T"][1].get("c", []))
                if _n(x) != _n(y))
  return dict(fails=fails, changed=changed)


def _ensure(clause):
  def f(a, r):
    bad = [d for c, d in r["fails"] if c == clause]
    return True if not bad else json.dumps(bad[0], default=repr, sort_keys=True)[:900]
  return f


def _classify(a, clause, detail):
  import re
  if "alt-text-of-convert-reparsed-by-column.set" in str(detail):
    return "converted:%s:alt-text-of-convert-reparsed-by-column.set" % a["dst"].split(":")[0]
  m = re.search(r'"raised": "(\w+)', str(detail))
  extra = (":" + m.group(1)) if m else ""
  return "%s:%s->%s;%s;%s%s" % (clause.split(".", 1)[1], a["src"].split(":")[0],
                                a["dst"].split(":")[0], a["variant"], a["path"], extra)


# ------------------------------------------------------------------------------------------------
# histories
# ------------------------------------------------------------------------------------------------

class C23Monitor(explore.Monitor):
  seeds = ("basic", "refs", "choices", "twoway", "twoway_list", "lookup", "trigger")
  length = 8
  weights = {"modify_type": 30, "update": 10, "bulk_update": 6, "add": 8, "remove": 4,
             "meta_update": 6, "add_col": 4, "rename_col": 2, "view": 1, "summary": 1, "reverse": 2}

  def start(self, e, seed_name):
    return {}

  def gen_bundle(self, st, e, g):
    st["exploring"] = True
    return g.bundle(e)

  def before(self, st, e, bundle):
    st["case"] = None
    if len(bundle) != 1: return
    a = bundle[0]
    t = c = new = None
    if a[0] == "ModifyColumn" and len(a) == 4 and isinstance(a[3], dict) and set(a[3]) == {"type"}:
      t, c, new = a[1], a[2], a[3]["type"]
    elif (a[0] == "UpdateRecord" and a[1] == "_grist_Tables_column" and isinstance(a[3], dict)
          and set(a[3]) == {"type"}):
      rec = [r for r in eng.meta_records(e, "_grist_Tables_column") if r["id"] == a[2]]
      if rec:
        tabs = {x["id"]: x["tableId"] for x in eng.meta_records(e, "_grist_Tables")}
        t, c, new = tabs.get(rec[0]["parentId"]), rec[0]["colId"], a[3]["type"]
    if not (isinstance(t, str) and isinstance(c, str) and isinstance(new, str)): return
    if t in summary_tables(e) or t.startswith("_grist_"): return
    facts = column_facts(e, t, c)
    if not facts or facts["isFormula"] or facts["type"] == new: return
    if c == "manualSort" or c.startswith("gristHelper"): return
    st["case"] = (t, c, new, facts, raw_snapshot(e))

  def after(self, st, e, bundle, group, exc):
    if not st.get("case"): return []
    t, c, new, facts, pre = st["case"]
    st["case"] = None
    ST["checked"] += 1
    fails = check_type_change(e, pre, facts, t, c, new, exc)
    for clause, d in fails:
      d = dict(d); d.setdefault("from", facts["type"]); d.setdefault("to", new)
      k = (clause, self.classify(clause, d, bundle, None))
      if st.get("exploring") and k in _known_classes() and k in _REPORTED: continue
      _REPORTED.add(k)
      return [(clause, d)]
    return []

  def nontrivial(self, st, bundle, group, exc):
    return bool(bundle and bundle[0][0] == "ModifyColumn")

  def classify(self, clause, detail, bundle, history):
    if detail.get("root") == "alt-text-of-convert-reparsed-by-column.set":
      return "converted:%s:alt-text-of-convert-reparsed-by-column.set" % str(detail.get("to")).split(":")[0]
    path = "metadata" if bundle and bundle[0][0] == "UpdateRecord" else "ModifyColumn"
    raised = detail.get("raised", "")
    extra = (":" + raised.split(":")[0]) if raised else ""
    return "%s:%s->%s;history;%s%s" % (clause.split(".", 1)[1],
                                       str(detail.get("from")).split(":")[0],
                                       str(detail.get("to")).split(":")[0], path, extra)


ST = {"checked": 0}
_REPORTED = set()
_KNOWN = []

def _known_classes():
  if not _KNOWN:
    _KNOWN.append({(f["match"].get("obligation"), f["match"].get("class"))
                   for f in common.load_known_findings("C23")})
  return _KNOWN[0]


def main():
  rep = common.Report("C23", "exploration")
  rep.assumptions += [
    common.SHIM_ASSUMPTION,
    "bounded, exhaustive part: all ordered pairs of %d column types %r, the column holding the "
    "stored forms of a pool of %d values, through ModifyColumn and through the metadata record, "
    "with a dependent formula column, a referring table and (for reference types) a two-way link; "
    "random part: seeded histories weighted towards type changes; not a proof" % (
      len(TYPES), TYPES, len(POOL)),
    "'the new type's conversion' is Column.convert of the new column object (C22 covers the "
    "conversion functions themselves); values are compared after encode_object, strictly "
    "(1 != 1.0 != True, NaN == NaN)",
    "formula columns, trigger-formula columns, display-helper columns and summary tables are "
    "outside the frame clause; in metadata the column's own record, display-helper column records "
    "and the fields showing the column may change"]
  rep.coverage["rule"] = (
    "one evaluation = one type-change bundle on the real engine checked cell by cell; exhaustive "
    "part: distinct (from, to, variant, path); random part: type-change bundles on data columns")
  c = fn.FnContract(
    "UserActions.ModifyColumn {type} (via apply_user_actions)", _call,
    ensures={k: _ensure(k) for k in ("C23.completes", "C23.converted", "C23.frame")},
    classify=_classify, nontrivial=lambda a, r, exc: bool(r and r["changed"]))
  n = fn.check(rep, c, _pair_cases, exhaustive=True, limit_quick_s=45)
  ex = rep.coverage.get("exhaustive")
  explore.explore(rep, "checks.C23", "C23Monitor", n_quick=400, n_thorough=6000,
                  budget_quick_s=30, budget_thorough_s=600)
  rep.coverage["exhaustive"] = False
  rep.coverage["exhaustive_part"] = {"cases": n, "complete": bool(ex), "cells_per_case": len(POOL)}
  return rep.finish()


if __name__ == "__main__":
  sys.exit(main())
