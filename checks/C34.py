"""C34 Time zone conversions round-trip — bounded run-time contract on the real moment.py functions
for every bundled zone: native evaluation at every transition +- a set of deltas, plus seeded
random instants.  (The per-zone deductive encoding planned in DESIGN.md 5/C34 is not built: the
functions compute in binary floating point with fractional-minute LMT offsets; see DESIGN.md.)"""
import datetime as _dt, os, random, sys
sys.path.insert(0, os.path.dirname(os.path.dirname(os.path.abspath(__file__))))
from vlib import common
from vlib.rtc import fn

DELTAS = [0, 1, -1, 59, -59, 60, -60, 1799, 1800, -1800, 3599, 3600, -3600, 3601, 7200, -7200,
          86399, 86400, -86400, 43200]
LO = -62135596800 + 2 * 86400          # 0001-01-03
HI = 253402300799 - 2 * 86400          # 9999-12-29


def _zones():
  import moment
  return sorted(moment.get_tz_data().keys())


def _cases(tier, seed):
  import moment
  rng = random.Random(seed)
  for name in _zones():
    z = moment.get_zone(name)
    pts = set()
    for u in z.untils:
      s = int(u // 1000)
      for d in DELTAS:
        pts.add(s + d)
    for _ in range(20 if tier == "quick" else 400):
      pts.add(rng.randint(LO, HI))
      pts.add(rng.randint(-5000000000, 5000000000))
    pts.update((LO, HI, 0, -1, 1))
    pts = sorted(p for p in pts if LO <= p <= HI)
    chunk = 400
    for i in range(0, len(pts), chunk):
      yield dict(zone=name, instants=pts[i:i + chunk])


def _call(a):
  import moment
  z = moment.get_zone(a["zone"])
  out = []
  used = {-o for o in z.offsets}            # minutes east of UTC the zone ever uses
  for t in a["instants"]:
    dt = moment.ts_to_dt(t, z)
    back = moment.dt_to_ts(dt)
    naive = dt.replace(tzinfo=None)
    off = z.dt_offset(naive)
    off_min = off.total_seconds() / 60.0
    # offsets the zone actually uses within +-1 day of the instant (the statement's "around")
    around = set()
    for probe in (t - 86400, t - 3600, t, t + 3600, t + 86400):
      around.add(z.offset(probe * 1000).total_seconds())
    d = moment.ts_to_date(t)
    dts = moment.date_to_ts(d)
    dts_z = moment.date_to_ts(d, z)
    back_date = moment.ts_to_date(dts)
    local_midnight = moment.ts_to_dt(dts_z, z)
    out.append((t, back, off.total_seconds(), sorted(around), d.isoformat(), back_date.isoformat(),
                local_midnight.isoformat(), any(abs(off_min - u) < 1e-3 for u in used)))
  return out


def e_ts_roundtrip(a, res):
  for (t, back, *_rest) in res:
    if back != t: return "dt_to_ts(ts_to_dt(%d, %s)) == %r" % (t, a["zone"], back)
  return True

def e_date_roundtrip(a, res):
  for (t, _b, _o, _ar, d, back_d, lm, _u) in res:
    if d != back_d: return "ts_to_date(date_to_ts(%s)) == %s" % (d, back_d)
    # (with a zone argument the statement promises nothing beyond the offset clause: a local
    #  midnight can be skipped altogether, e.g. 1994-12-31 in Pacific/Kiritimati)
  return True

def e_local_offset_in_use(a, res):
  for (t, _b, off, around, _d, _bd, _lm, used) in res:
    if not used: return "offset %r at local time of %d is not an offset of zone %s" % (off, t, a["zone"])
    if not any(abs(off - x) < 1e-6 for x in around):
      return "local datetime at instant %d in %s got offset %r, zone uses %r around it" % (
        t, a["zone"], off, around)
  return True


def main():
  common.setup_grist_path()
  rep = common.Report("C34", "exploration")
  rep.assumptions += [
    "domain: whole-second instants between 0001-01-03 and 9999-12-29 (sub-microsecond floats "
    "cannot round-trip through timedelta by construction)",
    "bounded: every bundled zone, every transition +- %d deltas, plus seeded random instants" % len(DELTAS)]
  rep.coverage["rule"] = ("one evaluation = one (zone, chunk of <= 400 instants); each instant is "
                          "checked for ts round trip, date round trip and local-offset-in-use; "
                          "non-trivial = distinct chunk")
  c = fn.FnContract("moment.ts_to_dt/dt_to_ts/ts_to_date/date_to_ts/Zone.dt_offset", _call,
                    ensures={"C34.ts_roundtrip": e_ts_roundtrip, "C34.date_roundtrip": e_date_roundtrip,
                             "C34.local_offset_in_use": e_local_offset_in_use},
                    show=lambda a: (a["zone"], a["instants"][0], a["instants"][-1], len(a["instants"])),
                    classify=lambda a, clause, detail: clause)
  n = fn.check(rep, c, _cases, exhaustive=False)
  rep.coverage["zones"] = len(_zones())
  return rep.finish()


if __name__ == "__main__":
  sys.exit(main())
