"""C35 SCHEDULE yields exactly the scheduled occurrences — bounded run-time contract on the REAL
functions.schedule.SCHEDULE (Schedule.__init__ / Schedule.series / Delta.add_to /
_round_down_to_unit / _parse_interval / _parse_slot*).

A case is generated as a *structured* schedule (interval multiple + unit, slots as lists of parts
with their offsets) which is rendered to a schedule string in one of the documented syntaxes.  The
real function parses the string; the reference below never parses: it is the statement's set

    { B + k*interval + slot : k >= 0, slot in slots },   B = unit boundary at or before start

built by brute force from the structured offsets (calendar month addition, then timedelta),
filtered to start <= t <= end, sorted, cut to `count`.

requires (the statement's hypotheses, checked concretely for every k used):
    B_k <= B_k + slot_1 < B_k + slot_2 < ... < B_{k+1}   (slots increasing, within one interval),
    every calendar month addition lands on an existing day.
ensures
    C35.exact_occurrences    list(SCHEDULE(spec, start, count, end)) == reference list
    C35.increasing           strictly increasing (valid schedules)
    C35.within_start_end     every t: start <= t and (end is None or t <= end)
    C35.at_most_count        len(result) <= max(count, 0)
    C35.timezone_of_start    every t carries the tzinfo of DTIME(start)
raises
    C35.invalid_raises_value_error   a schedule string that is invalid by construction must raise
                             ValueError; a valid one must not raise; any other exception type is a
                             violation (raises_only_declared).  For fuzzed token strings (validity
                             unknown) only "returns datetimes or raises ValueError" is demanded."""
import calendar
import datetime as dtm
import itertools
import os
import random
import re
import signal
import sys

sys.path.insert(0, os.path.dirname(os.path.dirname(os.path.abspath(__file__))))
from vlib import common
from vlib.rtc import fn
from contracts import C32_driver as driver

common.setup_grist_path()
import logging
logging.disable(logging.CRITICAL)
import moment                                   # REAL modules from the working tree
from functions import schedule as sched_mod
from functions import date as date_mod

TD = dtm.timedelta
TICK = TD(microseconds=1)


# ---------------------------------------------------------------------------------------------
# reference (from the statement)

class Skip(Exception):
  pass


def add_months(d, n):
  total = d.year * 12 + (d.month - 1) + n
  y, m = divmod(total, 12)
  m += 1
  if not (1 <= y <= 9998) or d.day > calendar.monthrange(y, m)[1]:
    raise Skip()
  return d.replace(year=y, month=m)


UNIT_TD = {"weeks": TD(weeks=1), "days": TD(days=1), "hours": TD(hours=1), "minutes": TD(minutes=1),
           "seconds": TD(seconds=1)}


def boundary(naive, unit):
  if unit == "years": return dtm.datetime(naive.year, 1, 1)
  if unit == "months": return dtm.datetime(naive.year, naive.month, 1)
  day = dtm.datetime(naive.year, naive.month, naive.day)
  if unit == "weeks":
    while day.isoweekday() != 7:        # weeks start on Sunday
      day -= TD(days=1)
    return day
  if unit == "days": return day
  if unit == "hours": return day + TD(hours=naive.hour)
  if unit == "minutes": return day + TD(hours=naive.hour, minutes=naive.minute)
  if unit == "seconds": return day + TD(hours=naive.hour, minutes=naive.minute, seconds=naive.second)
  raise AssertionError(unit)


def interval_start(b, n, unit, k):
  try:
    if unit == "years": return add_months(b, 12 * n * k)
    if unit == "months": return add_months(b, n * k)
    return b + UNIT_TD[unit] * (n * k)
  except OverflowError:
    raise Skip()


def slot_time(bk, slot):
  months, td = slot
  try:
    return add_months(bk, months) + td
  except OverflowError:
    raise Skip()


def arg(value, zone):
  """The argument as passed to SCHEDULE: cases keep naive values + a zone name (deep-copy safe);
  moment.tzinfo(name) is cached, so the same tzinfo object is attached every time."""
  if zone is None or value is None or not isinstance(value, dtm.datetime):
    return value
  return value.replace(tzinfo=moment.tzinfo(zone))


def to_aware(value, zone=None):
  """The statement's 'start': a datetime in the zone of start (document zone = UTC here when naive),
  dates are midnight."""
  if isinstance(value, dtm.datetime):
    v = value
  else:
    v = dtm.datetime(value.year, value.month, value.day)
  return v.replace(tzinfo=moment.tzinfo(zone) if zone else moment.TZ_UTC)


def reference(a):
  """-> (valid, expected list).  valid False: the statement's hypotheses do not hold."""
  n, unit, slots = a["n"], a["unit"], a["slots"]
  start = to_aware(a["start"], a["tz"])
  end = to_aware(a["end"], a["tz"]) if a["end"] is not None else None
  tz = start.tzinfo
  count = a["count"]
  b = boundary(start.replace(tzinfo=None), unit)
  K = max(count, 0) + 2
  cands = []
  try:
    prev_last = None
    for k in range(K + 1):
      bk = interval_start(b, n, unit, k)
      ts = [slot_time(bk, s) for s in slots]
      if ts[0] < bk: return False, None
      if any(x >= y for x, y in zip(ts, ts[1:])): return False, None
      if prev_last is not None and prev_last >= bk: return False, None
      prev_last = ts[-1]
      if k <= K - 1:
        cands.extend(ts)
  except Skip:
    return False, None
  out = []
  for t in sorted(set(cands)):
    ta = t.replace(tzinfo=tz)
    if ta < start: continue
    if end is not None and ta > end: continue
    out.append(ta)
  return True, out[:max(count, 0)]


# ---------------------------------------------------------------------------------------------
# the call and the clauses

class Hang(BaseException):
  pass


def _alarm(signum, frame):
  raise Hang()


def call(a):
  kw = {"start": arg(a["start"], a["tz"]), "count": a["count"]}
  if a["end"] is not None: kw["end"] = arg(a["end"], a["tz"])
  signal.signal(signal.SIGALRM, _alarm)
  signal.setitimer(signal.ITIMER_REAL, 5.0)
  try:
    if a.get("before") is not None:
      # the result must not depend on what was evaluated before in the same process: a
      # near-identical spec (same text, other letter case: names are case-insensitive, delta units
      # are not) is evaluated first and its outcome ignored
      try:
        list(sched_mod.SCHEDULE(a["before"], **kw))
      except Hang:
        raise
      except Exception:
        pass
    return list(sched_mod.SCHEDULE(a["spec"], **kw))
  except Hang:
    raise RuntimeError("did not return within 5 s")
  finally:
    signal.setitimer(signal.ITIMER_REAL, 0)


def requires(a):
  if a["kind"] == "fuzz":
    return not re.search(r"\d{5}", a["spec"])
  if a["kind"] not in ("valid", "doc"):
    return True
  ok, exp = reference(a)
  a["_expected"] = exp
  return ok


def _same(x, y):
  return x == y and x.tzinfo is y.tzinfo and x.replace(tzinfo=None) == y.replace(tzinfo=None)


def exact(a, r):
  if a["kind"] == "fuzz":
    return True if all(isinstance(t, dtm.datetime) for t in r) else "non-datetime in result"
  if a["kind"] == "invalid":
    return True    # handled by invalid_raises_value_error
  exp = a["_expected"]
  if len(r) == len(exp) and all(_same(x, y) for x, y in zip(r, exp)):
    return True
  return "expected %s, got %s" % ([t.isoformat(' ') for t in exp], [t.isoformat(' ') for t in r])


def increasing(a, r):
  if a["kind"] not in ("valid", "doc"): return True      # needs the statement's hypotheses
  return True if all(x < y for x, y in zip(r, r[1:])) else "not strictly increasing"


def within(a, r):
  if a["kind"] not in ("valid", "doc"): return True
  start = to_aware(a["start"], a["tz"])
  end = to_aware(a["end"], a["tz"]) if a["end"] is not None else None
  for t in r:
    if t < start: return "%s is before start" % t.isoformat(' ')
    if end is not None and t > end: return "%s is after end" % t.isoformat(' ')
  return True


def at_most(a, r):
  return True if len(r) <= max(a["count"], 0) else "%d results for count=%d" % (len(r), a["count"])


def tz_of_start(a, r):
  if a["kind"] not in ("valid", "doc"): return True
  tz = to_aware(a["start"], a["tz"]).tzinfo
  return True if all(t.tzinfo is tz for t in r) else "tzinfo differs from start's"


def invalid_must_raise(a, r):
  return True if a["kind"] != "invalid" else "invalid schedule %r returned %d times" % (a["spec"], len(r))


def value_error_ok(a, exc):
  return True if a["kind"] in ("invalid", "fuzz") else \
      "valid schedule %r raised %r" % (a["spec"], exc)


def classify(a, clause, detail):
  """Known defect shapes, all computed from the input."""
  if a["kind"] in ("valid", "doc"):
    b = boundary(to_aware(a["start"], a["tz"]).replace(tzinfo=None), a["unit"])
    if b.year < 1900 and not clause.startswith("raises"):
      return "unit-boundary-before-1900"
  if a["kind"] == "doc" and clause == "raises.ValueError":
    return "docstring-example-rejected:%s" % a["spec"]
  if a["kind"] == "invalid" and re.match(r"^\s*0+[-\s]+[a-zA-Z]+\s*:", a["spec"]):
    return "zero-interval-multiple"
  return "%s:%s" % (a["kind"], clause)


def show(a):
  return {"spec": a["spec"], "start": a["start"], "tz": a["tz"], "count": a["count"],
          "end": a["end"], "kind": a["kind"]}


def nontrivial(a, r, exc):
  return exc is not None or bool(r)


CONTRACT = fn.FnContract(
  name="functions.schedule.SCHEDULE",
  call=call,
  requires=requires,
  ensures={"C35.exact_occurrences": exact, "C35.increasing": increasing,
           "C35.within_start_end": within, "C35.at_most_count": at_most,
           "C35.timezone_of_start": tz_of_start,
           "C35.invalid_raises_value_error": invalid_must_raise},
  raises={"ValueError": value_error_ok},
  classify=classify, nontrivial=nontrivial, show=show)


# ---------------------------------------------------------------------------------------------
# structured schedules and their renderings

MONTHS = ['january', 'february', 'march', 'april', 'may', 'june',
          'july', 'august', 'september', 'october', 'november', 'december']
DAYS = ['sunday', 'monday', 'tuesday', 'wednesday', 'thursday', 'friday', 'saturday']


def _case(rng, s):
  k = rng.randrange(3)
  return s if k == 0 else s.upper() if k == 1 else s.capitalize()


def p_date(rng, m, d):
  k = rng.randrange(4)
  txt = ("%s-%d" % (_case(rng, MONTHS[m - 1][:3]), d) if k == 0 else
         "%s-%d" % (_case(rng, MONTHS[m - 1]), d) if k == 1 else
         "%d/%d" % (m, d) if k == 2 else "%02d/%02d" % (m, d))
  return (txt, m - 1, TD(days=d - 1), {"months", "days"})


def p_mday(rng, d):
  return ("/%d" % d if rng.random() < 0.7 else "/%02d" % d, 0, TD(days=d - 1), {"days"})


def p_wday(rng, i):
  name = DAYS[i]
  txt = _case(rng, rng.choice([name, name[:3], name[:2]]))
  return (txt, 0, TD(days=i), {"days"})


def p_time(rng, h, mi):
  forms = ["%d:%02d" % (h, mi), "%02d:%02d" % (h, mi)]
  h12 = h % 12 or 12
  ap = "am" if h < 12 else "pm"
  forms.append("%d:%02d%s" % (h12, mi, _case(rng, ap)))
  if mi == 0: forms.append("%d%s" % (h12, _case(rng, ap)))
  return (rng.choice(forms), 0, TD(hours=h, minutes=mi), {"hours", "minutes"})


def p_mins(rng, mi):
  return (":%02d" % mi, 0, TD(minutes=mi), {"minutes"})


_DELTA = {"y": ("years", 12, None), "m": ("months", 1, None), "w": ("weeks", 0, TD(weeks=1)),
          "d": ("days", 0, TD(days=1)), "H": ("hours", 0, TD(hours=1)),
          "M": ("minutes", 0, TD(minutes=1)), "S": ("seconds", 0, TD(seconds=1))}


def p_delta(rng, n, u):
  name, mon, td = _DELTA[u]
  return ("+%d%s" % (n, u), mon * n, (td * n) if td else TD(0), {name})


def gen_slot(rng, n, unit):
  """A random slot for the interval: list of parts with disjoint units."""
  parts = []
  r = rng.random
  if unit == "years":
    if n > 1 and r() < 0.4: parts.append(p_delta(rng, rng.randrange(n), "y"))
    if r() < 0.7: parts.append(p_date(rng, rng.randint(1, 12), rng.choice([1, 1, 15, 28, 29, 30, 31])))
    else:
      if r() < 0.7: parts.append(p_delta(rng, rng.randint(0, 11), "m"))
      if r() < 0.5: parts.append(p_delta(rng, rng.choice([0, 1, 14, 27, 30]), "d"))
  elif unit == "months":
    if n > 1 and r() < 0.5: parts.append(p_delta(rng, rng.randrange(n), "m"))
    k = r()
    if k < 0.6: parts.append(p_mday(rng, rng.choice([1, 2, 10, 15, 20, 28, 29, 31])))
    elif k < 0.8: parts.append(p_delta(rng, rng.choice([0, 1, 15, 27]), "d"))
    elif k < 0.9: parts.append(p_delta(rng, rng.choice([0, 1, 3]), "w"))
  elif unit == "weeks":
    if n > 1 and r() < 0.5: parts.append(p_delta(rng, rng.randrange(n), "w"))
    k = r()
    if k < 0.6: parts.append(p_wday(rng, rng.randrange(7)))
    elif k < 0.85: parts.append(p_delta(rng, rng.randrange(7), "d"))
  elif unit == "days":
    if n > 1 and r() < 0.6: parts.append(p_delta(rng, rng.randrange(n), "d"))
  elif unit == "hours":
    if n > 1 and r() < 0.6: parts.append(p_delta(rng, rng.randrange(n), "H"))
    k = r()
    if k < 0.6: parts.append(p_mins(rng, rng.choice([0, 15, 20, 30, 40, 45, 59])))
    elif k < 0.8: parts.append(p_delta(rng, rng.choice([0, 1, 30, 59]), "M"))
  elif unit == "minutes":
    if n > 1 and r() < 0.6: parts.append(p_delta(rng, rng.randrange(n), "M"))
    if r() < 0.5: parts.append(p_delta(rng, rng.choice([0, 1, 30, 59]), "S"))
  elif unit == "seconds":
    parts.append(p_delta(rng, rng.randrange(n), "S"))
  if unit in ("years", "months", "weeks", "days"):
    k = r()
    if k < 0.55:
      parts.append(p_time(rng, rng.choice([0, 0, 1, 2, 7, 9, 11, 12, 13, 16, 21, 23]),
                          rng.choice([0, 0, 0, 15, 20, 30, 45, 59])))
    elif k < 0.7:
      parts.append(p_delta(rng, rng.choice([0, 1, 6, 12, 23]), "H"))
      if r() < 0.5: parts.append(p_delta(rng, rng.choice([0, 20, 30]), "M"))
  if not parts:
    zero = {"years": "d", "months": "d", "weeks": "d", "days": "H", "hours": "M", "minutes": "S",
            "seconds": "S"}[unit]
    parts.append(p_delta(rng, 0, zero))
  rng.shuffle(parts)
  # parts of one slot must not repeat a unit
  seen = set()
  for p in parts:
    if seen & p[3]: return None
    seen |= p[3]
  return parts


def slot_offset(parts):
  return (sum(p[1] for p in parts), sum((p[2] for p in parts), TD(0)))


def render_interval(rng, n, unit):
  alias = {"years": "annual", "months": "monthly", "weeks": "weekly", "days": "daily",
           "hours": "hourly"}
  if n == 1 and unit in alias and rng.random() < 0.5:
    return _case(rng, alias[unit])
  u = unit[:-1] if rng.random() < 0.5 else unit
  return "%d%s%s" % (n, rng.choice(["-", " ", "  ", "- "]), _case(rng, u))


def render(rng, n, unit, slots_parts):
  sl = []
  for parts in slots_parts:
    sl.append(rng.choice(["", " ", "  "]) + rng.choice([" ", "  "]).join(p[0] for p in parts) +
              rng.choice(["", " "]))
  return "%s%s:%s" % (render_interval(rng, n, unit), rng.choice(["", " "]), ",".join(sl))


D = dtm.datetime
NY, UTC, IN, LON = "America/New_York", "UTC", "Asia/Kolkata", "Europe/London"

BASE_STARTS = [      # (naive value, zone name or None)
  (D(2018, 9, 4, 14, 0), None), (D(2018, 1, 1), None), (D(2017, 12, 31, 23, 59, 59, 999999), None),
  (D(2020, 2, 29, 12, 0), None), (D(2019, 2, 28, 23, 0), None), (D(2018, 9, 2), None),
  (D(2018, 9, 8, 23, 59, 59), None), (D(2018, 1, 31, 10, 0), None), (D(2018, 12, 31), None),
  (D(2018, 9, 4, 14, 15, 30, 500000), None), (D(2024, 12, 29, 0, 0, 1), None),
  (D(2018, 3, 11, 1, 30), NY), (D(2018, 3, 11, 3, 30), NY), (D(2018, 11, 4, 1, 30), NY),
  (D(2018, 2, 14), NY), (D(2018, 2, 14, 17, 0), UTC), (D(2021, 6, 30, 23, 45), IN),
  (D(2019, 3, 31, 0, 30), LON), (D(2019, 10, 27, 1, 30), LON),
  (dtm.date(2018, 1, 1), None), (dtm.date(2019, 5, 19), None),
  (D(1899, 12, 15, 8, 0), None), (D(1850, 6, 1), NY),
]

UNITS = ["years", "months", "weeks", "days", "hours", "minutes", "seconds"]
MULTIPLES = [1, 2, 3, 5]


def gen_valid(rng, n=None, unit=None, base=None):
  unit = unit or rng.choice(UNITS)
  n = n or rng.choice(MULTIPLES + ([10, 24, 60] if unit in ("hours", "minutes", "seconds") else []))
  nslots = rng.choice([1, 1, 2, 2, 3])
  slots = []
  for _ in range(nslots * 3):
    s = gen_slot(rng, n, unit)
    if s is not None: slots.append(s)
    if len(slots) == nslots: break
  if not slots: return None
  # "listed in increasing order": order by the offset (months first); requires() re-checks concretely
  slots.sort(key=lambda parts: (slot_offset(parts)[0], slot_offset(parts)[1]))
  offs = [slot_offset(p) for p in slots]
  if any(x == y for x, y in zip(offs, offs[1:])): return None
  spec = render(rng, n, unit, slots)
  start, zone = base if base is not None else rng.choice(BASE_STARTS)
  count = rng.choice([0, 1, 3, 3, 10, -1])
  a = {"kind": "valid", "spec": spec, "n": n, "unit": unit, "slots": offs, "start": start,
       "tz": zone, "count": count, "end": None}
  # ends / starts derived from the statement's own set: exactly on, one tick before / after an
  # occurrence
  mode = rng.randrange(8)
  isdt = isinstance(start, dtm.datetime)
  if mode >= 3:
    ok, exp = reference(dict(a, count=6))
    if ok and exp:
      t = rng.choice(exp).replace(tzinfo=None)
      if mode == 3: a["end"] = t
      elif mode == 4: a["end"] = t - TICK
      elif mode == 5 and isdt: a["start"] = t
      elif mode == 6 and isdt: a["start"] = t + TICK
      elif mode == 7: a["end"] = t + rng.choice([TD(hours=1), TD(days=45), TD(days=400)])
  elif mode == 2:
    s0 = to_aware(start, zone).replace(tzinfo=None)
    a["end"] = s0 + rng.choice([TD(0), TD(hours=1), TD(days=1), TD(days=45), TD(days=400), -TD(days=1)])
  return a


# the format examples of the SCHEDULE docstring, with their meaning written out structurally
DOC_EXAMPLES = [
  ("annual: Jan-15, Apr-15, Jul-15", 1, "years", [(0, TD(days=14)), (3, TD(days=14)), (6, TD(days=14))]),
  ("annual: 1/15, 4/15, 7/15", 1, "years", [(0, TD(days=14)), (3, TD(days=14)), (6, TD(days=14))]),
  ("monthly: /1 2pm, /15 2pm", 1, "months", [(0, TD(hours=14)), (0, TD(days=14, hours=14))]),
  ("3-months: /10, +1m /20", 3, "months", [(0, TD(days=9)), (1, TD(days=19))]),
  ("weekly: Mo 9am, Tu 9am, Fr 2pm", 1, "weeks",
   [(0, TD(days=1, hours=9)), (0, TD(days=2, hours=9)), (0, TD(days=5, hours=14))]),
  ("2-weeks: Mo, +1w Tu", 2, "weeks", [(0, TD(days=1)), (0, TD(days=9))]),
  ("daily: 07:30, 21:00", 1, "days", [(0, TD(hours=7, minutes=30)), (0, TD(hours=21))]),
  ("2-day: 12am, 4pm, +1d 8am", 2, "days", [(0, TD(0)), (0, TD(hours=16)), (0, TD(days=1, hours=8))]),
  ("hourly: :15, :45", 1, "hours", [(0, TD(minutes=15)), (0, TD(minutes=45))]),
  ("4-hour: :00, +1H :20, +2H :40", 4, "hours", [(0, TD(0)), (0, TD(hours=1, minutes=20)), (0, TD(hours=2, minutes=40))]),
  ("4-hour: :00, +1H :20, +2H :40", 4, "hours", [(0, TD(0)), (0, TD(hours=1, minutes=20)), (0, TD(hours=2, minutes=40))]),
  ("10-minute: +0S", 10, "minutes", [(0, TD(0))]),
  ("24-hour: :00", 24, "hours", [(0, TD(0))]),
  ("daily: 0:00", 1, "days", [(0, TD(0))]),
  ("weekly: +1d, +4d", 1, "weeks", [(0, TD(days=1)), (0, TD(days=4))]),
]


# schedule strings that are invalid by construction (each breaks one documented rule)
INVALID = [
  "", "daily", "daily 9am", "weekly Mo", ": 9am", "daily:", "daily: ", "daily: ,", "daily: 9am,",
  "daily: ,9am", "weekly: Mo,,Tu",
  "1Year: Jan-1", "1y: Jan-1", "1-daily: 9am", "fortnightly: Mo", "2-fortnights: Mo", "-1-day: 9am",
  "1.5-day: 9am", "x-day: 9am", "day: 9am", "2 days extra: 9am",
  "weekly: Feb-1", "monthly: Monday", "hourly: 4/15", "annual: /1", "daily: Mo", "daily: /3",
  "hourly: 9am", "10-minute: :30", "30-second: :15", "10-minute: 9am", "daily: :45", "weekly: :45",
  "weekly: Feb:1", "monthly: /1d", "hourly: 10", "annual: H1", "daily: 9", "daily: 9:5", "daily: 9:305",
  "daily: 9xm", "daily: +d", "daily: +1", "daily: 1d", "daily: ++1d", "daily: +1d+2H", "daily: 9am!",
  "annual: februarium-1", "annual: ja-1", "weekly: snu", "weekly: M", "weekly: mond", "hourly: +1t",
  "daily: +1h", "daily: +1D", "annual: +1Y", "0-day: 9am", "0-week: Mo", "0-month: /1",
  "weekly: +1d +2d", "daily: 9:30am +2H", "monthly: /15 +1d", "annual: Feb-1 12:30pm +20M",
  "weekly: Mo Tu", "daily: 9am 10am", "hourly: :15 :30", "annual: Jan-1 2/1", "daily: 9am +5M",
  "annual: Jan-1 +1m", "annual: 1/1 +3d",
]

TOKENS = ["daily", "weekly", "monthly", "annual", "hourly", "2-day", "3 weeks", "1-year", "5-minute",
          "30-seconds", ":", ":", ",", " ", " ", "9am", "12pm", "15:45", "1:30pm", ":45", ":00",
          "Mo", "Tue", "friday", "Jan-15", "1/15", "/15", "/1", "+1d", "+2w", "+1m", "+3H", "+20M",
          "+40S", "+1y", "x", "-", "/", "+", "0", "7", "99", "9999", "am", "pm", "é", "٣"]


def cases(tier, seed):
  quick = tier == "quick"
  # (G) deterministic grid: every unit x multiple x base start, several slot lists each
  rng = random.Random(35)
  reps = 6 if quick else 60
  for unit in UNITS:
    for n in MULTIPLES:
      for base in BASE_STARTS:
        for _ in range(reps):
          a = gen_valid(rng, n, unit, base)
          if a is not None:
            yield a
            if "+" in a["spec"]:
              yield dict(a, before=a["spec"].swapcase())
  # (D) the docstring's own format examples
  for spec, n, unit, slots in DOC_EXAMPLES:
    for start, zone in BASE_STARTS:
      for count in (1, 4):
        yield {"kind": "doc", "spec": spec, "n": n, "unit": unit, "slots": slots, "start": start,
               "tz": zone, "count": count, "end": None}
  # (R) seeded random valid schedules
  rng = random.Random(7919 * seed + 35)
  for _ in range(100000 if quick else 1500000):
    a = gen_valid(rng)
    if a is not None:
      yield a
      if "+" in a["spec"] and rng.random() < 0.1:
        yield dict(a, before=a["spec"].swapcase())
  # (I) invalid by construction x a few starts
  for spec in INVALID:
    for start, zone in BASE_STARTS[:3]:
      yield {"kind": "invalid", "spec": spec, "start": start, "tz": zone, "count": 3, "end": None}
  # (F) fuzzed token strings: only "datetimes or ValueError"
  for _ in range(50000 if quick else 400000):
    spec = "".join(rng.choice(TOKENS) for _ in range(rng.randint(1, 8)))
    yield {"kind": "fuzz", "spec": spec, "start": BASE_STARTS[0][0], "tz": None, "count": 3,
           "end": BASE_STARTS[0][0] + TD(days=800)}


def main():
  rep = common.Report("C35", "exploration")
  quick = common.tier() == "quick"
  rep.assumptions += [
    "bounded, not a proof: seeded sampling of structured schedules rendered to strings",
    "the statement's hypotheses (slots strictly increasing, all within one interval, calendar "
    "month additions land on existing days) are checked concretely per case; cases that do not "
    "meet them are skipped and counted as precondition_skipped",
    "'slot' = calendar months first, then the exact timedelta; wall-clock arithmetic and "
    "comparison in the zone of start (naive starts and ends are in the document zone, UTC here)",
    "numbers inside fuzzed strings are < 10**4 (astronomically large counts raise OverflowError "
    "inside datetime/timedelta: DESIGN.md section 6, contract decision)",
    "month numbers > 12 / day numbers beyond the month are accepted by the parser and are not "
    "counted as invalid strings",
  ]
  rep.coverage["rule"] = (
    "one evaluation = one SCHEDULE(spec, start, count, end) call on the real function compared "
    "with the brute-force reference (valid), or checked for ValueError (invalid / fuzz); "
    "non-trivial = returned at least one time or raised; distinct by the repr of the case")
  rep.coverage["bound"] = {
    "units": UNITS, "multiples": MULTIPLES + [10, 24, 60], "base_starts": len(BASE_STARTS),
    "slot_lists": "1-3 slots of 1-4 parts from the documented part syntaxes",
    "counts": [0, 1, 3, 10, -1], "ends": "none / on, before, after an occurrence / before start",
    "grid_cases": len(UNITS) * len(MULTIPLES) * len(BASE_STARTS) * (6 if quick else 60),
    "random_valid": 100000 if quick else 1500000,
    "invalid_by_construction": len(INVALID) * 3, "fuzz": 50000 if quick else 400000}
  driver.check(rep, CONTRACT, cases, exhaustive=False)
  rep.coverage["exhaustive"] = False
  return rep.finish()


if __name__ == "__main__":
  sys.exit(main())
