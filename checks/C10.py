"""C10 Removing rows leaves no references to them.

Tier P (lemma, lead's file contracts/C10_refs.py): ReferenceListColumn._raw_get_without.
Tier B (this file): 2-state run-time contract on the REAL Engine._apply_one_user_action (wrapped on
the class), evaluated PER USER ACTION of every explored bundle, and once more between the last user
action and the return of Engine.apply_user_actions (end-of-bundle auto-removals):
   removed[T] = old(ids of T) - ids of T          (all of old(ids) when T itself is gone)
   C10.no_dangling          no data Ref cell of type Ref:T equals, and no data RefList:T cell
                            contains, a member of removed[T]     (user and metadata tables alike)
   C10.reflist_order_kept   a RefList cell that held removed ids now holds exactly its other ids,
                            in their old order ...
   C10.empty_is_none        ... and None when nothing remains
Per action, because a LATER action of the same bundle may explicitly write a missing positive id
(a supported dangling reference).  State is observed through Engine.fetch_table(formulas=False)."""
import json, os, shutil, sys, tempfile
sys.path.insert(0, os.path.dirname(os.path.dirname(os.path.abspath(__file__))))
from vlib import common
from vlib.rtc import eng, explore, gen

import engine as _engine          # real module from the repository working tree

_col = gen._col

# ------------------------------------------------------------------------------------------------
# observation and clauses
# ------------------------------------------------------------------------------------------------

def refstate(e):
  """{'ids': {table: set(row ids)}, 'cells': {(table, col): (type, {row: raw value})}} for every
  DATA column of a reference type, read through fetch_table."""
  ids, cells = {}, {}
  for t, tbl in e.tables.items():
    ids[t] = set(tbl.row_ids)
    sch = e.schema.get(t)
    if sch is None: continue
    refcols = [(c.colId, c.type) for c in sch.columns.values()
               if not c.isFormula and c.type.startswith(("Ref:", "RefList:"))]
    if not refcols: continue
    td = e.fetch_table(t, formulas=False)
    for cid, typ in refcols:
      if cid in td.columns:
        cells[(t, cid)] = (typ, dict(zip(td.row_ids, td.columns[cid])))
  return {"ids": ids, "cells": cells}


def _members(typ, v):
  """ids referenced by a raw cell value (alt-text and other junk reference nothing)."""
  if typ.startswith("Ref:"):
    return [v] if isinstance(v, int) and not isinstance(v, bool) else []
  if isinstance(v, (list, tuple)):
    return [x for x in v if isinstance(x, int) and not isinstance(x, bool)]
  return []


def check_step(pre, post, step, replaced_table=None):
  """-> list of (clause, detail).  `replaced_table`: the table whose whole contents the step
  replaced (ReplaceTableData): its new rows are new records whose cells were written explicitly by
  the action, so they are not compared with the old rows of the same ids."""
  out = []
  removed = {}
  for t, old in pre["ids"].items():
    gone = old - post["ids"][t] if t in post["ids"] else set(old)
    if gone: removed[t] = gone
  if not removed: return out
  for (t, cid), (typ, col) in post["cells"].items():
    if t == replaced_table: continue
    target = typ.split(":", 1)[1]
    gone = removed.get(target)
    if not gone: continue
    for r, v in col.items():
      bad = [x for x in _members(typ, v) if x in gone]
      if bad:
        out.append(("C10.no_dangling", {
          "step": step, "table": t, "column": cid, "type": typ, "row": r, "cell": v,
          "removed_ids_of_target": sorted(gone)}))
        break
  for (t, cid), (typ, col) in post["cells"].items():
    if not typ.startswith("RefList:") or t == replaced_table: continue
    old = pre["cells"].get((t, cid))
    if old is None or old[0] != typ: continue
    gone = removed.get(typ.split(":", 1)[1])
    if not gone: continue
    for r, v in col.items():
      if r not in old[1]: continue
      ov = old[1][r]
      if not isinstance(ov, (list, tuple)) or not any(x in gone for x in _members(typ, ov)):
        continue
      rest = [x for x in ov if x not in gone]
      # ids the cell held that were ALREADY dangling before this step (not rows of the target in
      # the pre-state: a supported dangling reference written by an earlier action).  The property
      # speaks of the rows this step removes and of "the others" among the target's rows; the
      # engine drops such an id too when the remove action names it again, which is allowed.
      target_pre = pre["ids"].get(typ.split(":", 1)[1], set())
      ghosts = {x for x in rest if isinstance(x, int) and not isinstance(x, bool) and x not in target_pre}
      if ghosts and v is not None and list(v) != rest:
        kept = list(v)
        it = iter(rest)
        is_subseq = all(any(y == x for y in it) for x in kept)
        if is_subseq and all(x in kept for x in rest if x not in ghosts) and \
            [x for x in kept if x not in ghosts] == [x for x in rest if x not in ghosts]:
          continue
      if ghosts and v is None and all(x in ghosts for x in rest):
        continue
      if not rest:
        if v is not None:
          out.append(("C10.empty_is_none", {"step": step, "table": t, "column": cid, "row": r,
                                            "old": list(ov), "new": v,
                                            "removed_ids_of_target": sorted(gone)}))
          break
      elif v is None or list(v) != rest:
        out.append(("C10.reflist_order_kept", {"step": step, "table": t, "column": cid, "row": r,
                                               "old": list(ov), "new": v, "expected": rest,
                                               "removed_ids_of_target": sorted(gone)}))
        break
  return out


# ------------------------------------------------------------------------------------------------
# the wrapper (run-time contract on the real per-action entry point)
# ------------------------------------------------------------------------------------------------

ST = {"last": None, "viol": [], "steps": 0, "steps_removing": 0, "distinct": set()}
_real_one = _engine.Engine._apply_one_user_action


def _count_removals(pre, post):
  return any((old - post["ids"].get(t, set())) for t, old in pre["ids"].items())


def _wrapped_one(self, user_action):
  if ST.get("off"):
    return _real_one(self, user_action)
  pre = ST["last"] if ST["last"] is not None else refstate(self)
  ST["last"] = None
  r = _real_one(self, user_action)          # an exception ends the bundle: nothing to check
  post = refstate(self)
  ST["last"] = post
  ST["steps"] += 1
  if _count_removals(pre, post):
    ST["steps_removing"] += 1
    ST["distinct"].add(hash((repr(user_action), repr(sorted(
      (t, tuple(sorted(i))) for t, i in pre["ids"].items() if i)))))
  name = type(user_action).__name__
  replaced = user_action[0] if name == "ReplaceTableData" and len(user_action) > 0 else None
  ST["viol"].extend(check_step(pre, post, name, replaced))
  return r

_engine.Engine._apply_one_user_action = _wrapped_one


# ------------------------------------------------------------------------------------------------
# histories
# ------------------------------------------------------------------------------------------------

gen.SEEDS["c10_chain"] = [
  [["AddTable", "A", [_col("n", "Int"), _col("s", "Text")]],
   ["AddTable", "B", [_col("r", "Ref:A"), _col("rl", "RefList:A"), _col("v", "Any", "$r.n"),
                      _col("w", "Any", "[x.id for x in $rl] if $rl else None")]],
   ["AddTable", "C", [_col("r", "Ref:B"), _col("rl", "RefList:B"), _col("me", "Ref:C"),
                      _col("mes", "RefList:C"), _col("ra", "Ref:A"),
                      _col("cnt", "Any", "len(C.lookupRecords(mes=CONTAINS($id)))")]]],
  [["BulkAddRecord", "A", [None] * 5, {"n": [1, 2, 3, 4, 5], "s": ["a", "b", "c", "d", "e"]}],
   ["BulkAddRecord", "B", [None] * 4, {"r": [1, 2, 2, 5],
                                       "rl": [["L", 3, 1, 2], ["L", 2, 2, 4], ["L", 5], None]}],
   ["BulkAddRecord", "C", [None] * 4, {"r": [1, 4, 4, 0], "rl": [["L", 4, 1], ["L", 2, 3, 1], None, ["L", 3]],
                                       "me": [2, 1, 3, 0], "mes": [["L", 4, 2, 1], ["L", 3], ["L", 1, 1], None],
                                       "ra": [5, 1, 0, 3]}]],
]

gen.SEEDS["c10_meta"] = [
  [["AddTable", "A", [_col("n", "Int"), _col("m", "Int"), _col("s", "Text"),
                      _col("t", "Int", "$n + $m", isFormula=False, recalcWhen=0),
                      _col("f", "Any", "$n * 2")]],
   ["AddTable", "B", [_col("r", "Ref:A"), _col("rl", "RefList:A")]]],
  [["BulkAddRecord", "A", [None] * 3, {"n": [1, 2, 3], "m": [4, 5, 6], "s": ["a", "b", "c"]}],
   ["BulkAddRecord", "B", [None] * 2, {"r": [1, 3], "rl": [["L", 1, 2, 3], ["L", 3, 2]]}]],
  # recalcDeps [m, n, s] (cols 3, 2, 4), a second view with two sections, filters, rules, a trigger
  [["UpdateRecord", "_grist_Tables_column", 5, {"recalcDeps": ["L", 3, 2, 4]}]],
  [["CreateViewSection", 1, 0, "record", None, None]],
  [["CreateViewSection", 2, 3, "record", None, None]],
  [["CreateViewSection", 1, 0, "record", [2], None]],
  [["AddRecord", "_grist_Filters", None, {"viewSectionRef": 1, "colRef": 2, "filter": "{\"included\": [1]}"}],
   ["AddRecord", "_grist_Filters", None, {"viewSectionRef": 7, "colRef": 4, "filter": "{\"excluded\": [\"a\"]}"}]],
  [["AddEmptyRule", "A", 0, 2], ["AddEmptyRule", "A", 0, 2], ["AddEmptyRule", "A", 1, 0]],
  [["AddRecord", "_grist_Triggers", None, {"tableRef": 1, "eventTypes": ["L", "add"],
                                           "isReadyColRef": 3, "watchedColRefList": ["L", 4, 2, 3],
                                           "actions": "[]"}]],
  [["UpdateRecord", "_grist_Views_section", 7, {"linkSrcSectionRef": 1, "linkSrcColRef": 0,
                                                "linkTargetColRef": 8}]],
]

META_REMOVABLE = ["_grist_Views", "_grist_Views_section", "_grist_Views_section_field",
                  "_grist_Pages", "_grist_Tables_column", "_grist_Tables", "_grist_Filters",
                  "_grist_Triggers", "_grist_TabBar"]


class C10Monitor(explore.Monitor):
  seeds = ("c10_chain", "c10_meta", "refs", "twoway", "twoway_list", "summary")
  length = 8
  weights = {"remove": 14, "bulk_remove": 10, "remove_table": 3, "remove_col": 5, "view": 5,
             "replace_data": 2, "add": 8, "update": 8, "bulk_update": 5, "summary": 2,
             "modify_type": 3, "rename_col": 1, "rename_table": 1, "label": 0, "upsert": 1,
             "meta_update": 3}

  def start(self, e, seed_name):
    ST["last"] = None; ST["viol"] = []
    return {"seed": seed_name}

  def gen_bundle(self, st, e, g):
    st["exploring"] = True
    rng = g.rng
    x = rng.random()
    if x < 0.45:
      acts = []
      for _ in range(rng.randint(1, 3)):
        a = self._removal(e, g)
        if a: acts.append(a)
      if acts: return acts
    return g.bundle(e)

  def _removal(self, e, g):
    rng = g.rng
    y = rng.random()
    uts = [t for t in eng.user_tables(e)]
    if y < 0.45 and uts:
      t = rng.choice(uts)
      rows = list(e.tables[t].row_ids)
      if rows:
        if rng.random() < 0.5: return ["RemoveRecord", t, rng.choice(rows)]
        return ["BulkRemoveRecord", t, rng.sample(rows, rng.randint(1, len(rows)))]
    if y < 0.6 and uts:
      # write reference cells: existing ids, duplicates, and (rarely) a missing positive id
      t = rng.choice(uts)
      rows = list(e.tables[t].row_ids)
      cols = [c for c in e.schema[t].columns.values()
              if not c.isFormula and c.type.startswith(("Ref:", "RefList:"))]
      if rows and cols:
        c = rng.choice(cols)
        tgt = c.type.split(":")[1]
        trows = list(e.tables[tgt].row_ids) if tgt in e.tables else []
        pool = trows + ([max(trows or [0]) + 3] if rng.random() < 0.2 else [])
        if c.type.startswith("Ref:"):
          v = rng.choice(pool + [0])
        else:
          v = ["L"] + [rng.choice(pool) for _ in range(rng.randint(0, 4))] if pool else None
        return ["UpdateRecord", t, rng.choice(rows), {c.colId: v}]
    if y < 0.85:
      t = rng.choice(META_REMOVABLE)
      if t in e.tables:
        rows = list(e.tables[t].row_ids)
        if rows:
          if rng.random() < 0.7: return ["RemoveRecord", t, rng.choice(rows)]
          return ["BulkRemoveRecord", t, rng.sample(rows, rng.randint(1, min(3, len(rows))))]
    if y < 0.9 and uts: return ["RemoveTable", rng.choice(uts)]
    if y < 0.95:
      secs = list(e.tables["_grist_Views_section"].row_ids)
      if secs: return ["RemoveViewSection", rng.choice(secs)]
    views = list(e.tables["_grist_Views"].row_ids)
    if views: return ["RemoveView", rng.choice(views)]
    return None

  def before(self, st, e, bundle):
    ST["last"] = None; ST["viol"] = []

  def after(self, st, e, bundle, group, exc):
    viol, last = ST["viol"], ST["last"]
    ST["viol"], ST["last"] = [], None
    if exc is not None:
      return []                   # rolled back: the per-action states were never observable
    if last is not None:
      final = refstate(e)
      if _count_removals(last, final): ST["steps_removing"] += 1
      viol = viol + check_step(last, final, "end-of-bundle")
    if not viol: return []
    _flush_counts()
    if st.get("exploring"):
      for c, d in viol:
        k = (c, self.classify(c, d, bundle, None))
        if k in _known_classes() and k in _REPORTED: continue
        _REPORTED.add(k)
        return [(c, d)]
      return []
    return viol[:1]

  def finish(self, st, e):
    _flush_counts()
    return []

  def classify(self, clause, detail, bundle, history):
    t = detail.get("table", "?")
    where = "%s.%s" % (t, detail.get("column")) if t.startswith("_grist_") else \
        "user-table %s" % detail.get("type", "RefList").split(":")[0]
    tgt = detail.get("type", ":?").split(":", 1)[-1] if "type" in detail else None
    tgt = "" if tgt is None else (" -> %s" % (tgt if tgt.startswith("_grist_") else "user table"))
    return "%s:%s%s after %s" % (clause.split(".", 1)[1], where, tgt, detail.get("step"))


_REPORTED = set()
_KNOWN = []

def _known_classes():
  if not _KNOWN:
    _KNOWN.append({(f["match"].get("obligation"), f["match"].get("class"))
                   for f in common.load_known_findings("C10")})
  return _KNOWN[0]


def _flush_counts():
  d = os.environ.get("C10_COUNT_DIR")
  if not d: return
  with open(os.path.join(d, "%d.json" % os.getpid()), "w") as f:
    json.dump({"steps": ST["steps"], "steps_removing": ST["steps_removing"],
               "distinct": len(ST["distinct"])}, f)


def main():
  rep = common.Report("C10", "exploration")
  rep.assumptions += [
    common.SHIM_ASSUMPTION,
    "tier P lemma (contracts/C10_refs.py): raw_get / is_right_type are pure stubs",
    "bounded: seeded random histories (seed documents c10_chain, c10_meta, refs, twoway, "
    "twoway_list, summary; action mix weighted towards record / table / column / view / section / "
    "metadata-record removals and reference writes); the clause is evaluated per user action and "
    "for the end-of-bundle segment of every SUCCESSFUL bundle (a failed bundle is rolled back as a "
    "whole, C04); not a proof",
    "only DATA columns of type Ref:/RefList: are in scope (statement); alt-text and non-integer "
    "members reference nothing"]
  rep.coverage["rule"] = (
    "one evaluation = one user action (or end-of-bundle segment) of the real engine with the "
    "2-state clause checked on all reference columns of all tables incl. metadata; non-trivial = "
    "the step removed at least one row of some table, distinct by (user action, row ids of all "
    "tables before it) within a worker process")
  from vlib.pysym import runner
  runner.run_property(rep, "contracts.C10_refs", bounded=False)
  # the reverse index of a reference column against its abstract view, and the invariant that ties
  # it to the column's data (ReferenceRelation.* / BaseReferenceColumn.set /
  # get_updates_for_removed_target_rows): proved for all data, all writes
  runner.semantics_selfcheck(rep)
  runner.run_property(rep, "contracts.C10_relation", bounded=False)
  d = tempfile.mkdtemp(prefix="c10-count-")
  os.environ["C10_COUNT_DIR"] = d
  tot = {"steps": 0, "steps_removing": 0, "distinct": 0}
  try:
    explore.explore(rep, "checks.C10", "C10Monitor", n_quick=800, n_thorough=10000,
                    budget_quick_s=45, budget_thorough_s=800)
    for f in os.listdir(d):
      with open(os.path.join(d, f)) as fh:
        for k, v in json.load(fh).items(): tot[k] += v
  finally:
    shutil.rmtree(d, ignore_errors=True)
  cov = rep.coverage
  cov["history_bundles"] = cov.get("evaluations", 0)
  cov["evaluations"] = tot["steps"]
  cov["distinct_nontrivial"] = tot["distinct"]
  cov["steps_removing_rows"] = tot["steps_removing"]
  cov["exhaustive"] = False
  if tot["steps"] == 0:
    rep.undecided_obligation("C10.no_dangling", "the per-action contract was never exercised")
  return rep.finish()


if __name__ == "__main__":
  sys.exit(main())
