"""C37 Text patches map back to the right source positions — bounded run-time contract (tier B).

Tier P (lemma, contracts/C37_offsets.py): Replacer.get_input_pos on the offset tables' invariant.

Real classes under contract (imported from common.REPO): textbuilder.Text, Replacer, Combiner.

A builder composition is described by plain data
    ("T", text, value) | ("R", child, [(start, end, new_text), ...]) | ("C", [part, ...])
with part = ("L", literal) or a composition.  From that description
  * `build` constructs the REAL builders, and
  * the specification below computes, from the property statement, the text obtained by applying
    the patches directly and — by character provenance, level by level — the patch of the
    originating Text that covers exactly the source characters corresponding to an output range.
The two are compared for every output range of every enumerated composition."""
import itertools
import os
import random
import sys

sys.path.insert(0, os.path.dirname(os.path.dirname(os.path.abspath(__file__))))
from vlib import common
from vlib.rtc import fn

common.setup_grist_path()
import textbuilder                                    # noqa: E402  real module

NEW = "N"      # replacement text of the output patch that is mapped back


# ---------------------------------------------------------------------------------------------
# building the real objects
# ---------------------------------------------------------------------------------------------

def build(node):
  k = node[0]
  if k == "T":
    return textbuilder.Text(node[1], node[2])
  if k == "L":
    return node[1]
  if k == "R":
    child = build(node[1])
    text = child.get_text()
    # patches are a set: they are handed over in reverse position order
    return textbuilder.Replacer(child, [textbuilder.Patch(s, e, text[s:e], new)
                                        for (s, e, new) in reversed(node[2])])
  if k == "C":
    return textbuilder.Combiner([build(p) for p in node[1]])
  raise ValueError(k)


# ---------------------------------------------------------------------------------------------
# specification
# ---------------------------------------------------------------------------------------------

def apply_directly(text, patches):
  """The text after applying non-overlapping patches (start, end, new) directly, in position order."""
  out, pos = [], 0
  for (s, e, new) in sorted(patches):
    out.append(text[pos:s]); out.append(new); pos = e
  out.append(text[pos:])
  return "".join(out)


def spec_text(node):
  k = node[0]
  if k in ("T", "L"): return node[1]
  if k == "R": return apply_directly(spec_text(node[1]), node[2])
  return "".join(spec_text(p) for p in node[1])


def _layout(text, patches):
  """Character provenance of a Replacer's output: prov[i] = ('c', input index) for a copied
  character, ('p', k) for a character of patch k's replacement; info[k] = (start, end, new,
  out_start)."""
  prov, info, pos = [], [], 0
  for k, (s, e, new) in enumerate(sorted(patches)):
    prov.extend(("c", i) for i in range(pos, s))
    info.append((s, e, new, len(prov)))
    prov.extend(("p", k) for _ in new)
    pos = e
  prov.extend(("c", i) for i in range(pos, len(text)))
  return prov, info


def _replacer_range(text, patches, s, e, greedy_end):
  """Input range corresponding to output range [s, e) of a Replacer, or None when the statement
  does not determine it (a boundary strictly inside a replacement text; an empty range that touches
  a patch).  Minimal span covering the source characters of the copied characters in the range and
  the replaced spans of the replacements in the range; text deleted right before / after the range
  corresponds to no character of it and is not covered.
  greedy_end=True describes the known deviation instead: the end is pushed over deletions that
  sit exactly at the end of the range."""
  prov, info = _layout(text, patches)
  for (ps, pe, new, o) in info:
    if new and (o < s < o + len(new) or o < e < o + len(new)):
      return None
  if s == e:
    for (ps, pe, new, o) in info:
      if o <= s <= o + len(new):
        return None
    i = prov[s][1] if s < len(prov) else len(text)
    return (i, i)
  lo, hi = None, None
  for p in range(s, e):
    if prov[p][0] == "c":
      a, b = prov[p][1], prov[p][1] + 1
    else:
      a, b = info[prov[p][1]][0], info[prov[p][1]][1]
    lo = a if lo is None else min(lo, a)
    hi = b if hi is None else max(hi, b)
  if greedy_end:
    moved = True
    while moved:
      moved = False
      for (ps, pe, new, o) in info:
        if new == "" and pe > ps and ps == hi and o == e:
          hi = pe; moved = True
  return (lo, hi)


def spec_map(node, s, e, greedy_end=False):
  """-> ('patch', leaf_text, leaf_value, start, end) | ('none',) | ('refused',) | ('skip', why)"""
  k = node[0]
  if k == "T":
    return ("patch", node[1], node[2], s, e)
  if k == "R":
    r = _replacer_range(spec_text(node[1]), node[2], s, e, greedy_end)
    if r is None:
      return ("skip", "range boundary not determined by the statement at a Replacer")
    return spec_map(node[1], r[0], r[1], greedy_end)
  # Combiner
  off, hit = 0, []
  for p in node[1]:
    n = len(spec_text(p))
    if s < e:
      if max(s, off) < min(e, off + n): hit.append((p, off))
    elif off < s < off + n:
      hit.append((p, off))
    off += n
  if s == e and not hit:
    return ("skip", "empty range on a part boundary")
  if len(hit) > 1:
    return ("refused",)
  p, off = hit[0]
  if p[0] == "L":
    return ("none",)
  return spec_map(p, s - off, e - off, greedy_end)


def observe(node, s, e):
  """Runs the real builders: -> ('patch', text, value, start, end, old, new) | ('none',) |
  ('refused', msg) | ('raised', repr)"""
  top = build(node)
  out = top.get_text()
  try:
    r = top.map_back_patch(textbuilder.make_patch(out, s, e, NEW))
  except ValueError as ex:
    return ("refused", str(ex))
  except Exception as ex:
    return ("raised", repr(ex))
  if r is None:
    return ("none",)
  text, value, patch = r
  return ("patch", text, value, patch.start, patch.end, patch.old_text, patch.new_text)


def judge(node, s, e):
  """-> list of (clause, class, detail)"""
  fails = []
  want_text = spec_text(node)
  try:
    got_text = build(node).get_text()
  except Exception as ex:
    return [("C37.text_equals_direct_application", "construction-raised", "building raised %r" % (ex,))]
  if got_text != want_text:
    return [("C37.text_equals_direct_application", "text-differs",
             "get_text() = %r, patches applied directly give %r" % (got_text, want_text))]
  if s is None:
    return fails
  want = spec_map(node, s, e)
  if want[0] == "skip":
    return fails
  got = observe(node, s, e)
  ok = False
  if want[0] == "patch":
    exp = ("patch", want[1], want[2], want[3], want[4], want[1][want[3]:want[4]], NEW)
    ok = got == exp
  elif want[0] == "none":
    ok = got == ("none",)
  elif want[0] == "refused":
    ok = got[0] == "refused"
  if ok:
    return fails
  # canonical class of the disagreement
  alt = spec_map(node, s, e, greedy_end=True)
  cls = "other"
  if alt != want:
    if alt[0] == "patch" and got == ("patch", alt[1], alt[2], alt[3], alt[4], alt[1][alt[3]:alt[4]], NEW):
      cls = "end-offset-maps-past-adjacent-deletion"
    elif alt[0] == "refused" and got[0] == "refused":
      cls = "end-offset-maps-past-adjacent-deletion:then-refused-as-spanning"
    elif alt[0] == "none" and got == ("none",):
      cls = "end-offset-maps-past-adjacent-deletion"
    elif (alt[0] == "skip" and want[0] == "patch" and got[0] == "patch" and got[1:4] == want[1:4]
          and got[4] > want[4]):
      # once an outer end offset is pushed past a deletion it can land strictly inside an inner
      # replacement text, where nothing determines the answer: same start, later end
      cls = "end-offset-maps-past-adjacent-deletion:then-inside-inner-replacement"
    elif alt[0] == "skip" and want[0] == "patch" and got[0] == "refused":
      # ... and from there an inner Combiner sees a range that leaves its part
      cls = "end-offset-maps-past-adjacent-deletion:then-inside-inner-replacement:refused"
  clause = "C37.spanning_refused" if want[0] == "refused" else "C37.map_back_exact"
  if cls == "other":
    cls = {"refused": "unexpected-refusal", "raised": "raised", "none": "unexpected-none",
           "patch": "wrong-patch"}[got[0]] if want[0] != "refused" else "spanning-range-accepted"
  fails.append((clause, cls, "output %r range [%d,%d)=%r: expected %r, got %r"
                % (want_text, s, e, want_text[s:e], want, got)))
  return fails


# ---------------------------------------------------------------------------------------------
# enumeration of the stated finite space
# ---------------------------------------------------------------------------------------------

REPL = ["", "X", "XY"]


def patch_sets(n, max_patches, repl=REPL):
  """Every position-ordered set of <= max_patches non-overlapping patches on a text of length n:
  spans of length 0/1/2, replacements from `repl` (lengths 0/1/2); a zero-length span with an empty
  replacement (a no-op) is left out, and at most one zero-length span sits at one position."""
  def rec(pos, zero_at, k):
    yield []
    if k == 0:
      return
    for s in range(pos, n + 1):
      for L in (0, 1, 2):
        if s + L > n or (L == 0 and s == zero_at):
          continue
        for r in repl:
          if L == 0 and r == "":
            continue
          for rest in rec(s + L, s if L == 0 else None, k - 1):
            yield [(s, s + L, r)] + rest
  return rec(0, None, max_patches)


def texts(maxlen, minlen=0):
  for n in range(minlen, maxlen + 1):
    for t in itertools.product("ab", repeat=n):
      yield "".join(t)


def structures(tier, seed):
  q = tier == "quick"
  # depth 1: Replacer over Text
  for t in texts(4 if q else 6):
    mp = 3 if len(t) <= (4 if q else 5) else 2
    for ps in patch_sets(len(t), mp):
      yield ("R", ("T", t, "v0"), ps)
  # depth 2: Replacer over Replacer
  for t in texts(3 if q else 4, 1):
    for p1 in patch_sets(len(t), 2):
      if not p1: continue
      mid = apply_directly(t, p1)
      for p2 in patch_sets(len(mid), 1 if (q or len(t) == 4) else 2, repl=["", "Z", "ZW"]):
        if not p2: continue
        yield ("R", ("R", ("T", t, "v0"), p1), p2)
  # depth 1/2: Combiner of literals, Texts and Replacers
  rpool = [("T", "ab", "v1"), ("T", "", "v2"), ("L", "-"), ("L", ""),
           ("R", ("T", "ab", "v3"), [(1, 2, "")]), ("R", ("T", "ab", "v4"), [(0, 1, "")]),
           ("R", ("T", "ba", "v5"), [(1, 1, "X")]), ("R", ("T", "ab", "v6"), [(0, 1, "XY"), (2, 2, "X")]),
           ("R", ("T", "a", "v7"), [(0, 1, "")])]
  if not q:
    rpool += [("R", ("T", "abb", "v8"), [(0, 0, "X"), (1, 3, "")]), ("T", "b", "v9"),
              ("R", ("T", "bab", "v10"), [(0, 1, ""), (2, 3, "")])]
  for n in (1, 2, 3):
    for parts in itertools.product(rpool, repeat=n):
      yield ("C", list(parts))
  # depth 2: Replacer over Combiner
  cpool = [("C", [("T", "ab", "v1"), ("T", "ba", "v2")]), ("C", [("T", "a", "v1"), ("L", "-"), ("T", "b", "v2")]),
           ("C", [("L", "d"), ("T", "ab", "v1")]), ("C", [("T", "ab", "v1"), ("T", "", "v2"), ("T", "b", "v3")])]
  if not q:
    cpool += [("C", [("T", "a", "v1"), ("T", "b", "v2"), ("T", "a", "v3")]),
              ("C", [("R", ("T", "ab", "v1"), [(1, 2, "")]), ("T", "ba", "v2")])]
  for c in cpool:
    for ps in patch_sets(len(spec_text(c)), 2 if q else 3):
      if ps:
        yield ("R", c, ps)


def cases(tier, seed):
  for node in structures(tier, seed):
    n = len(spec_text(node))
    yield {"node": node, "s": None, "e": None}
    for s in range(n + 1):
      for e in range(s, n + 1):
        yield {"node": node, "s": s, "e": e}
  if tier == "thorough":
    # sampled: longer texts, more patches, deeper nesting (depth 3)
    rng = random.Random(3700 + seed)
    for _ in range(150000):
      node = ("T", "".join(rng.choice("ab") for _ in range(rng.randint(0, 9))), "v0")
      for depth in range(rng.randint(1, 3)):
        if rng.random() < 0.3:
          other = ("T", "".join(rng.choice("ab") for _ in range(rng.randint(0, 3))), "w%d" % depth)
          parts = [node, rng.choice([("L", "-"), other])]
          rng.shuffle(parts)
          node = ("C", parts)
        else:
          t = spec_text(node)
          ps, pos = [], 0
          while pos <= len(t) and rng.random() < 0.7:
            s = rng.randint(pos, len(t)); L = rng.choice([0, 1, 1, 2, 3])
            if s + L > len(t): break
            r = rng.choice(["", "", "X", "XY", "XYZ"])
            if L or r: ps.append((s, s + L, r))
            pos = s + L + (1 if L == 0 else 0)
          node = ("R", node, ps)
      n = len(spec_text(node))
      s = rng.randint(0, n); e = rng.randint(s, n)
      yield {"node": node, "s": s, "e": e}


# ---------------------------------------------------------------------------------------------

CLAUSES = ("C37.text_equals_direct_application", "C37.map_back_exact", "C37.spanning_refused")
_REPORTED = {}


def _call(a):
  return {"fails": judge(a["node"], a["s"], a["e"]),
          "skip": a["s"] is not None and spec_map(a["node"], a["s"], a["e"])[0] == "skip"}


def _clause(name):
  """At most 3 failures per (clause, class) and worker process are handed to fn.check (it keeps 40
  failure records per worker); see C20 for the reason."""
  def pred(a, r):
    for c, cls, d in r["fails"]:
      if c == name:
        _REPORTED[(c, cls)] = _REPORTED.get((c, cls), 0) + 1
        if _REPORTED[(c, cls)] > 3:
          return True
        return "[class=%s] %s" % (cls, d)
    return True
  return pred


def _classify(a, clause, detail):
  d = str(detail)
  return d[len("[class="):d.index("]")] if d.startswith("[class=") else clause


def _determined(a):
  """requires: the statement determines the expected answer (range boundaries not strictly inside a
  replacement text; empty ranges not touching a patch or a part boundary)."""
  return a["s"] is None or spec_map(a["node"], a["s"], a["e"])[0] != "skip"


def _nontrivial(a, r, exc):
  """non-trivial = a non-empty output range is mapped back through at least one Replacer that
  changes the text length before the range's end, or the range spans parts (refusal expected)."""
  if a["s"] is None or a["s"] == a["e"]:
    return False
  return _shifts(a["node"])


def _shifts(node):
  if node[0] == "R":
    return any((e - s) != len(new) for (s, e, new) in node[2]) or _shifts(node[1])
  if node[0] == "C":
    return len(node[1]) > 1
  return False


def main():
  rep = common.Report("C37", "exploration")
  tier = common.tier()
  rep.assumptions += [
    "bounded: exhaustive small compositions (below) and, in the thorough tier, seeded deeper ones; "
    "not a proof",
    "patches given to a Replacer are non-overlapping, match the text (old_text is taken from it) and "
    "at most one zero-width insertion sits at one position",
    "'covers exactly the corresponding source characters' is specified by character provenance: "
    "the minimal span of the originating text that covers the source of every copied character in "
    "the range and the whole replaced span of every replacement in the range; text deleted "
    "immediately before or after the range corresponds to none of its characters and must not be "
    "covered",
    "output ranges with a boundary strictly inside a replacement text, and empty ranges that touch "
    "a patch or a part boundary, are outside the contract (the statement does not determine the "
    "answer); they are counted as precondition_skipped",
    "a range inside a literal string part of a Combiner maps to None (Combiner docstring / tests)",
  ]
  rep.assumptions.append(
    "tier P lemma (contracts/C37_offsets.py): Replacer.get_input_pos against the offset tables' "
    "representation invariant (parallel lists starting at 0, output offsets non-decreasing), proved "
    "for all tables and positions; bisect.bisect_right through its assumed contract, mathematical "
    "integers; that Replacer.__init__ establishes the invariant is NOT proved (bounded tier only)")
  from vlib.pysym import runner
  runner.run_property(rep, "contracts.C37_offsets", bounded=False)
  rep.coverage["rule"] = (
    "one evaluation = one (composition, output range) pair: the real builders are constructed, "
    "get_text() is compared with direct application, and map_back_patch of the range is compared "
    "with the provenance specification (plus one evaluation per composition for the text alone). "
    "Non-trivial = non-empty range mapped through a length-changing Replacer or a multi-part "
    "Combiner; distinct by repr of (composition, range).")
  rep.coverage["bound"] = {
    "alphabet": "ab", "span_lengths": [0, 1, 2], "replacement_lengths": [0, 1, 2],
    "replacer_over_text": ("texts <= 4, <= 3 patches" if tier == "quick"
                           else "texts <= 6, <= 3 patches (<= 2 for length 6)"),
    "replacer_over_replacer": ("texts 1..3, inner <= 2 patches, outer 1 patch" if tier == "quick"
                               else "texts 1..3: inner <= 2, outer <= 2 patches; texts of 4: outer 1 patch"),
    "combiner": "all sequences of 1..3 parts over a pool of %d parts (Texts, literals, empty parts, "
                "Replacers with deletions/insertions)" % (9 if tier == "quick" else 12),
    "replacer_over_combiner": "%d combiners x all patch sets of <= %d patches"
                              % ((4, 2) if tier == "quick" else (6, 3)),
    "ranges": "every 0 <= s <= e <= len(output)",
    "sampled_depth3": 0 if tier == "quick" else 150000}
  contract = fn.FnContract(
    name="textbuilder.Replacer/Combiner/Text.map_back_patch + get_text", call=_call,
    requires=_determined, ensures={c: _clause(c) for c in CLAUSES}, classify=_classify,
    nontrivial=_nontrivial, show=lambda a: {"composition": a["node"], "range": (a["s"], a["e"])})
  fn.check(rep, contract, cases, exhaustive=(tier == "quick"), limit_quick_s=60, limit_thorough_s=900)
  if tier != "quick":
    rep.coverage["exhaustive"] = False
    rep.coverage["exhaustive_part"] = "everything except bound.sampled_depth3 is enumerated completely"
  return rep.finish()


if __name__ == "__main__":
  sys.exit(main())
