"""C17 Renames inside access rules and conditions are exact — bounded run-time contracts on

 (A) predicate_formula.process_renames with the three REAL collectors (acl._ACLEntityCollector,
     dropdown_condition._DCEntityCollector, trigger_expression._TriggerEntityCollector), and
 (B) the REAL engine: documents with ACL resources / rules / user attributes, dropdown conditions
     and trigger conditions, renamed through apply_user_actions (RenameColumn, UpdateRecord /
     BulkUpdateRecord of colId on _grist_Tables_column), i.e. through acl.perform_acl_rule_renames,
     dropdown_condition.perform_dropdown_condition_renames and
     trigger_expression.perform_trigger_condition_renames.

Formulas are generated as lists of pieces; a piece is literal text or a column reference
(kind, colId) with kind in rec ($X / rec.X), newRec, oldRec, choice, user.<Attr>.  The generator
therefore knows where every reference is, and the expected text is built from the pieces, never
by a second implementation of the renamer.

Which table a reference kind means (the statement's reading; stated in the evidence):
   ACL rule on table T        rec.X / $X / newRec.X -> T ; user.Attr.X -> the attribute's table
   dropdown condition on T.c  rec.X / $X -> T ; choice.X -> the table c refers to (Ref/RefList)
   trigger condition on T     rec.X / $X / oldRec.X -> T
everything else (rec.Y.X, user.X, names in strings and comments, choice.X on a non-reference
column, ...) is not a reference.

ensures
  C17.text_elsewhere_unchanged  new text == the pieces with exactly the affected references renamed
  C17.tree_renamed              parse(new text) == parse(old text) with exactly those references
                                renamed (real parse_predicate_formula on both sides)
  C17.stored_parse_consistent   (B) the stored parsed form == parse(stored text) (aclFormulaParsed,
                                dropdownCondition.parsed, condition.parsed, customExpressionParsed)
  C17.invalid_untouched         a formula that parse_predicate_formula rejects is returned / stored
                                unchanged
  C17.resource_and_lookup_columns (B) ACL resource colIds and user-attribute lookupColId are renamed
                                exactly for their table; other records are unchanged
raises: nothing is allowed (a rename must not fail because of a stored formula)."""
import ast
import copy
import itertools
import json
import os
import random
import re
import sys

sys.path.insert(0, os.path.dirname(os.path.dirname(os.path.abspath(__file__))))
from vlib import common
from vlib.rtc import fn, eng
from contracts import C32_driver as driver

import predicate_formula as pf            # REAL modules from the working tree
import acl
import dropdown_condition
import trigger_expression


# ---------------------------------------------------------------------------------------------
# document layout used by both tiers

ATTR_TABLES = {"Attr1": "U", "Attr2": "T"}
CONTEXTS = {
  # name: (kind, own table, table `choice` refers to)
  "acl:T": ("acl", "T", None),
  "acl:R2": ("acl", "R2", None),
  "dd:T.R": ("dd", "T", "R2"),        # Ref:R2
  "dd:T.RL": ("dd", "T", "R2"),       # RefList:R2
  "dd:T.S": ("dd", "T", "T"),         # Ref:T (self reference)
  "dd:T.C": ("dd", "T", None),        # Choice column with a stray condition
  "trig:T": ("trig", "T", None),
  "trigx:T": ("trig", "T", None),     # config.customExpression
}
COLLECTORS = {"acl": acl._ACLEntityCollector, "dd": dropdown_condition._DCEntityCollector,
              "trig": trigger_expression._TriggerEntityCollector}


def ref_table(ctx, kind):
  k, own, choice = CONTEXTS[ctx]
  if kind == "rec": return own
  if kind == "newRec": return own if k == "acl" else None
  if kind == "oldRec": return own if k == "trig" else None
  if kind == "choice": return choice if k == "dd" else None
  if isinstance(kind, tuple) and kind[0] == "user":
    return ATTR_TABLES.get(kind[1]) if k == "acl" else None
  return None


def text_of(pieces):
  return "".join(p if isinstance(p, str) else p[1] for p in pieces)


def rename_pieces(pieces, ctx, renames):
  """The same formula after the renames {(table, col): new}: only reference pieces change."""
  out = []
  for p in pieces:
    if not isinstance(p, str):
      t = ref_table(ctx, p[0])
      new = renames.get((t, p[1])) if t else None
      if new: p = (p[0], new)
    out.append(p)
  return out


def rename_tree(tree, ctx, renames):
  """parse tree with exactly the statement's references renamed."""
  if not isinstance(tree, list) or not tree:
    return tree
  if tree[0] == "Const":
    return tree
  if tree[0] == "Attr" and len(tree) == 3 and isinstance(tree[2], str):
    base, name = tree[1], tree[2]
    kind = None
    if base in (["Name", "rec"], ["Name", "newRec"], ["Name", "oldRec"], ["Name", "choice"]):
      kind = base[1]
    elif isinstance(base, list) and len(base) == 3 and base[0] == "Attr" and base[1] == ["Name", "user"]:
      kind = ("user", base[2])
    t = ref_table(ctx, kind) if kind else None
    new = renames.get((t, name)) if t else None
    return ["Attr", rename_tree(base, ctx, renames), new or name]
  if tree[0] == "Comment":
    return ["Comment", rename_tree(tree[1], ctx, renames)] + tree[2:]
  return [tree[0]] + [rename_tree(x, ctx, renames) for x in tree[1:]]


def try_parse(text):
  try:
    return True, pf.parse_predicate_formula(text)
  except SyntaxError:
    return False, None


def python_invalid(text):
  """Input shape of the known defect: the text is not even Python syntax ($X read as rec.X)."""
  try:
    ast.parse(re.sub(r"\$(?=[a-zA-Z_])", "rec.", text))
    return False
  except SyntaxError:
    return True


# ---------------------------------------------------------------------------------------------
# formula generator

def R(kind, col):
  return (kind, col)

def A_rec(c): return ["rec.", R("rec", c)]
def A_dollar(c): return ["$", R("rec", c)]

ATOMS = [
  A_rec("A"), A_dollar("A"), ["newRec.", R("newRec", "A")], ["oldRec.", R("oldRec", "A")],
  ["choice.", R("choice", "A")], ["user.Attr1.", R(("user", "Attr1"), "A")],
  ["user.Attr2.", R(("user", "Attr2"), "A")], ["user.A"], ["user.Nope.A"], A_rec("B"), A_dollar("Ab"),
  ["rec.", R("rec", "A"), ".A"], ["'A'"], ['"rec.A $A"'], ["A"], ["1"], ["rec.", R("rec", "R"), ".A"],
  ["choice.rec.A"], ["rec .", R("rec", "A")], ["( rec.\n", R("rec", "A"), ")"], ["$", R("rec", "A"), ".B"],
  ["recA"], ["rec2.A"], ["'é$A' + ", "$", R("rec", "A")], ["None"], ["user.Attr1.", R(("user", "Attr1"), "D")],
]
SMALL_ATOMS = ATOMS[:12]


def c_bin(op):
  return lambda x, y: x + [op] + y

COMBINATORS2 = [c_bin(" == "), c_bin(" and "), c_bin(" or "), c_bin(" + "), c_bin(" in "),
                c_bin(" != "), c_bin(" not in "), c_bin("  <\t"),
                lambda x, y: ["["] + x + [", "] + y + ["]"],
                lambda x, y: ["f("] + x + [", k="] + y + [")"],
                lambda x, y: x + [".startswith("] + y + [")"],
                lambda x, y: ["("] + x + [" or  # A $A rec.A ünî\n "] + y + [")"],
                lambda x, y: x + [" is not "] + y]
COMBINATORS1 = [lambda x: ["not "] + x, lambda x: ["("] + x + [")"], lambda x: x + [".lower()"],
                lambda x: ["len("] + x + [") > 0"]]
TRAILING_COMMENT = lambda x: x + ["  # rec.A $A user.Attr1.A"]     # only ever applied outermost

# formulas that parse_predicate_formula rejects (unsupported syntax, or not Python at all)
UNPARSABLE = [
  ["+ 'New' in choice.", R("choice", "A"), " and $", R("rec", "A"), " == rec.", R("rec", "A")],
  ["-rec.", R("rec", "A")], ["rec.", R("rec", "A"), "[0]"], ["rec.", R("rec", "A"), " == 1 == 2"],
  ["rec.", R("rec", "A"), " if $", R("rec", "A"), " else 1"], ["lambda: rec.", R("rec", "A")],
  ["rec.", R("rec", "A"), " ** 2"], ["f'{rec.A}' == $", R("rec", "A")], ["[x for x in rec.", R("rec", "A"), "]"],
  ["rec.", R("rec", "A"), " =="], ["$", R("rec", "A"), " =="], ["rec.", R("rec", "A"), " == ("],
  ["  rec.", R("rec", "A")], ["$", R("rec", "A"), " = 1"], ["rec.", R("rec", "A"), " rec.", R("rec", "A")],
  ["rec.", R("rec", "A"), " == 'unterminated"], ["$ ", R("rec", "A")], ["rec.", R("rec", "A"), " and"],
]


def depth1():
  for a in ATOMS: yield a

def depth2(atoms):
  for c in COMBINATORS1 + [TRAILING_COMMENT]:
    for x in atoms: yield c(x)
  for c in COMBINATORS2:
    for x in atoms:
      for y in atoms: yield c(x, y)

def rand_formula(rng, depth, top=True):
  if top:
    f = rand_formula(rng, depth, False)
    return TRAILING_COMMENT(f) if rng.random() < 0.15 else f
  if depth == 0 or rng.random() < 0.25:
    return list(rng.choice(ATOMS))
  if rng.random() < 0.3:
    return rng.choice(COMBINATORS1)(rand_formula(rng, depth - 1, False))
  return rng.choice(COMBINATORS2)(rand_formula(rng, depth - 1, False), rand_formula(rng, depth - 1, False))


RENAMES = [
  {("T", "A"): "Zed"}, {("T", "A"): "A_much_longer_name"}, {("T", "A"): "a"}, {("R2", "A"): "Zed"},
  {("U", "A"): "Zed"}, {("T", "B"): "A2"}, {("T", "Ab"): "Abc"}, {("T", "R"): "Rx"},
  {("T", "A"): "X1", ("T", "B"): "X2"}, {("T", "A"): "X1", ("R2", "A"): "X2", ("U", "A"): "X3"},
  {("U", "D"): "Dd"}, {("T", "A"): "rec"}, {("R2", "A"): "choice"},
]


# ---------------------------------------------------------------------------------------------
# (A) function-level contract

def renamer_for(ctx, renames):
  kind, own, choice = CONTEXTS[ctx]
  def renamer(subject):
    if kind == "acl":
      if subject.type == "recCol": t = own
      elif subject.type == "userAttrCol": t = ATTR_TABLES.get(subject.extra)
      else: return None
    elif kind == "dd":
      t = choice if subject.type == "choiceAttr" else own
    else:
      t = own
    return renames.get((t, subject.name))
  return renamer


def fn_call(a):
  kind = CONTEXTS[a["ctx"]][0]
  return pf.process_renames(text_of(a["pieces"]), COLLECTORS[kind](), renamer_for(a["ctx"], a["renames"]))


def fn_text(a, r):
  old = text_of(a["pieces"])
  ok, _ = try_parse(old)
  if not ok: return True
  want = text_of(rename_pieces(a["pieces"], a["ctx"], a["renames"]))
  return True if r == want else "got %r, expected %r" % (r, want)


def fn_tree(a, r):
  old = text_of(a["pieces"])
  ok, tree = try_parse(old)
  if not ok: return True
  ok2, tree2 = try_parse(r)
  if not ok2: return "result %r does not parse" % (r,)
  want = rename_tree(tree, a["ctx"], a["renames"])
  return True if tree2 == want else "parse(result) = %r, expected %r" % (tree2, want)


def fn_invalid(a, r):
  old = text_of(a["pieces"])
  ok, _ = try_parse(old)
  if ok: return True
  return True if r == old else "unparsable formula %r changed to %r" % (old, r)


def fn_classify(a, clause, detail):
  old = text_of(a["pieces"])
  if clause == "raises_only_declared" and python_invalid(old) and \
      ("SyntaxError" in str(detail) or "IndentationError" in str(detail)):
    return "formula-is-not-python-syntax:raises-instead-of-untouched"
  return clause


FN_CONTRACT = fn.FnContract(
  name="predicate_formula.process_renames",
  call=fn_call,
  ensures={"C17.text_elsewhere_unchanged": fn_text, "C17.tree_renamed": fn_tree,
           "C17.invalid_untouched": fn_invalid},
  raises={},
  classify=fn_classify,
  nontrivial=lambda a, r, exc: exc is not None or r != text_of(a["pieces"]),
  show=lambda a: {"ctx": a["ctx"], "formula": text_of(a["pieces"]), "renames": sorted(a["renames"].items())})


def fn_cases(tier, seed):
  quick = tier == "quick"
  ctxs = ["acl:T", "acl:R2", "dd:T.R", "dd:T.S", "dd:T.C", "trig:T"]
  def over(pieces, renames_list=RENAMES):
    for ctx in ctxs:
      for rn in renames_list:
        yield {"ctx": ctx, "pieces": pieces, "renames": rn}
  for f in depth1():
    for c in over(f): yield c
  for f in UNPARSABLE:
    for c in over(f): yield c
  # exhaustive depth 2 over the atoms
  atoms = SMALL_ATOMS if quick else ATOMS
  some = RENAMES[:1] + RENAMES[3:5] + RENAMES[8:10] if quick else RENAMES
  for f in depth2(atoms):
    for c in over(f, some): yield c
  # seeded depth 3-4
  rng = random.Random(15485863 * seed + 17)
  for _ in range(4000 if quick else 200000):
    f = rand_formula(rng, rng.choice([2, 3, 3, 4]))
    yield {"ctx": rng.choice(ctxs), "pieces": f, "renames": rng.choice(RENAMES)}


# ---------------------------------------------------------------------------------------------
# (B) engine-level contract

SLOTS = ["acl:T", "acl:T", "acl:R2", "dd:T.R", "dd:T.RL", "dd:T.S", "dd:T.C", "trig:T", "trigx:T"]
RESOURCES = [("T", "A,B"), ("T", "*"), ("R2", "A"), ("U", "A,D"), ("T", "Ab,A,R"), ("R2", "C2,A")]
USER_ATTRS = [{"name": "Attr1", "charId": "Email", "tableId": "U", "lookupColId": "A"},
              {"name": "Attr2", "charId": "Email", "tableId": "T", "lookupColId": "B"}]


def build_doc(formulas, ua_last=False):
  """formulas: list aligned with SLOTS of (pieces, stored_unparsed).  Returns the engine.
  ua_last: create the user-attribute rules AFTER the formula rules (higher row ids), the order a
  document gets when attributes are added to existing rules."""
  e = eng.new_engine()
  eng.apply(e, [
    ["AddTable", "R2", [{"id": "A", "type": "Text"}, {"id": "C2", "type": "Text"}]],
    ["AddTable", "U", [{"id": "A", "type": "Text"}, {"id": "D", "type": "Text"},
                       {"id": "Email", "type": "Text"}]],
    ["AddTable", "T", [{"id": "A", "type": "Text"}, {"id": "B", "type": "Text"},
                       {"id": "Ab", "type": "Text"}, {"id": "R", "type": "Ref:R2"},
                       {"id": "RL", "type": "RefList:R2"}, {"id": "C", "type": "Choice"}]],
    ["AddColumn", "T", "S", {"type": "Ref:T"}],
  ])
  tref = eng.table_ref(e, "T")
  acts = []
  acts.append(["AddRecord", "_grist_ACLResources", -1, {"tableId": "*", "colIds": "*"}])
  if not ua_last:
    for ua in USER_ATTRS:
      acts.append(["AddRecord", "_grist_ACLRules", None, {"resource": -1, "userAttributes": json.dumps(ua)}])
  for i, (t, cols) in enumerate(RESOURCES):
    acts.append(["AddRecord", "_grist_ACLResources", -(i + 2), {"tableId": t, "colIds": cols}])
  eng.apply(e, acts)
  res_id = {}
  for r in eng.meta_records(e, "_grist_ACLResources"):
    res_id.setdefault((r["tableId"], r["colIds"]), r["id"])
  direct = []        # doc actions that store an unparsable formula as a client / old document could
  acts = []
  for slot, (pieces, raw) in zip(SLOTS, formulas):
    text = text_of(pieces)
    kind, own, _ = CONTEXTS[slot]
    if kind == "acl":
      rid = res_id[("T", "A,B")] if own == "T" else res_id[("R2", "A")]
      rec = {"resource": rid, "aclFormula": text, "permissionsText": "all"}
      if raw:
        rec["aclFormulaParsed"] = ""
        direct.append(("_grist_ACLRules", rec))
      else:
        acts.append(["AddRecord", "_grist_ACLRules", None, rec])
    elif kind == "dd":
      col = slot.split(".")[1]
      wo = {"dropdownCondition": {"text": text}}
      if raw: wo["dropdownCondition"]["parsed"] = ""     # 'parsed' present: the engine does not parse
      acts.append(["ModifyColumn", "T", col, {"widgetOptions": json.dumps(wo)}])
    else:
      if slot == "trigx:T":
        cond = {"config": {"columnFilters": [], "customExpression": text}}
        if raw: cond["config"]["customExpressionParsed"] = None
      else:
        cond = {"text": text}
        if raw: cond["parsed"] = None
      acts.append(["AddRecord", "_grist_Triggers", None, {"tableRef": tref, "condition": json.dumps(cond)}])
  eng.apply(e, acts)
  if ua_last:
    star = res_id[("*", "*")]
    eng.apply(e, [["AddRecord", "_grist_ACLRules", None, {"resource": star, "userAttributes": json.dumps(ua)}]
                  for ua in USER_ATTRS])
  if direct:
    next_id = max(r["id"] for r in eng.meta_records(e, "_grist_ACLRules")) + 1
    das = []
    for tbl, rec in direct:
      das.append(["AddRecord", tbl, next_id, rec]); next_id += 1
    eng.apply(e, [["ApplyDocActions", das]])
  return e


def observe(e):
  out = {"rules": [], "resources": [], "dd": {}, "triggers": []}
  for r in eng.meta_records(e, "_grist_ACLRules"):
    out["rules"].append({k: r[k] for k in ("id", "resource", "aclFormula", "aclFormulaParsed",
                                           "userAttributes", "permissionsText")})
  for r in eng.meta_records(e, "_grist_ACLResources"):
    out["resources"].append({k: r[k] for k in ("id", "tableId", "colIds")})
  tables = {t["id"]: t["tableId"] for t in eng.meta_records(e, "_grist_Tables")}
  for r in eng.meta_records(e, "_grist_Tables_column"):
    if r["widgetOptions"]:
      out["dd"]["%s.%s" % (tables[r["parentId"]], r["colId"])] = r["widgetOptions"]
  for r in eng.meta_records(e, "_grist_Triggers"):
    out["triggers"].append({"id": r["id"], "condition": r["condition"]})
  return out


def rename_actions(mode, renames):
  items = sorted(renames.items())
  if mode == "RenameColumn":
    return [[["RenameColumn", t, c, n] for (t, c), n in items]]
  if mode == "separate-bundles":
    return [[["RenameColumn", t, c, n]] for (t, c), n in items]
  return None   # "bulk": needs column refs, resolved in eng_call


def eng_call(a):
  e = build_doc(a["formulas"], a.get("ua_last", False))
  before = observe(e)
  bundles = rename_actions(a["mode"], a["renames"])
  if bundles is None:
    refs = [(eng.col_ref(e, t, c), n) for (t, c), n in sorted(a["renames"].items())]
    if a["mode"] == "UpdateRecord":
      bundles = [[["UpdateRecord", "_grist_Tables_column", r, {"colId": n}] for r, n in refs]]
    else:
      bundles = [[["BulkUpdateRecord", "_grist_Tables_column", [r for r, _ in refs],
                   {"colId": [n for _, n in refs]}]]]
  for b in bundles:
    eng.apply(e, b)
  return {"before": before, "after": observe(e)}


def final_col(renames):
  return lambda t, c: renames.get((t, c), c)


def eng_failures(a, res):
  out = []
  renames = a["renames"]
  before, after = res["before"], res["after"]
  col_now = {"R": renames.get(("T", "R"), "R"), "RL": "RL", "S": "S", "C": "C"}
  # --- formulas, slot by slot -------------------------------------------------------------------
  rules_with_formula = [r for r in after["rules"] if r["aclFormula"]]
  trig = after["triggers"]
  # the direct (raw) ACL rules were added last: order of appearance = parsed ones, then raw ones
  acl_slots = [i for i, s in enumerate(SLOTS) if CONTEXTS[s][0] == "acl"]
  acl_order = [i for i in acl_slots if not a["formulas"][i][1]] + [i for i in acl_slots if a["formulas"][i][1]]
  trig_slots = [i for i, s in enumerate(SLOTS) if CONTEXTS[s][0] == "trig"]
  stored = {}
  for i, r in zip(acl_order, rules_with_formula):
    stored[i] = (r["aclFormula"], ("json", r["aclFormulaParsed"]))
  for i, r in zip(trig_slots, trig):
    try:
      c = json.loads(r["condition"])
    except Exception:
      out.append(("C17.stored_parse_consistent", "trigger condition is not JSON: %r" % (r["condition"],), i))
      continue
    if SLOTS[i] == "trigx:T":
      cfg = c.get("config", {})
      stored[i] = (cfg.get("customExpression"), ("tree", cfg.get("customExpressionParsed")))
    else:
      stored[i] = (c.get("text"), ("tree", c.get("parsed")))
  for i, s in enumerate(SLOTS):
    if CONTEXTS[s][0] != "dd": continue
    key = "T.%s" % col_now[s.split(".")[1]]
    try:
      dc = json.loads(after["dd"][key])["dropdownCondition"]
      stored[i] = (dc["text"], ("json", dc.get("parsed")))
    except Exception as ex:
      out.append(("C17.stored_parse_consistent", "no dropdown condition at %s: %r" % (key, ex), i))
  if len(rules_with_formula) != len(acl_order) or len(trig) != len(trig_slots):
    out.append(("C17.resource_and_lookup_columns", "records appeared or disappeared", None))
  for i, s in enumerate(SLOTS):
    if i not in stored: continue
    pieces, raw = a["formulas"][i]
    old = text_of(pieces)
    new, (form, parsed) = stored[i]
    ok, tree = try_parse(old)
    if not ok:
      if new != old:
        out.append(("C17.invalid_untouched", "%s: unparsable %r became %r" % (s, old, new), i))
      continue
    want = text_of(rename_pieces(pieces, s, renames))
    if new != want:
      out.append(("C17.text_elsewhere_unchanged", "%s: %r became %r, expected %r" % (s, old, new, want), i))
    ok2, tree2 = try_parse(new)
    if not ok2:
      out.append(("C17.tree_renamed", "%s: new text %r does not parse" % (s, new), i))
      continue
    wtree = rename_tree(tree, s, renames)
    if tree2 != wtree:
      out.append(("C17.tree_renamed", "%s: parse(%r) = %r, expected %r" % (s, new, tree2, wtree), i))
    if raw and new == old:
      continue        # stored with a client-supplied parsed form and not touched: nothing to check
    have = parsed
    if form == "json":
      try:
        have = json.loads(parsed) if parsed else None
      except Exception:
        have = ("not json", parsed)
    if have != json.loads(json.dumps(tree2)):
      out.append(("C17.stored_parse_consistent", "%s: text %r, stored parsed %r, parse(text) %r" % (
        s, new, have, tree2), i))
  # --- resources, user attributes, everything else ------------------------------------------------
  for b, r in zip(before["resources"], after["resources"]):
    want = b["colIds"]
    if want and want != "*":
      want = ",".join(renames.get((b["tableId"], c), c) for c in want.split(","))
    if r["colIds"] != want or r["tableId"] != b["tableId"] or r["id"] != b["id"]:
      out.append(("C17.resource_and_lookup_columns", "resource %r became %r, expected colIds %r" % (b, r, want), None))
  for b, r in zip(before["rules"], after["rules"]):
    if b["userAttributes"]:
      ua = json.loads(b["userAttributes"])
      ua["lookupColId"] = renames.get((ua["tableId"], ua["lookupColId"]), ua["lookupColId"])
      try:
        got = json.loads(r["userAttributes"])
      except Exception:
        got = r["userAttributes"]
      if got != ua:
        out.append(("C17.resource_and_lookup_columns", "user attribute %r became %r, expected %r" % (
          b["userAttributes"], r["userAttributes"], ua), None))
    for k in ("id", "resource", "permissionsText"):
      if b[k] != r[k]:
        out.append(("C17.resource_and_lookup_columns", "rule %d: %s changed from %r to %r" % (b["id"], k, b[k], r[k]), None))
  extra = set(after["dd"]) - set("T.%s" % col_now[s.split(".")[1]] for s in SLOTS if CONTEXTS[s][0] == "dd")
  if extra:
    out.append(("C17.resource_and_lookup_columns", "widgetOptions appeared on %r" % sorted(extra), None))
  return out


_ecache = {}

def _efail(a, res):
  hit = _ecache.get("k")
  if hit is not None and hit[0] is res: return hit[1]
  fs = eng_failures(a, res)
  _ecache["k"] = (res, fs)
  return fs


ENG_CLAUSES = ("C17.text_elsewhere_unchanged", "C17.tree_renamed", "C17.stored_parse_consistent",
               "C17.invalid_untouched", "C17.resource_and_lookup_columns")


def _eclause(name):
  def pred(a, res):
    for f in _efail(a, res):
      if f[0] == name: return f[1]
    return True
  return pred


def eng_classify(a, clause, detail):
  if clause == "raises_only_declared" and ("SyntaxError" in str(detail) or "IndentationError" in str(detail)) \
      and any(python_invalid(text_of(p)) for p, raw in a["formulas"]):
    return "formula-is-not-python-syntax:rename-fails"
  return clause


def eng_show(a):
  return {"ua_last": a.get("ua_last", False),
          "formulas": [[s, text_of(p), "raw" if raw else "parsed"] for s, (p, raw) in zip(SLOTS, a["formulas"])],
          "mode": a["mode"], "renames": sorted(a["renames"].items())}


ENG_CONTRACT = fn.FnContract(
  name="Engine.apply_user_actions(rename) -> acl/dropdown_condition/trigger_expression renames",
  call=eng_call,
  ensures={c: _eclause(c) for c in ENG_CLAUSES},
  raises={},
  classify=eng_classify,
  nontrivial=lambda a, r, exc: exc is not None or r["before"] != r["after"],
  show=eng_show)


def eng_cases(tier, seed):
  quick = tier == "quick"
  rng = random.Random(32452843 * seed + 170)
  d2 = list(depth2(SMALL_ATOMS))
  def formula_for(slot, allow_invalid):
    k = rng.random()
    if allow_invalid and k < 0.5:
      return (list(rng.choice(UNPARSABLE)), True)
    if k < 0.2: return (list(rng.choice(ATOMS)), False)
    if k < 0.6:
      f = list(rng.choice(d2))
      return (TRAILING_COMMENT(f) if rng.random() < 0.1 and f[-1] != TRAILING_COMMENT([])[-1] else f, False)
    return (rand_formula(rng, 3), False)
  n = 260 if quick else 6000
  for j in range(n):
    kind = j % 4          # 0,1,2: only formulas that parse; 3: one or two unparsable ones stored raw
    formulas = []
    bad = set(rng.sample(range(len(SLOTS)), rng.choice([1, 2]))) if kind == 3 else set()
    for i, slot in enumerate(SLOTS):
      f = formula_for(slot, i in bad)
      ok, _ = try_parse(text_of(f[0]))
      if not ok and not f[1]:
        f = (f[0], True)        # a generated formula that does not parse can only be stored raw
      formulas.append(f)
    renames = RENAMES[j % len(RENAMES)] if j < 4 * len(RENAMES) else rng.choice(RENAMES)
    mode = rng.choice(["RenameColumn", "RenameColumn", "UpdateRecord", "bulk", "separate-bundles"])
    yield {"formulas": formulas, "renames": dict(renames), "mode": mode, "ua_last": (j // 2) % 2 == 1}


# ---------------------------------------------------------------------------------------------

def main():
  rep = common.Report("C17", "exploration")
  quick = common.tier() == "quick"
  rep.assumptions += [
    common.SHIM_ASSUMPTION,
    "bounded, not a proof: exhaustive over the stated formula pool at depth <= 2, seeded sampling "
    "above that; engine tier on seeded documents",
    "reference kinds per context: ACL rule rec/$/newRec + user.Attr; dropdown rec/$ + choice (Ref / "
    "RefList columns only); trigger rec/$/oldRec.  oldRec in ACL rules, newRec in triggers and "
    "choice on non-reference columns are not references",
    "parse trees are compared through the real parse_predicate_formula (its faithfulness is C40); "
    "'does not parse' means parse_predicate_formula raises SyntaxError",
    "function tier: the renamer given to process_renames is the harness's transcription of the "
    "closures in perform_*_renames; the real closures are exercised by the engine tier",
    "unparsable formulas are stored the way a client can store them: with a 'parsed' field already "
    "present (dropdown / trigger conditions) or through ApplyDocActions (ACL rules)",
  ]
  rep.coverage["rule"] = (
    "function tier: one evaluation = one process_renames(formula, real collector, renamer) call "
    "with all clauses; engine tier: one evaluation = one document (9 stored formulas, 7 ACL "
    "resources, 2 user attributes) renamed through the real engine with all clauses on every "
    "record; non-trivial = the call changed the text / the document or raised; distinct by repr")
  rep.coverage["bound"] = {
    "atoms": len(ATOMS), "unary_combinators": len(COMBINATORS1), "binary_combinators": len(COMBINATORS2),
    "unparsable_pool": len(UNPARSABLE), "renames": len(RENAMES), "contexts": sorted(CONTEXTS),
    "function_tier": "all atoms and unparsable formulas x 6 contexts x all renames; all depth-2 "
                     "formulas over %d atoms x 6 contexts x %d renames; %d seeded depth 2-4 formulas" % (
                       len(SMALL_ATOMS) if quick else len(ATOMS), 5 if quick else len(RENAMES),
                       4000 if quick else 200000),
    "engine_tier": "%d seeded documents; rename modes RenameColumn / UpdateRecord and "
                   "BulkUpdateRecord of colId on _grist_Tables_column / separate bundles" % (260 if quick else 6000)}
  # 8 workers: with 16 the engine tier loses more to kernel contention than it gains (measured)
  driver.check(rep, FN_CONTRACT, fn_cases, procs=8, exhaustive=False)
  driver.check(rep, ENG_CONTRACT, eng_cases, procs=8, exhaustive=False)
  rep.coverage["exhaustive"] = False
  return rep.finish()


if __name__ == "__main__":
  sys.exit(main())
