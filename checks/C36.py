"""C36 Page-tree indentation fixes always yield a valid tree — deductive (tier P)."""
import os, sys
sys.path.insert(0, os.path.dirname(os.path.dirname(os.path.abspath(__file__))))
from vlib import common
from vlib.pysym import runner

def main():
  common.setup_grist_path()
  rep = common.Report("C36", "proof")
  rep.assumptions += [
    "argument shapes: items is a sequence of objects with int .id/.indentation; deleted_ids is "
    "only used through `in`; indentations >= 0 and ids pairwise distinct (row ids)",
    "int is mathematical (exact for Python int)",
    "'changes only pages that would otherwise violate this' is read against the cap inherited in "
    "the full list (module docstring example); clauses first_unchanged_if_zero and "
    "minimal_change_adjacent state it for the first page and for a page whose predecessor is kept",
  ]
  rep.coverage["rule"] = ("one obligation per (function, clause, path); bounded twin: all page "
                          "lists up to length 4 (quick) / 6 (thorough), levels 0..3, all removal "
                          "subsets; non-trivial = the function returned at least one fix")
  rep.coverage["exhaustive"] = True
  runner.run_property(rep, "contracts.C36_treeview")
  return rep.finish()

if __name__ == "__main__":
  sys.exit(main())
