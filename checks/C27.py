"""C27 Row id allocation never collides or creates ghost rows — deductive on the id-filling slice
of doBulkAddOrReplace (tier P) + bounded run-time contract through the real engine (tier B)."""
import itertools, os, sys
sys.path.insert(0, os.path.dirname(os.path.dirname(os.path.abspath(__file__))))
from vlib import common
from vlib.pysym import runner

IDS = [None, -1, -2, 0, 1, 2, 3, 7, 1000000, 1000001]


def _cases(tier, seed):
  existing_opts = [[], [1, 2], [2, 5]]
  L = 2 if tier == "quick" else 3
  for existing in existing_opts:
    for n in range(1, L + 1):
      for ids in itertools.product(IDS, repeat=n):
        for action in ("BulkAddRecord", "ReplaceTableData", "AddRecord"):
          if action == "AddRecord" and n != 1: continue
          yield dict(existing=existing, ids=list(ids), action=action)


def _call(a):
  from vlib.rtc import eng
  import useractions
  e = eng.new_engine()
  eng.apply(e, [["AddTable", "T", [{"id": "a", "type": "Int", "isFormula": False, "formula": ""}]]])
  if a["existing"]:
    eng.apply(e, [["BulkAddRecord", "T", a["existing"], {"a": a["existing"]}]])
  before = eng.snapshot(e)
  real = useractions.UserActions.doBulkAddOrReplace
  captured = []
  def wrapper(self, *args, **kw):
    r = real(self, *args, **kw); captured.append(list(r)); return r
  useractions.UserActions.doBulkAddOrReplace = wrapper
  try:
    if a["action"] == "AddRecord":
      act = ["AddRecord", "T", a["ids"][0], {}]
    else:
      act = [a["action"], "T", a["ids"], {}]
    try:
      g = eng.apply(e, [act]); exc = None
    except Exception as ex:
      g, exc = None, ex
  finally:
    useractions.UserActions.doBulkAddOrReplace = real
  after = eng.snapshot(e)
  return dict(filled=captured[-1] if captured and exc is None else None, exc=exc, before=before,
              after=after, ret=(g.retValues[0] if g is not None else None),
              stored=eng.stored_reprs(g) if g is not None else None)


def _explicit(ids): return [i for i in ids if i is not None and i >= 0]


def _must_reject(a):
  ex = _explicit(a["ids"])
  replace = a["action"] == "ReplaceTableData"
  return (any(i > 1000000 or i == 0 for i in ex) or len(set(ex)) != len(ex) or
          (not replace and any(i in a["existing"] for i in ex)))


def e_rejected(a, r):
  if _must_reject(a) and r["exc"] is None:
    return "request that cannot create exactly the requested distinct rows was accepted: " \
           "returned %r, rows now %r" % (r["filled"], list(r["after"]["T"][0]))
  return True

def e_no_trace(a, r):
  if r["exc"] is not None:
    from vlib.rtc import eng
    d = eng.diff_snapshots(r["before"], r["after"])
    return True if not d else "rejected request changed the document: %r" % d
  return True

def e_rows_exist(a, r):
  if r["exc"] is not None: return True
  replace = a["action"] == "ReplaceTableData"
  now = list(r["after"]["T"][0])
  new = [x for x in now if replace or x not in a["existing"]]
  if sorted(new) != sorted(r["filled"]):
    return "returned ids %r are not exactly the new rows %r" % (r["filled"], new)
  if not replace and any(x not in now for x in a["existing"]): return "existing rows lost"
  if a["action"] != "ReplaceTableData":
    want = r["filled"][0] if a["action"] == "AddRecord" else r["filled"]
    if r["ret"] != want: return "retValues %r != filled %r" % (r["ret"], want)
  return True

def e_distinct_auto(a, r):
  if r["exc"] is not None: return True
  f = r["filled"]
  if len(set(f)) != len(f): return "returned ids repeat: %r" % (f,)
  top = 0 if a["action"] == "ReplaceTableData" else max(a["existing"] or [0])
  for want, got in zip(a["ids"], f):
    if want is None or want < 0:
      if got <= top: return "automatic id %r not above existing %r" % (got, top)
    elif got != want: return "explicit id %r became %r" % (want, got)
  return True


def _classify(a, clause, detail):
  ex = _explicit(a["ids"])
  if any(i == 0 for i in ex): return "explicit-id-0"
  if len(set(ex)) != len(ex): return "repeated-explicit-id"
  return clause


def main():
  common.setup_grist_path()
  rep = common.Report("C27", "exploration")
  rep.assumptions += [
    "tier P covers the id-filling slice of doBulkAddOrReplace (function entry up to the call of "
    "update_new_rows_map); table.next_row_id() is assumed to return an id above every existing "
    "the link from the id column to the `existing` set of the slice contract is by the view definition)", "int is mathematical",
    "bounded part: BulkAddRecord/ReplaceTableData/AddRecord through the real engine with all id "
    "lists of length <= 2 (quick) / 3 (thorough) over %r on tables holding {} / {1,2} / {2,5}" % (IDS,),
    common.SHIM_ASSUMPTION,
  ]
  rep.coverage["rule"] = ("proof obligations per (clause, path) of the slice; bounded: one "
                          "evaluation = one request applied to a fresh real engine; non-trivial "
                          "= distinct request")
  rep.coverage["exhaustive"] = True
  runner.run_property(rep, "contracts.C27_rowids", bounded=False)
  runner.run_property(rep, "contracts.L_store", bounded=False, only=["L.rowids"])
  from vlib.rtc import fn
  c = fn.FnContract("UserActions.BulkAddRecord/ReplaceTableData/AddRecord (via Engine.apply_user_actions)",
                    _call, ensures={"C27.unsatisfiable_request_rejected": e_rejected,
                                    "C27.rejection_leaves_no_trace": e_no_trace,
                                    "C27.returned_ids_are_the_new_rows": e_rows_exist,
                                    "C27.distinct_and_auto_above_existing": e_distinct_auto},
                    classify=_classify)
  fn.check(rep, c, _cases, exhaustive=True, warm_engine=True)
  return rep.finish()


if __name__ == "__main__":
  sys.exit(main())
