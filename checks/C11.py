"""C11 Two-way references stay symmetric.

Tier B, run-time contracts on the REAL code:
  * Engine.apply_user_actions (every bundle of every explored history):
      C11.symmetric         invariant after every successful bundle: for every pair of columns
                            (c in T, d in U) linked through _grist_Tables_column.reverseCol, and all
                            rows a of T, b of U:  a.c refers to b  <=>  b.d refers to a
      C11.pair_linked       reverseCol links are mutual (c.reverseCol = d  <=>  d.reverseCol = c)
      C11.unique_rejected   a record action whose explicit values would make two rows refer to the
                            same target through a column whose reverse is a single-valued Ref is
                            rejected (raises) ...
      C11.rejected_unchanged  ... and a bundle rejected for that reason leaves the document unchanged
  * reverse_references.get_reverse_adjustments, exhaustively for <= 3 rows x <= 3 targets:
      C11.adjustments_exact  each returned (target, list) is the sorted pre-image of the target
                             after the update, every target whose pre-image changes is returned
                             exactly once, and nothing else is."""
import itertools, json, os, sys, types
sys.path.insert(0, os.path.dirname(os.path.dirname(os.path.abspath(__file__))))
from vlib import common
from vlib.rtc import eng, explore, gen, fn

_col = gen._col

# ------------------------------------------------------------------------------------------------
# engine-level invariant
# ------------------------------------------------------------------------------------------------

def two_way_pairs(e):
  """[(T, c, typeC, U, d, typeD)] with each unordered pair once, plus link errors."""
  cols = {c["id"]: c for c in eng.meta_records(e, "_grist_Tables_column")}
  tabs = {t["id"]: t["tableId"] for t in eng.meta_records(e, "_grist_Tables")}
  pairs, bad = [], []
  for c in cols.values():
    rc = c["reverseCol"]
    if not rc: continue
    d = cols.get(rc)
    if d is None or d["reverseCol"] != c["id"]:
      bad.append({"col": c["colId"], "table": tabs.get(c["parentId"]), "reverseCol": rc,
                  "reverse_of_reverse": d and d["reverseCol"]})
      continue
    if c["id"] < d["id"] or c["id"] == d["id"]:
      pairs.append((tabs.get(c["parentId"]), c["colId"], c["type"],
                    tabs.get(d["parentId"]), d["colId"], d["type"]))
  return pairs, bad


def _refs(typ, v):
  if typ.startswith("Ref:"):
    return {v} if isinstance(v, int) and not isinstance(v, bool) and v > 0 else set()
  if isinstance(v, (list, tuple)):
    return {x for x in v if isinstance(x, int) and not isinstance(x, bool) and x > 0}
  return set()


def check_symmetric(e):
  out = []
  pairs, bad = two_way_pairs(e)
  for b in bad:
    out.append(("C11.pair_linked", b))
  for (T, c, tc, U, d, td) in pairs:
    if T not in e.tables or U not in e.tables:
      out.append(("C11.pair_linked", {"why": "table of a linked column missing", "pair": [T, c, U, d]}))
      continue
    ft, fu = e.fetch_table(T, formulas=True), e.fetch_table(U, formulas=True)
    if c not in ft.columns or d not in fu.columns:
      out.append(("C11.pair_linked", {"why": "linked column missing", "pair": [T, c, U, d]})); continue
    fwd = {a: _refs(tc, v) for a, v in zip(ft.row_ids, ft.columns[c])}
    bwd = {b: _refs(td, v) for b, v in zip(fu.row_ids, fu.columns[d])}
    for a in ft.row_ids:
      for b in fu.row_ids:
        if (b in fwd[a]) != (a in bwd[b]):
          out.append(("C11.symmetric", {
            "pair": [T, c, tc, U, d, td], "a": a, "b": b, "a_refers_to_b": b in fwd[a],
            "b_refers_to_a": a in bwd[b],
            "fwd": {str(k): sorted(v) for k, v in fwd.items()},
            "bwd": {str(k): sorted(v) for k, v in bwd.items()}}))
          break
      else: continue
      break
  return out


def would_need_two_targets(e, bundle):
  """For a bundle of ONE record action on one table: does the state DESIRED by its explicit values
  make two rows refer to the same target through a column whose reverse is a Ref?  -> None (clause
  not applicable), False, or a description."""
  if len(bundle) != 1: return None
  a = bundle[0]
  if a[0] not in ("UpdateRecord", "BulkUpdateRecord", "AddRecord", "BulkAddRecord"): return None
  T = a[1]
  if T not in e.tables or not isinstance(a[3], dict): return None
  bulk = a[0].startswith("Bulk")
  rows = a[2] if bulk else [a[2]]
  if not isinstance(rows, list): return None
  adding = "Add" in a[0]
  pairs, _bad = two_way_pairs(e)
  verdict = None
  for (P, c, tc, U, d, td) in pairs + [(U, d, td, P, c, tc) for (P, c, tc, U, d, td) in pairs
                                        if (P, c) != (U, d)]:
    if P != T or c not in a[3]: continue
    vals = a[3][c] if bulk else [a[3][c]]
    if not isinstance(vals, list) or len(vals) != len(rows): return None
    existing_targets = set(e.tables[U].row_ids) if U in e.tables else set()
    # only clean reference values are in the scope of the clause
    clean = []
    for v in vals:
      if tc.startswith("Ref:"):
        if v is None: v = 0
        if not (isinstance(v, int) and not isinstance(v, bool) and v >= 0): return None
        clean.append({v} if v else set())
      else:
        if v is None: clean.append(set()); continue
        if not (isinstance(v, list) and v and v[0] == "L" and
                all(isinstance(x, int) and not isinstance(x, bool) and x > 0 for x in v[1:])):
          return None
        clean.append(set(v[1:]))
    if any(not s <= existing_targets for s in clean): return None
    if adding:
      if any(r is not None for r in rows): return None
      state = []
    else:
      if not all(isinstance(r, int) and r in e.tables[T].row_ids for r in rows): return None
      if len(set(rows)) != len(rows): return None
      state = []
    ft = e.fetch_table(T, formulas=True)
    cur = {r: _refs(tc, v) for r, v in zip(ft.row_ids, ft.columns[c])}
    desired = dict(cur)
    if adding:
      for i, s in enumerate(clean): desired[("new", i)] = s
    else:
      for r, s in zip(rows, clean): desired[r] = s
    if not td.startswith("Ref:"):
      verdict = verdict or False
      continue
    count = {}
    for r, s in desired.items():
      for t in s: count.setdefault(t, []).append(r)
    clash = {t: rs for t, rs in count.items() if len(rs) > 1 and t in existing_targets}
    if clash:
      return {"column": [T, c, tc], "reverse": [U, d, td],
              "targets_with_two_referrers": {str(k): [str(x) for x in v] for k, v in clash.items()}}
    verdict = verdict or False
  return verdict


# ------------------------------------------------------------------------------------------------
# histories
# ------------------------------------------------------------------------------------------------

gen.SEEDS["c11_one_to_one"] = [
  [["AddTable", "B", [_col("s", "Text")]],
   ["AddTable", "A", [_col("n", "Int"), _col("r", "Ref:B")]]],
  [["BulkAddRecord", "B", [None] * 4, {"s": ["p", "q", "r", "t"]}],
   ["BulkAddRecord", "A", [None] * 4, {"n": [1, 2, 3, 4], "r": [1, 2, 0, 4]}]],
  [["AddReverseColumn", "A", "r"]],
  [["ModifyColumn", "B", "A", {"type": "Ref:A"}]],
]
gen.SEEDS["c11_both"] = [
  [["AddTable", "B", [_col("s", "Text")]],
   ["AddTable", "A", [_col("n", "Int"), _col("r", "Ref:B"), _col("rl", "RefList:B")]]],
  [["BulkAddRecord", "B", [None] * 3, {"s": ["p", "q", "r"]}],
   ["BulkAddRecord", "A", [None] * 3, {"n": [1, 2, 3], "r": [1, 1, 3], "rl": [["L", 1, 2], ["L", 2], None]}]],
  [["AddReverseColumn", "A", "r"]],
  [["AddReverseColumn", "A", "rl"]],
]


class C11Monitor(explore.Monitor):
  seeds = ("twoway", "twoway_list", "c11_one_to_one", "c11_both")
  length = 9
  weights = {"update": 12, "bulk_update": 8, "remove": 8, "bulk_remove": 4, "add": 8, "bulk_add": 5,
             "modify_type": 2, "reverse": 4, "remove_col": 2, "rename_col": 2, "rename_table": 1,
             "add_temp": 3, "replace_data": 0, "view": 0, "summary": 0, "label": 0,
             "modify_formula": 1, "add_formula_col": 1, "to_formula": 1, "upsert": 1}

  def start(self, e, seed_name):
    return {}

  def gen_bundle(self, st, e, g):
    st["exploring"] = True
    rng = g.rng
    x = rng.random()
    pairs, _ = two_way_pairs(e)
    sides = [(T, c, tc, U) for (T, c, tc, U, d, td) in pairs] + \
            [(U, d, td, T) for (T, c, tc, U, d, td) in pairs]
    sides = [s for s in sides if s[0] in e.tables and s[3] in e.tables]
    if sides and x < 0.55:
      T, c, tc, U = rng.choice(sides)
      rows, targets = list(e.tables[T].row_ids), list(e.tables[U].row_ids)
      def val():
        if tc.startswith("Ref:"):
          return rng.choice(targets + [0, 0]) if targets else 0
        k = rng.randint(0, min(3, len(targets)))
        v = rng.sample(targets, k)
        if v and rng.random() < 0.15: v.append(v[0])
        return ["L"] + v if (v or rng.random() < 0.5) else None
      y = rng.random()
      if rows and y < 0.4:
        return [["UpdateRecord", T, rng.choice(rows), {c: val()}]]
      if rows and y < 0.7:
        rs = rng.sample(rows, rng.randint(1, min(3, len(rows))))
        if rng.random() < 0.12: rs = rs + rs[:1]
        return [["BulkUpdateRecord", T, rs, {c: [val() for _ in rs]}]]
      if y < 0.8:
        return [["AddRecord", T, None, {c: val()}]]
      if y < 0.88:
        n = rng.randint(2, 3)
        return [["BulkAddRecord", T, [None] * n, {c: [val() for _ in range(n)]}]]
      if y < 0.94:
        new = ("RefList:" if tc.startswith("Ref:") else "Ref:") + U
        return [["ModifyColumn", T, c, {"type": new}]]
      if rows:
        return [["BulkRemoveRecord", T, rng.sample(rows, rng.randint(1, min(2, len(rows))))]]
    if x < 0.62:
      # link creation / removal
      if pairs and rng.random() < 0.5:
        T, c = rng.choice(pairs)[:2]
        ref = eng.col_ref(e, T, c)
        if rng.random() < 0.5 and ref:
          return [["UpdateRecord", "_grist_Tables_column", ref, {"reverseCol": 0}]]
        return [["RemoveColumn", T, c]]
      a = g.action(e, "reverse")
      return a[1] if isinstance(a, tuple) else [a]
    return g.bundle(e)

  def before(self, st, e, bundle):
    try:
      st["would"] = would_need_two_targets(e, bundle)
    except Exception as ex:
      st["would"] = None
    st["pre"] = eng.snapshot(e) if st["would"] else None
    # the pre-state of bundles that ADD records is kept for root-cause triage (a dangling reference
    # that becomes live)
    st["pre_triage"] = eng.snapshot(e) if any(
        isinstance(a, list) and a and a[0] in ("AddRecord", "BulkAddRecord") for a in bundle) else None

  def after(self, st, e, bundle, group, exc):
    if st.get("tainted"): return []     # a known asymmetry persists: nothing new can be learnt
    fails = []
    would = st.get("would")
    if would is not None: ST["unique_applicable"] += 1
    if would:
      ST["unique_conflicts"] += 1
      if exc is None:
        fails.append(("C11.unique_rejected", dict(would, why="accepted")))
      else:
        d = eng.diff_snapshots(st["pre"], eng.snapshot(e))
        if d: fails.append(("C11.rejected_unchanged", dict(would, diff=d, raised=repr(exc)[:120])))
    if exc is None:
      ST["checked"] += 1
      fails.extend(check_symmetric(e))
      for clause, d in fails:
        if clause == "C11.symmetric": d["root"] = symmetric_root_cause(st.get("pre_triage") or st.get("pre"), e, bundle, d)
    if not fails: return []
    _flush()
    for clause, d in fails:
      k = (clause, self.classify(clause, d, bundle, None))
      if st.get("exploring") and k in _known_classes() and k in _REPORTED:
        st["tainted"] = True
        continue
      _REPORTED.add(k)
      return [(clause, d)]
    return []

  def finish(self, st, e):
    _flush()
    return []

  def classify(self, clause, detail, bundle, history):
    if clause == "C11.symmetric" and detail.get("root"):
      return "symmetric:" + detail["root"]
    if clause == "C11.symmetric" and any(
        a[0] == "BulkUpdateRecord" and isinstance(a[2], list) and len(set(a[2])) != len(a[2])
        and any(c == detail.get("pair", [None] * 5)[i] for c in a[3] for i in (1, 4))
        for a in (bundle or []) if len(a) > 3 and isinstance(a[3], dict)):
      return "symmetric:bulk-update-with-duplicate-row-ids"
    acts = "+".join(sorted({a[0] for a in bundle})) if bundle else ""
    p = detail.get("pair") or (detail.get("column", []) + detail.get("reverse", []))
    kinds = "/".join(str(x).split(":")[0] for x in p if isinstance(x, str) and x.startswith("Ref"))
    return "%s:%s after %s" % (clause.split(".", 1)[1], kinds, acts)


def _ids_of(cell):
  """row ids in a normalised snapshot cell (Ref: ('n', id); RefList: ('l', 'L', ('n', id), ...))."""
  if isinstance(cell, tuple) and cell[:1] == ("n",): return [cell[1]]
  if isinstance(cell, tuple) and cell[:2] == ("l", "L"):
    return [x[1] for x in cell[2:] if isinstance(x, tuple) and x[:1] == ("n",)]
  return []


def symmetric_root_cause(pre, e, bundle, d):
  """Recognisable root causes of an asymmetric pair (None when it is none of them):
  - one action writes BOTH columns of a self-referential pair (the two values given for the row can
    contradict each other; the engine applies both);
  - a reference that was DANGLING before the bundle (it named a row id that did not exist - a
    supported state) becomes live because the bundle adds a row with that id; the reverse column of
    the new row is not derived from it."""
  try:
    ta, ca, _ta, tb, cb, _tb = d["pair"]
    for a in bundle or []:
      if len(a) > 3 and isinstance(a[3], dict) and a[1] == ta == tb and ca in a[3] and cb in a[3] and \
          a[0] in ("UpdateRecord", "BulkUpdateRecord", "AddRecord", "BulkAddRecord"):
        return "both-columns-of-a-self-referential-pair-written-by-one-action"
    if pre is None: return None
    # which side lacks the back-reference, and is that row new while the forward cell is old?
    if d.get("a_refers_to_b") and not d.get("b_refers_to_a"):
      src_t, src_c, src_row, dst_t, dst_row = ta, ca, d["a"], tb, d["b"]
    elif d.get("b_refers_to_a") and not d.get("a_refers_to_b"):
      src_t, src_c, src_row, dst_t, dst_row = tb, cb, d["b"], ta, d["a"]
    else:
      return None
    if dst_t in pre and src_t in pre and dst_row not in pre[dst_t][0] and src_row in pre[src_t][0]:
      rows, cols = pre[src_t]
      cell = cols.get(src_c, ())[list(rows).index(src_row)] if src_c in cols else None
      if dst_row in _ids_of(cell) and any(a[0] in ("AddRecord", "BulkAddRecord") and a[1] == dst_t
                                           for a in bundle or []):
        return "dangling-reference-becomes-live-when-its-row-is-added"
  except Exception:
    pass
  return None


ST = {"checked": 0, "unique_applicable": 0, "unique_conflicts": 0}
_REPORTED = set()
_KNOWN = []

def _known_classes():
  if not _KNOWN:
    _KNOWN.append({(f["match"].get("obligation"), f["match"].get("class"))
                   for f in common.load_known_findings("C11")})
  return _KNOWN[0]


def _flush():
  d = os.environ.get("C11_COUNT_DIR")
  if not d: return
  with open(os.path.join(d, "%d.json" % os.getpid()), "w") as f:
    json.dump(ST, f)


# ------------------------------------------------------------------------------------------------
# function-level contract on reverse_references.get_reverse_adjustments (exhaustive)
# ------------------------------------------------------------------------------------------------

ROWS, TARGETS = (1, 2, 3), (1, 2, 3)


def _cell_values(kind):
  if kind == "Ref":
    return [0, 1, 2, 3]
  vals = [None]
  for n in range(1, 3):
    for combo in itertools.permutations(TARGETS, n): vals.append(list(combo))
  vals.append([1, 1])
  vals.append([3, 2, 1])
  return vals


def _fn_cases(tier, seed):
  """All column states over <= 3 rows x <= 3 targets, all updates of a non-empty subset of rows."""
  for kind in ("Ref", "RefList"):
    pool = _cell_values(kind)
    if kind == "RefList" and tier == "quick":
      pool = [None, [1], [2], [1, 2], [2, 1], [3, 1], [1, 1], [3, 2, 1]]
    for nrows in (1, 2, 3):
      rows = ROWS[:nrows]
      for state in itertools.product(pool, repeat=nrows):
        for k in range(1, nrows + 1):
          for upd_rows in itertools.combinations(rows, k):
            new_pool = pool if (kind == "Ref" or nrows < 3) else pool[:5]
            for news in itertools.product(new_pool, repeat=k):
              yield dict(kind=kind, state=list(state), upd_rows=list(upd_rows), new=list(news))


def _iter_value(kind):
  import column, usertypes
  if kind == "Ref":
    stub = types.SimpleNamespace(type_obj=usertypes.Reference("T"))
    return lambda v: column.ReferenceColumn._value_iterable(stub, v)
  stub = types.SimpleNamespace(type_obj=usertypes.ReferenceList("T"))
  return lambda v: column.ReferenceListColumn._value_iterable(stub, v)


def _fn_call(a):
  import relation, reverse_references
  it = _iter_value(a["kind"])
  rel = relation.ReferenceRelation("A", "T", "c")       # the real relation class
  for r, v in zip(ROWS, a["state"]):
    for t in it(v): rel.add_reference(r, t)
  before = {k: set(v) for k, v in rel.inverse_map.items()}
  old = [a["state"][r - 1] for r in a["upd_rows"]]
  res = reverse_references.get_reverse_adjustments(list(a["upd_rows"]), old, list(a["new"]), it, rel)
  return dict(res=res, relation_untouched={k: set(v) for k, v in rel.inverse_map.items()} == before)


def _members(kind, v):
  if kind == "Ref": return {v} if v else set()
  return set(v or ())


def _fn_exact(a, r):
  kind = a["kind"]
  state = {row: a["state"][row - 1] for row in ROWS[:len(a["state"])]}
  new_state = dict(state)
  changed_targets = set()
  for row, nv in zip(a["upd_rows"], a["new"]):
    if nv != state[row]:
      changed_targets |= _members(kind, state[row]) | _members(kind, nv)
    new_state[row] = nv
  expected = {t: sorted(row for row, v in new_state.items() if t in _members(kind, v))
              for t in changed_targets}
  got = {}
  for t, lst in r["res"]:
    if t in got: return "target %r returned twice" % (t,)
    got[t] = lst
  if got != expected:
    return "adjustments %r, expected %r" % (sorted(got.items()), sorted(expected.items()))
  return True


def main():
  import shutil, tempfile
  rep = common.Report("C11", "exploration")
  rep.assumptions += [
    common.SHIM_ASSUMPTION,
    "bounded: seeded random histories over seed documents twoway (Ref <-> RefList), twoway_list "
    "(RefList <-> RefList), c11_one_to_one (Ref <-> Ref) and c11_both (two links between the same "
    "tables); edits on either side incl. duplicates inside lists and duplicate row ids in bulk "
    "updates, adds, removals on either side, Ref <-> RefList switches, link creation / removal "
    "(AddReverseColumn, reverseCol := 0, RemoveColumn), plus the general action mix WITHOUT "
    "ReplaceTableData (it drops rows without any reference cleanup - recorded under C10 - and every "
    "later asymmetry would be a consequence of that); not a proof",
    "references to rows that do not exist are not part of the symmetry clause (it quantifies over "
    "rows a and b); C11.unique_rejected is evaluated for bundles of one record action with clean "
    "reference values on existing rows",
    "function level: the relation passed to get_reverse_adjustments is the real ReferenceRelation "
    "filled from the column state (the statement's 'relation's pre-image'); row ids distinct"]
  rep.coverage["rule"] = (
    "engine level: one evaluation = one bundle with the invariant checked on every linked pair; "
    "non-trivial = the bundle changed the document or raised. function level: one evaluation = one "
    "(column state, updated rows, new values) triple; all distinct")
  c = fn.FnContract(
    "reverse_references.get_reverse_adjustments", _fn_call,
    ensures={"C11.adjustments_exact": _fn_exact,
             "C11.adjustments_pure": lambda a, r: True if r["relation_untouched"] else
             "the relation was modified"},
    classify=lambda a, clause, detail: "%s:%s" % (clause.split(".", 1)[1], a["kind"]))
  n_fn = fn.check(rep, c, _fn_cases, exhaustive=True, limit_quick_s=30)
  fn_exhaustive = rep.coverage.get("exhaustive")
  d = tempfile.mkdtemp(prefix="c11-count-")
  os.environ["C11_COUNT_DIR"] = d
  tot = {"checked": 0, "unique_applicable": 0, "unique_conflicts": 0}
  try:
    explore.explore(rep, "checks.C11", "C11Monitor", n_quick=800, n_thorough=10000,
                    budget_quick_s=45, budget_thorough_s=800)
    for f in os.listdir(d):
      with open(os.path.join(d, f)) as fh:
        for k, v in json.load(fh).items(): tot[k] += v
  finally:
    shutil.rmtree(d, ignore_errors=True)
  cov = rep.coverage
  cov["exhaustive"] = False
  cov["exhaustive_part"] = {"function": "get_reverse_adjustments", "cases": n_fn,
                            "complete": bool(fn_exhaustive),
                            "bound": "rows <= 3, targets <= 3, Ref cells {0..3}, RefList cells from "
                                     "a pool of 8 (quick) / 17 (thorough) lists"}
  cov["invariant_checks"] = tot["checked"]
  cov["unique_clause_applicable"] = tot["unique_applicable"]
  cov["unique_clause_conflicts"] = tot["unique_conflicts"]
  if tot["checked"] == 0:
    rep.undecided_obligation("C11.symmetric", "invariant never evaluated")
  return rep.finish()


if __name__ == "__main__":
  sys.exit(main())
