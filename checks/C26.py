"""C26 Temporary row ids resolve consistently within a bundle — deductive on the id-map functions
(tier P) + bounded run-time contract on whole bundles through the real engine (tier B)."""
import copy, itertools, os, sys
sys.path.insert(0, os.path.dirname(os.path.dirname(os.path.abspath(__file__))))
from vlib import common
from vlib.pysym import runner


def _follow_ups():
  """Actions using temporary ids -1/-2 (created by the two adds that start every bundle)."""
  return [
    ["UpdateRecord", "A", -1, {"n": 50}],
    ["UpdateRecord", "A", -2, {"n": 60}],
    ["BulkUpdateRecord", "A", [-2, -1], {"n": [61, 51]}],
    ["RemoveRecord", "A", -1],
    ["BulkRemoveRecord", "A", [-1, -2]],
    ["AddRecord", "B", None, {"r": -1}],
    ["AddRecord", "B", None, {"r": -2, "rl": ["L", -1, -2]}],
    ["AddRecord", "B", -1, {"rl": ["L", -2, 1]}],          # B's own -1 is a different row
    ["UpdateRecord", "B", 1, {"r": -2}],
    ["UpdateRecord", "B", 1, {"rl": ["L", -1]}],
    ["BulkAddRecord", "B", [None, None], {"r": [-1, -1], "rl": [["L", -2], None]}],
    ["AddRecord", "A", -1, {"n": 9}],                      # re-use of -1: later mapping wins
    ["AddRecord", "B", None, {"r": -7}],                   # unknown temporary id: must be rejected
    ["UpdateRecord", "B", 1, {"rl": ["L", -1, -9]}],       # unknown temporary id in a list
    ["UpdateRecord", "A", -5, {"n": 1}],                   # unknown temp id as a row id
  ]


def _cases(tier, seed):
  fu = _follow_ups()
  depth = 2 if tier == "quick" else 3
  for twoway in (None, "r", "rl"):
    for k in range(0, depth + 1):
      for combo in itertools.permutations(range(len(fu)), k):
        if twoway and k == depth and tier == "quick" and (sum(combo) % 3): continue
        yield dict(follow=[fu[i] for i in combo], twoway=twoway)


def _base(twoway=None):
  """Seed document; with `twoway` the reference column B.<twoway> is one half of a two-way
  reference (its reverse column lives in A), so adding references also updates table A."""
  from vlib.rtc import eng
  e = eng.new_engine()
  eng.apply(e, [["AddTable", "A", [{"id": "n", "type": "Int", "isFormula": False, "formula": ""}]],
                ["AddTable", "B", [{"id": "r", "type": "Ref:A", "isFormula": False, "formula": ""},
                                   {"id": "rl", "type": "RefList:A", "isFormula": False, "formula": ""},
                                   {"id": "v", "type": "Any", "isFormula": True, "formula": "$r.n"}]],
                ["BulkAddRecord", "A", [None, None], {"n": [1, 2]}],
                ["BulkAddRecord", "B", [None], {"r": [1]}]])
  if twoway:
    eng.apply(e, [["AddReverseColumn", "B", twoway]])
  return e


def _subst(x, maps, table):
  """Replaces temporary ids by real ones: row-id positions use `table`'s map, Ref/RefList values
  use A's map (both reference columns of B point at A)."""
  return x


def _resolve(action, maps):
  a = copy.deepcopy(action)
  name, table = a[0], a[1]
  def rid(t, r): return maps[t].get(r, r) if isinstance(r, int) and r < 0 else r
  def val(v):
    if isinstance(v, list) and v and v[0] == "L": return ["L"] + [rid("A", x) for x in v[1:]]
    return v
  def cols(d, bulk):
    out = {}
    for k, v in d.items():
      if table == "B" and k == "r":
        out[k] = [rid("A", x) for x in v] if bulk else rid("A", v)
      elif table == "B" and k == "rl":
        out[k] = [val(x) for x in v] if bulk else val(v)
      else: out[k] = v
    return out
  if name in ("UpdateRecord",): a[2] = rid(table, a[2]); a[3] = cols(a[3], False)
  elif name == "BulkUpdateRecord": a[2] = [rid(table, r) for r in a[2]]; a[3] = cols(a[3], True)
  elif name == "RemoveRecord": a[2] = rid(table, a[2])
  elif name == "BulkRemoveRecord": a[2] = [rid(table, r) for r in a[2]]
  elif name == "AddRecord": a[3] = cols(a[3], False)
  elif name == "BulkAddRecord": a[3] = cols(a[3], True)
  return a


def _unknown_temp(action, maps):
  """Does the action hold a negative *reference* id that no earlier action of the bundle created?"""
  name, table = action[0], action[1]
  def unk(t, r): return isinstance(r, int) and not isinstance(r, bool) and r < 0 and r not in maps[t]
  # (an unknown negative id in a *row id* position is not covered by the statement, which speaks
  #  of negative reference ids; both runs pass it through unchanged)
  if table == "B" and name in ("AddRecord", "UpdateRecord", "BulkAddRecord", "BulkUpdateRecord"):
    d = action[3]
    for k, v in d.items():
      vs = v if name.startswith("Bulk") else [v]
      for x in vs:
        if k == "r" and unk("A", x): return True
        if k == "rl" and isinstance(x, list) and any(unk("A", y) for y in x[1:]): return True
  return False


def _call(a):
  """Runs the bundle with temporary ids on one real engine, and the *reference*: the same actions
  one by one on a second real engine with every temporary id replaced by the id actually
  allocated (the statement: negative ids "stand for the rows actually allocated")."""
  from vlib.rtc import eng
  bundle = [["AddRecord", "A", -1, {"n": 10}], ["AddRecord", "A", -2, {"n": 20}]] + a["follow"]
  e1 = _base(a.get("twoway"))
  before = eng.snapshot(e1)
  try:
    g = eng.apply(e1, bundle); exc = None
  except Exception as ex:
    g, exc = None, ex
  after = eng.snapshot(e1)
  # reference run
  e2 = _base(a.get("twoway"))
  maps = {"A": {}, "B": {}}
  ref_exc = None
  unknown = False
  for act in bundle:
    if _unknown_temp(act, maps): unknown = True; break
    res = _resolve(act, maps)
    if res[0] == "AddRecord" and isinstance(res[2], int) and res[2] < 0:
      temp = res[2]; res[2] = None
      try:
        g2 = eng.apply(e2, [res])
      except Exception as ex:
        ref_exc = ex; break
      maps[res[1]][temp] = g2.retValues[0]
    else:
      try:
        eng.apply(e2, [res])
      except Exception as ex:
        ref_exc = ex; break
  return dict(exc=exc, before=before, after=after, ref=eng.snapshot(e2), ref_exc=ref_exc,
              unknown=unknown, ret=g.retValues if g else None)


def e_same_as_resolved(a, r):
  from vlib.rtc import eng
  if r["unknown"] or r["ref_exc"] is not None: return True
  if r["exc"] is not None:
    return "bundle with valid temporary ids was rejected: %r" % (r["exc"],)
  d = eng.diff_snapshots({k: v for k, v in r["ref"].items() if not k.startswith("_grist")},
                         {k: v for k, v in r["after"].items() if not k.startswith("_grist")})
  return True if not d else "differs from the run with resolved ids: %r" % d

def e_unknown_rejected(a, r):
  from vlib.rtc import eng
  if not r["unknown"]: return True
  if r["exc"] is None: return "a temporary id that no action created was accepted"
  d = eng.diff_snapshots(r["before"], r["after"])
  return True if not d else "rejected bundle left a trace: %r" % d

def e_failure_no_trace(a, r):
  from vlib.rtc import eng
  if r["exc"] is None: return True
  d = eng.diff_snapshots(r["before"], r["after"])
  return True if not d else "failed bundle left a trace: %r" % d


def main():
  common.setup_grist_path()
  rep = common.Report("C26", "exploration")
  rep.assumptions += [
    "tier P: ActionSummary._forTable(table_id) returns that table's delta and touches no other "
    "(assumed stub); dict.update(pairs) = sequential insertion; int is mathematical",
    "tier B: bundles = two AddRecord with ids -1/-2 followed by every ordered selection of up to "
    "2 (quick) / 3 (thorough) of 15 follow-up actions, compared with the same actions applied "
    "one by one with the allocated ids substituted; on three documents: plain references, and "
    "B.r / B.rl being one half of a two-way reference", common.SHIM_ASSUMPTION]
  rep.coverage["rule"] = ("proof obligations per (clause, path); bounded: one evaluation = one "
                          "bundle on two fresh real engines; non-trivial = distinct bundle")
  rep.coverage["exhaustive"] = True
  runner.run_property(rep, "contracts.C26_tempids", bounded=False)
  from vlib.rtc import fn
  c = fn.FnContract("Engine.apply_user_actions (bundles with temporary row ids)", _call,
                    ensures={"C26.acts_on_allocated_rows": e_same_as_resolved,
                             "C26.unknown_temp_id_rejected": e_unknown_rejected,
                             "C26.failed_bundle_no_trace": e_failure_no_trace})
  fn.check(rep, c, _cases, exhaustive=True, warm_engine=True)
  return rep.finish()


if __name__ == "__main__":
  sys.exit(main())
