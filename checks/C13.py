"""C13 Lookups return exactly the matching rows in documented order.

Tier P (lemmas, lead's file contracts/C13_sort.py): table.make_sort_spec, SortKey.__lt__.
Tier B (this file), run-time contracts on the REAL functions, wrapped on the class before any
Engine exists:
  * table.Table.lookup_records  - post-condition evaluated at EVERY call the engine makes (formulas,
    summary helpers, user actions) during every explored history:
      C13.exact_rows      the returned row ids are exactly the rows of the naive filter
      C13.order           ... in the documented order (when sort values are mutually comparable)
  * table.Table.lookup_one_record
      C13.lookup_one      first row of the above, or the empty record (row id 0)
  * twowaymap.TwoWayMap.insert/remove/remove_left/remove_right/clear (also on exceptional exit)
      C13.twowaymap_inverse   fwd and bwd are mutually inverse, no empty bins
      C13.sorted_versions     every cached sorted version of a LookupSet is a permutation of it
The reference (naive filter + comparison sort) is written from the property statement and reads
the table through Column.raw_get only; it never touches the lookup index."""
import faulthandler, functools, itertools, json, os, shutil, signal, sys, tempfile
faulthandler.register(signal.SIGUSR1, all_threads=True)      # kill -USR1 <pid> dumps the stack
sys.path.insert(0, os.path.dirname(os.path.dirname(os.path.abspath(__file__))))
from vlib import common
from vlib.rtc import eng, explore, gen

import table as _table            # real modules from the repository working tree
import twowaymap as _twm
import records as _records
import objtypes as _objtypes
import lookup as _lookup
from functions.lookup import _Contains

# ------------------------------------------------------------------------------------------------
# the specification (from the statement)
# ------------------------------------------------------------------------------------------------

def _extract(v):
  """A reference compares as the id of the row it points at."""
  return v._row_id if isinstance(v, _records.Record) else v


def _is_nan(v):
  return isinstance(v, float) and v != v


class Unspecified(Exception):
  """The statement does not say what this call returns (NaN key, ...)."""


def _cell(col, r):
  """-> (is_value, rich value): a cell holding an error has no value."""
  raw = col.raw_get(r)
  if isinstance(raw, _objtypes.RaisedException):
    return False, None
  return True, col._convert_raw_value(raw)


def _contains_match(cellv, key, match_empty):
  if isinstance(cellv, (str, bytes)):
    return False                       # never characters of a string
  if cellv is None or (isinstance(cellv, (list, tuple, set, frozenset, _records.RecordSet))
                       and len(cellv) == 0):
    return match_empty is not _Contains.no_match_empty and match_empty == key
  if isinstance(cellv, (list, tuple, set, frozenset, _records.RecordSet)):
    return any(_extract(x) == key for x in cellv)
  if not cellv:
    raise Unspecified("CONTAINS on an empty non-list value %r" % (cellv,))
  return False                         # a non-list value contains nothing


def spec_lookup(tbl, kwargs):
  """-> (expected row ids in documented order, ordered?: False when sort values are not mutually
  comparable and only the set is specified).  Raises Unspecified outside the statement."""
  kw = dict(kwargs)
  sort_by = kw.pop("sort_by", None)
  order_by = kw.pop("order_by", "id")        # documented default: as if order_by="id"
  conds = []
  for col_id in kw:
    v = kw[col_id]
    if not tbl.has_column(col_id):
      # no row has a value in a column that does not exist: nothing may be returned
      # (the engine's first-time path raises KeyError, which is fine: no post-condition then)
      conds.append((None, "never", None, None))
      continue
    if isinstance(v, _Contains):
      key = _extract(v.value)
      col = tbl.get_column(col_id)
      conds.append((col, "contains", key, v.match_empty))
    else:
      col = tbl.get_column(col_id)
      key = _extract(col._convert_raw_value(col.convert(v)))    # the type-converted key
      conds.append((col, "eq", key, None))
    if _is_nan(key):
      raise Unspecified("NaN key")
    try:
      hash(key)
    except TypeError:
      raise Unspecified("unhashable key")
  rows = []
  for r in tbl.row_ids:
    ok = True
    for (col, mode, key, match_empty) in conds:
      if mode == "never":
        ok = False; break
      isv, cellv = _cell(col, r)
      if not isv:
        ok = False
      elif mode == "eq":
        cv = _extract(cellv)
        try:
          ok = bool(cv == key)
        except Exception:
          ok = False
      else:
        ok = _contains_match(cellv, key, match_empty)
      if not ok: break
    if ok: rows.append(r)

  # documented order
  if sort_by:
    if not isinstance(sort_by, str): raise Unspecified("sort_by not a string")
    spec = [sort_by]
  else:
    if order_by is None: spec = []
    elif isinstance(order_by, str): spec = [order_by]
    elif isinstance(order_by, tuple): spec = list(order_by)
    else: raise Unspecified("order_by of unsupported type")
    if not all(isinstance(s, str) for s in spec): raise Unspecified("order_by member not a string")
    if "id" not in spec and tbl.has_column("manualSort"):
      spec.append("manualSort")
  cols = []
  for s in spec:
    cid, sign = (s[1:], -1) if s.startswith("-") else (s, 1)
    cols.append((cid, sign))
  ordered = True
  vals = {}
  for r in rows:
    vs = []
    for cid, sign in cols:
      if cid == "id":
        vs.append(r); continue
      if not tbl.has_column(cid):
        ordered = False; vs.append(None); continue
      isv, cv = _cell(tbl.get_column(cid), r)
      if not isv: ordered = False
      vs.append(cv)
    vals[r] = vs
  if ordered:
    for i in range(len(cols)):
      column_vals = [vals[r][i] for r in rows]
      if any(_is_nan(v) for v in column_vals): ordered = False
      for a, b in itertools.combinations(column_vals, 2):
        try:
          lt, gt = bool(a < b), bool(b < a)
          if not lt and not gt and not (a == b): ordered = False
        except Exception:        # TypeError, or AltText refusing the comparison
          ordered = False
        if not ordered: break
      if not ordered: break
  if not ordered:
    return rows, False
  def cmp(r1, r2):
    for i, (cid, sign) in enumerate(cols):
      a, b = vals[r1][i], vals[r2][i]
      if a < b: return -sign
      if b < a: return sign
    return -1 if r1 < r2 else (1 if r1 > r2 else 0)
  return sorted(rows, key=functools.cmp_to_key(cmp)), True


# ------------------------------------------------------------------------------------------------
# run-time contract wrappers on the real functions
# ------------------------------------------------------------------------------------------------

S = {"viol": [], "n_lookup": 0, "n_one": 0, "n_twm": 0, "unspecified": 0, "unordered": 0,
     "nontrivial": set(), "in_formula": 0, "samples": []}
_LAST = [None]

_real_lookup_records = _table.Table.lookup_records
_real_lookup_one = _table.Table.lookup_one_record


def _show_kwargs(kw):
  return {k: repr(v) for k, v in sorted(kw.items())}


def _wrapped_lookup_records(self, **kwargs):
  shown = dict(kwargs)
  _LAST[0] = None
  result = _real_lookup_records(self, **kwargs)       # exceptions: no post-condition stated
  try:
    expected, ordered = spec_lookup(self, shown)
  except Unspecified:
    S["unspecified"] += 1
    return result
  except Exception as ex:      # the real call succeeded but the specification cannot be evaluated
    S["viol"].append(("C13.exact_rows", {"table": self.table_id, "kwargs": _show_kwargs(shown),
                                         "spec_error": repr(ex), "reason": ["spec-error"]}))
    return result
  S["n_lookup"] += 1
  if self._engine._is_current_node_formula: S["in_formula"] += 1
  got = list(result._row_ids)
  _LAST[0] = (expected, ordered, result)
  _LAST_REASON[0] = None
  if not ordered: S["unordered"] += 1
  S["nontrivial"].add(hash((self.table_id, repr(sorted(_show_kwargs(shown).items())),
                            tuple(got))))
  if len(S["samples"]) < 3 and len(got) > 1:
    S["samples"].append({"table": self.table_id, "kwargs": _show_kwargs(shown), "result": got})
  if sorted(got) != sorted(expected) or len(set(got)) != len(got):
    reasons = set()
    cols = [k for k in shown if k not in ("sort_by", "order_by")]
    dropped = GHOST["replaced_rows"].get((id(self._engine), self.table_id), set())
    for r in set(got) - set(expected):
      if any(not self.has_column(c) for c in cols):
        reasons.add("0:key-column-no-longer-exists-answered-from-stale-index")
      elif r not in self.row_ids and r in dropped:
        reasons.add("1:returned-row-was-dropped-by-ReplaceTableData")
      elif r not in self.row_ids: reasons.add("2:returned-row-not-in-table")
      elif any(isinstance(self.get_column(c).raw_get(r), _objtypes.RaisedException) for c in cols):
        reasons.add("3:returned-row-whose-key-cell-holds-an-error")
      else: reasons.add("4:returned-row-does-not-match")
    for r in set(expected) - set(got):
      reasons.add("5:matching-row-missing")
    if len(set(got)) != len(got): reasons.add("6:duplicate-row")
    _LAST_REASON[0] = sorted(reasons)[0][2:] if reasons else None
    S["viol"].append(("C13.exact_rows", {
      "table": self.table_id, "kwargs": _show_kwargs(shown), "returned": got, "expected": expected,
      "reason": [sorted(reasons)[0][2:]], "all_reasons": sorted(reasons),
      "cells": {c: [repr(self.get_column(c).raw_get(r)) for r in self.row_ids]
                for c in cols if self.has_column(c)},
      "row_ids": list(self.row_ids)}))
  elif ordered and got != expected:
    S["viol"].append(("C13.order", {
      "table": self.table_id, "kwargs": _show_kwargs(shown), "returned": got, "expected": expected,
      "reason": [_order_root_cause(self, result)]}))
  return result


def _order_root_cause(tbl, result):
  """Root-cause class of an ordering failure (used only to name the failure, never to decide it):
  does the sort key of the returned RecordSet read a column object that is no longer the
  table's column of that name (the column was replaced by ModifyColumn / remove + re-add)?"""
  try:
    sk = result._sort_key
    for cell in (sk.__init__.__closure__ or ()):
      v = cell.cell_contents
      if isinstance(v, list) and v and all(isinstance(x, tuple) and len(x) == 2 for x in v):
        for col_obj, _sign in v:
          cid = getattr(col_obj, "col_id", None)
          if cid is not None and tbl.all_columns.get(cid) is not col_obj:
            return "sort-key-reads-replaced-column-object"
  except Exception:
    pass
  return "order"


_LAST_REASON = [None]


def _wrapped_lookup_one(self, **kwargs):
  shown = dict(kwargs)
  rec = _real_lookup_one(self, **kwargs)      # goes through the wrapped lookup_records
  last = _LAST[0]
  if last is None:
    return rec
  expected, ordered, last_result = last
  S["n_one"] += 1
  rid = rec._row_id
  ok = (rid == (expected[0] if expected else 0)) if ordered else \
       ((rid in expected) if expected else rid == 0)
  if not ok or not isinstance(rec, _records.Record):
    dropped = GHOST["replaced_rows"].get((id(self._engine), self.table_id), set())
    reason = "lookup_one"
    if _LAST_REASON[0]:
      # the lookup_records call underneath already returned the wrong rows: same root cause
      reason = _LAST_REASON[0]
    elif rid and rid not in self.row_ids and rid in dropped:
      reason = "returned-row-was-dropped-by-ReplaceTableData"
    elif ordered and rid in expected:          # right rows, wrong first one: an ordering failure
      rc = _order_root_cause(self, last_result)
      if rc != "order": reason = rc
    S["viol"].append(("C13.lookup_one", {
      "table": self.table_id, "kwargs": _show_kwargs(shown), "returned": rid,
      "expected_first_of": expected, "reason": [reason]}))
  return rec


_table.Table.lookup_records = _wrapped_lookup_records
_table.Table.lookup_one_record = _wrapped_lookup_one


# ghost state: rows dropped by DocActions.ReplaceTableData (only used to NAME a failure)
GHOST = {"replaced_rows": {}}
import docactions as _docactions
_real_replace = _docactions.DocActions.ReplaceTableData

def _observed_replace(self, table_id, row_ids, column_values):
  old = set(self._engine.tables[table_id].row_ids) if table_id in self._engine.tables else set()
  r = _real_replace(self, table_id, row_ids, column_values)
  now = set(self._engine.tables[table_id].row_ids)
  key = (id(self._engine), table_id)
  cur = GHOST["replaced_rows"].setdefault(key, set())
  cur |= (old - now)
  cur -= now
  return r

_docactions.DocActions.ReplaceTableData = _observed_replace


def _bin_items(bin_type, stored):
  return [stored] if isinstance(bin_type, _twm._SingleValueBin) else list(stored)


def twm_invariant(m):
  """-> None, or (clause, explanation)."""
  fwd_pairs, bwd_pairs = set(), set()
  for l, st in m._fwd.items():
    items = _bin_items(m._right_bin, st)
    if not items: return ("C13.twowaymap_inverse", "empty bin for left %r" % (l,))
    for r in items: fwd_pairs.add((l, r))
  for r, st in m._bwd.items():
    items = _bin_items(m._left_bin, st)
    if not items: return ("C13.twowaymap_inverse", "empty bin for right %r" % (r,))
    for l in items: bwd_pairs.add((l, r))
    if isinstance(st, _twm.LookupSet):
      for spec, version in st.sorted_versions.items():
        if sorted(version) != sorted(st):
          return ("C13.sorted_versions", "cached sorted version %r of key %r is %r but the set is %r"
                  % (spec, r, list(version), sorted(st)))
  if fwd_pairs != bwd_pairs:
    return ("C13.twowaymap_inverse", "fwd-only %r bwd-only %r" % (
      sorted(fwd_pairs - bwd_pairs, key=repr)[:4], sorted(bwd_pairs - fwd_pairs, key=repr)[:4]))
  return None


def _wrap_twm(name):
  real = getattr(_twm.TwoWayMap, name)
  @functools.wraps(real)
  def wrapper(self, *a, **k):
    try:
      return real(self, *a, **k)
    finally:
      S["n_twm"] += 1
      bad = twm_invariant(self)
      if bad:
        S["viol"].append((bad[0], {"method": name, "args": repr(a)[:200], "why": bad[1],
                                   "reason": [name]}))
  setattr(_twm.TwoWayMap, name, wrapper)

for _n in ("insert", "remove", "remove_left", "remove_right", "clear"):
  _wrap_twm(_n)


# ------------------------------------------------------------------------------------------------
# histories
# ------------------------------------------------------------------------------------------------

_col = gen._col

LOOKUPS = [   # formulas put into table B (columns k Text, q Int); A is the looked-up table
  "[r.id for r in A.lookupRecords(k=$k)]",
  "[r.id for r in A.lookupRecords(k=$k, order_by='n')]",
  "[r.id for r in A.lookupRecords(k=$k, order_by='-n')]",
  "[r.id for r in A.lookupRecords(k=$k, order_by=('n', '-id'))]",
  "[r.id for r in A.lookupRecords(k=$k, order_by=('-n', 'k'))]",
  "[r.id for r in A.lookupRecords(k=$k, order_by=None)]",
  "[r.id for r in A.lookupRecords(order_by=None)]",
  "[r.id for r in A.lookupRecords(k=$k, order_by='-manualSort')]",
  "[r.id for r in A.lookupRecords(k=$k, order_by=('n', 'id', 'k'))]",
  "[r.id for r in A.lookupRecords(k=$k, order_by='-id')]",
  "[r.id for r in A.lookupRecords(k=$k, order_by='m')]",
  "[r.id for r in A.lookupRecords(k=$k, sort_by='n')]",
  "[r.id for r in A.lookupRecords(k=$k, sort_by='-n')]",
  "[r.id for r in A.lookupRecords(n=$q, order_by='k')]",
  "[r.id for r in A.lookupRecords(n=$q, order_by=('-k', 'n'))]",
  "[r.id for r in A.lookupRecords(k=$k, n=$q)]",
  "[r.id for r in A.lookupRecords(n=$k)]",
  "[r.id for r in A.lookupRecords(k=$q)]",
  "[r.id for r in A.lookupRecords(m=$q)]",
  "[r.id for r in A.lookupRecords(m=$k, order_by='-n')]",
  "[r.id for r in A.lookupRecords(kf=$k, order_by='n')]",
  "[r.id for r in A.lookupRecords(m=$k)]",
  "A.lookupOne(m=$q, order_by='-n').id",
  "A.lookupOne(k=$k).id",
  "A.lookupOne(k=$k, order_by='-n').id",
  "A.lookupOne(k=$k, order_by=None).id",
  "A.lookupOne(n=$q, sort_by='k').id",
  "A.lookupOne(k=$k, n=$q).n",
  "[r.id for r in A.lookupRecords(tags=CONTAINS($k))]",
  "[r.id for r in A.lookupRecords(tags=CONTAINS($k), order_by='-n')]",
  "[r.id for r in A.lookupRecords(tags=CONTAINS($k, match_empty=''))]",
  "[r.id for r in A.lookupRecords(tags=CONTAINS($k), k=$k)]",
  "[r.id for r in A.lookupRecords(rl=CONTAINS($id))]",
  "[r.id for r in A.lookupRecords(rl=CONTAINS(rec), order_by='n')]",
  "[r.id for r in A.lookupRecords(rl=CONTAINS($id, match_empty=1))]",
  "[r.id for r in A.lookupRecords(r=$id)]",
  "[r.id for r in A.lookupRecords(r=rec, order_by='-n')]",
  "[r.id for r in A.lookupRecords(r=0)]",
  "A.lookupOne(r=$id).id",
  "len(B.lookupRecords(k=$k))",
  "[r.id for r in B.lookupRecords(q=$q, order_by='-k')]",
]

gen.SEEDS["c13_lookups"] = [
  [["AddTable", "B", [_col("k", "Text"), _col("q", "Int")]],
   ["AddTable", "A", [_col("k", "Text"), _col("n", "Int"), _col("m", "Any"),
                      _col("tags", "ChoiceList"), _col("r", "Ref:B"), _col("rl", "RefList:B"),
                      _col("kf", "Text", "$k.upper() if $k else ''")]]],
  [["BulkAddRecord", "B", [None, None, None, None], {"k": ["a", "b", "z", ""], "q": [1, 2, 3, 0]}],
   ["BulkAddRecord", "A", [None, None, None, None, None],
    {"k": ["a", "b", "a", "c", "a"], "n": [3, 2, 1, 4, 1], "m": [1, "a", None, 2.5, 1],
     "tags": [["L", "a"], ["L", "a", "b"], None, ["L", "c"], ["L"]],
     "r": [1, 2, 1, 0, 3], "rl": [["L", 1, 2], ["L", 3], None, ["L", 2], ["L", 1]]}]],
  [["AddColumn", "B", "l1", {"type": "Any", "isFormula": True, "formula": LOOKUPS[1]}],
   ["AddColumn", "B", "l2", {"type": "Any", "isFormula": True, "formula": "[r.id for r in A.lookupRecords(tags=CONTAINS($k))]"}],
   ["AddColumn", "B", "l3", {"type": "Any", "isFormula": True, "formula": LOOKUPS[5]}]],
  # shuffle manualSort so that it differs from row-id order
  [["BulkUpdateRecord", "A", [1, 2, 3, 4, 5], {"manualSort": [5.0, 4.0, 3.0, 2.0, 1.0]}]],
]

A_VALUES = {
  "k": ["a", "b", "c", "z", "", None, 1],
  "n": [1, 2, 3, 4, None, "x", 2.5],
  "m": [1, 2.5, "a", None, True, 0, ["L", "a", "w"], ["L", 1], "a", 1],
  "tags": [None, ["L"], ["L", "a"], ["L", "a", "b"], ["L", "b", "c"], ["L", "z", ""], "a"],
  "r": [0, 1, 2, 3, 4, "a"],
  "rl": [None, ["L"], ["L", 1], ["L", 2, 1], ["L", 3, 4], ["L", 1, 1]],
  "manualSort": [0.5, 1.0, 1.5, 2.5, 3.5, 7.0],
}
B_VALUES = {"k": ["a", "b", "c", "z", "", None], "q": [0, 1, 2, 3, 4, None]}


class C13Monitor(explore.Monitor):
  seeds = ("c13_lookups", "lookup", "summary", "prevnext", "refs")
  length = 8
  weights = {"update": 16, "bulk_update": 8, "remove": 8, "bulk_remove": 3, "add": 10,
             "bulk_add": 6, "modify_type": 5, "rename_col": 3, "to_formula": 3, "to_data": 2,
             "modify_formula": 4, "add_table": 1, "remove_table": 1, "view": 0, "label": 0,
             "summary": 2, "replace_data": 2}

  def start(self, e, seed_name):
    GHOST["replaced_rows"] = {k: v for k, v in GHOST["replaced_rows"].items() if k[0] == id(e)}
    return {"seed": seed_name, "k": 0, "pending": self._drain()}

  def _drain(self):
    v, S["viol"] = S["viol"], []
    return v

  def gen_bundle(self, st, e, g):
    st["exploring"] = True
    rng = g.rng
    tabs = e.tables
    if st["seed"] == "c13_lookups" and "A" in tabs and "B" in tabs and rng.random() < 0.6:
      x = rng.random()
      st["k"] += 1
      if x < 0.25:
        cols = [c for c in tabs["B"].all_columns if c.startswith("l") and c[1:].isdigit()]
        if cols and rng.random() < 0.5:
          return [["ModifyColumn", "B", rng.choice(cols), {"formula": rng.choice(LOOKUPS)}]]
        if len(cols) < 6:
          return [["AddColumn", "B", "l%d" % (10 + st["k"]),
                   {"type": "Any", "isFormula": True, "formula": rng.choice(LOOKUPS)}]]
      if x < 0.75:
        rows = list(tabs["A"].row_ids)
        cids = [c for c in A_VALUES if tabs["A"].has_column(c)]
        if rows and cids:
          if rng.random() < 0.6:
            r = rng.choice(rows)
            cs = rng.sample(cids, rng.randint(1, min(2, len(cids))))
            return [["UpdateRecord", "A", r, {c: rng.choice(A_VALUES[c]) for c in cs}]]
          rs = rng.sample(rows, rng.randint(1, min(3, len(rows))))
          c = rng.choice(cids)
          return [["BulkUpdateRecord", "A", rs, {c: [rng.choice(A_VALUES[c]) for _ in rs]}]]
      if x < 0.85:
        cids = [c for c in A_VALUES if tabs["A"].has_column(c) and c != "manualSort"]
        return [["AddRecord", "A", None, {c: rng.choice(A_VALUES[c]) for c in cids
                                          if rng.random() < 0.7}]]
      if x < 0.93:
        rows = list(tabs["B"].row_ids)
        if rows:
          return [["UpdateRecord", "B", rng.choice(rows),
                   {c: rng.choice(B_VALUES[c]) for c in B_VALUES if tabs["B"].has_column(c)}]]
      rows = list(tabs["A"].row_ids)
      if rows: return [["RemoveRecord", "A", rng.choice(rows)]]
    return g.bundle(e)

  def after(self, st, e, bundle, group, exc):
    v = st.pop("pending", []) + self._drain()
    # calls made on a table while the bundle was removing it are transitional: nothing of them
    # can be observed afterwards
    v = [(c, d) for (c, d) in v if d.get("table") is None or d.get("table") in e.tables]
    if not v: return []
    _flush_counts()
    if st.get("exploring"):
      # a known finding already reported once by this worker does not end the history: later
      # bundles are still explored (in replay / shrink mode nothing is swallowed)
      for c, d in v:
        k = (c, self.classify(c, d, bundle, None))
        if k in _known_classes() and k in _REPORTED: continue
        _REPORTED.add(k)
        return [(c, d)]
      return []
    return [(c, d) for c, d in v[:1]]

  def finish(self, st, e):
    _flush_counts()
    return []

  def classify(self, clause, detail, bundle, history):
    return "%s:%s" % (clause.split(".", 1)[1], "+".join(detail.get("reason", [])))


_REPORTED = set()
_KNOWN = []

def _known_classes():
  if not _KNOWN:
    _KNOWN.append({(f["match"].get("obligation"), f["match"].get("class"))
                   for f in common.load_known_findings("C13")})
  return _KNOWN[0]

def _flush_counts():
  d = os.environ.get("C13_COUNT_DIR")
  if not d: return
  rec = {k: (len(v) if isinstance(v, set) else v) for k, v in S.items() if k not in ("viol",)}
  with open(os.path.join(d, "%d.json" % os.getpid()), "w") as f:
    json.dump(rec, f, default=repr)


# ------------------------------------------------------------------------------------------------
# exhaustive small-scope part: direct calls of the real Table.lookup_records
# ------------------------------------------------------------------------------------------------

ORDERS = [dict(), dict(order_by="n"), dict(order_by="-n"), dict(order_by=None),
          dict(order_by=("n", "-id")), dict(order_by=("-n", "k")), dict(order_by="-manualSort"),
          dict(order_by=("n", "id", "k")), dict(sort_by="n"), dict(sort_by="-n"),
          dict(order_by="manualSort"), dict(order_by=("k", "-n"))]
KEYS = [dict(k="a"), dict(k="b"), dict(), dict(n=1), dict(k="a", n=1), dict(n="1"), dict(n=None)]


def _small_cases(tier, seed):
  cells = [("a", 1), ("a", 2), ("b", 1), ("b", 2), ("a", None)]
  maxrows = 3
  for nrows in range(0, maxrows + 1):
    for rows in itertools.product(cells, repeat=nrows):
      for perm in itertools.permutations(range(nrows)):
        yield dict(rows=list(rows), perm=list(perm))


def _small_call(a):
  e = eng.new_engine()
  eng.apply(e, [["AddTable", "A", [_col("k", "Text"), _col("n", "Int")]]])
  n = len(a["rows"])
  if n:
    eng.apply(e, [["BulkAddRecord", "A", [None] * n,
                   {"k": [r[0] for r in a["rows"]], "n": [r[1] for r in a["rows"]],
                    "manualSort": [float(p + 1) for p in a["perm"]]}]])
  tbl = e.tables["A"]
  before = len(S["viol"])
  count = 0
  def sweep():
    c = 0
    for key in KEYS:
      for order in ORDERS:
        kw = dict(key); kw.update(order)
        tbl.lookup_records(**kw)
        tbl.lookup_one_record(**kw)
        c += 1
    return c
  count += sweep()
  # edits between sweeps exercise the index and the cached sorted versions
  if n:
    eng.apply(e, [["UpdateRecord", "A", 1, {"n": 2 if a["rows"][0][1] != 2 else 1}]])
    count += sweep()
    eng.apply(e, [["UpdateRecord", "A", n, {"k": "b" if a["rows"][-1][0] != "b" else "a"}]])
    count += sweep()
    eng.apply(e, [["UpdateRecord", "A", 1, {"manualSort": 10.0}]])
    count += sweep()
    eng.apply(e, [["RemoveRecord", "A", 1]])
    count += sweep()
    eng.apply(e, [["AddRecord", "A", None, {"k": "a", "n": 1}]])
    count += sweep()
    # an untyped (Any) key column, data and formula: values move between hashable and list
    # (unhashable) and back; a row must leave its old key when its value stops being hashable
    rows = list(tbl.row_ids)
    eng.apply(e, [["AddColumn", "A", "x", {"type": "Any", "isFormula": False}],
                  ["AddColumn", "A", "xf", {"type": "Any", "isFormula": True,
                                            "formula": "[$k, 'w'] if $n == 7 else $k"}]])
    eng.apply(e, [["BulkUpdateRecord", "A", rows, {"x": [tbl.get_column("k").raw_get(r) for r in rows]}]])
    def sweep_any():
      c = 0
      for col in ("x", "xf"):
        for key in ("a", "b"):
          for order in (dict(), dict(order_by="-n"), dict(order_by=None)):
            kw = {col: key}; kw.update(order)
            tbl.lookup_records(**kw); tbl.lookup_one_record(**kw); c += 1
      return c
    count += sweep_any()
    r0 = rows[0]
    eng.apply(e, [["UpdateRecord", "A", r0, {"x": ["L", "a", "w"], "n": 7}]])   # x, xf become lists
    count += sweep_any()
    eng.apply(e, [["UpdateRecord", "A", rows[-1], {"x": "a"}]])                  # unrelated edit
    count += sweep_any()
    eng.apply(e, [["UpdateRecord", "A", r0, {"x": "b", "n": 1}]])               # hashable again
    count += sweep_any()
  viol = S["viol"][before:]
  del S["viol"][before:]
  return dict(lookups=count, viol=viol)


def main():
  rep = common.Report("C13", "exploration")
  rep.assumptions += [
    common.SHIM_ASSUMPTION,
    "tier P lemmas (contracts/C13_sort.py): values opaque with an asymmetric `<` (the statement's "
    "hypothesis that sort values are mutually comparable)",
    "bounded: the post-condition is evaluated on the real Table.lookup_records at every call made "
    "during seeded random histories (seed documents c13_lookups, lookup, summary, prevnext, refs) "
    "and exhaustively for all tables A(k Text, n Int) of <= 3 rows over 5 cell pairs x all "
    "manualSort permutations x 7 key sets x 12 order specifications x 6 edit stages, followed by "
    "4 stages on an untyped (Any) data column and an Any formula column whose values move between "
    "hashable values and lists (2 columns x 2 keys x 3 orders each); not a proof",
    "the rich value of a cell / the type-converted key are obtained with Column._convert_raw_value "
    "and Column.convert (trusted here; C22 covers conversion); a cell holding an error has no value "
    "and matches no key; calls with a NaN or unhashable key, and the ORDER of results whose sort "
    "values are not mutually comparable (or NaN, or errors) are outside the statement and skipped "
    "(counted in coverage.unspecified / coverage.order_unspecified)",
    "a failing call on a table that no longer exists when the bundle returns (lookups made while "
    "RemoveTable is tearing the table down) is not reported: nothing of it is observable"]
  rep.coverage["rule"] = (
    "one evaluation = one call of Table.lookup_records / lookup_one_record / TwoWayMap mutator "
    "with its post-condition checked; non-trivial = distinct (table, arguments, returned row ids) "
    "per worker process for lookups")
  from vlib.pysym import runner
  runner.run_property(rep, "contracts.C13_sort", bounded=False)
  # the index behind lookups: twowaymap.TwoWayMap against its abstract relation, with the
  # representation invariant (both dicts describe the same relation, no empty bin), for the
  # many-to-many and the many-to-one configurations lookup.py constructs
  runner.semantics_selfcheck(rep)
  runner.run_property(rep, "contracts.C13_twowaymap", bounded=False)
  proof_cov = dict(rep.coverage)

  # exhaustive small scope
  from vlib.rtc import fn
  c = fn.FnContract(
    "table.Table.lookup_records (direct calls, all small tables)", _small_call,
    ensures={"C13.small_scope": lambda a, r: True if not r["viol"] else
             "%s: %r" % (r["viol"][0][0], r["viol"][0][1])},
    classify=lambda a, clause, detail: "small-scope:" + str(detail).split(":")[0],
    show=lambda a: a)
  n_small = fn.check(rep, c, _small_cases, exhaustive=True, limit_quick_s=25)
  small_exhaustive = rep.coverage.get("exhaustive")

  d = tempfile.mkdtemp(prefix="c13-count-")
  os.environ["C13_COUNT_DIR"] = d
  try:
    explore.explore(rep, "checks.C13", "C13Monitor", n_quick=640, n_thorough=8000,
                    budget_quick_s=30, budget_thorough_s=700)
    tot = {}
    for f in os.listdir(d):
      with open(os.path.join(d, f)) as fh:
        for k, v in json.load(fh).items():
          if isinstance(v, int): tot[k] = tot.get(k, 0) + v
          elif k == "samples": tot.setdefault("samples", []).extend(v[:1])
  finally:
    shutil.rmtree(d, ignore_errors=True)
  cov = rep.coverage
  cov["exhaustive"] = False
  cov["exhaustive_part"] = {"what": "direct lookups on all tables of <= 3 rows (see assumptions)",
                            "cases": n_small, "complete": bool(small_exhaustive),
                            "lookups_per_case": len(KEYS) * len(ORDERS) * 6}
  cov["history_bundles"] = cov.get("evaluations", 0) - n_small
  cov["lookup_records_calls_checked"] = tot.get("n_lookup", 0)
  cov["of_which_inside_formulas"] = tot.get("in_formula", 0)
  cov["lookup_one_calls_checked"] = tot.get("n_one", 0)
  cov["twowaymap_mutations_checked"] = tot.get("n_twm", 0)
  cov["unspecified"] = tot.get("unspecified", 0)
  cov["order_unspecified"] = tot.get("unordered", 0)
  per_sweep = 2 * len(KEYS) * len(ORDERS)      # lookup_records + lookup_one_record
  cov["evaluations"] = (max(0, n_small - 1) * (6 * per_sweep + 4 * 24) + per_sweep + tot.get("n_lookup", 0) +
                        tot.get("n_one", 0) + tot.get("n_twm", 0))
  cov["distinct_nontrivial"] = tot.get("nontrivial", 0) + n_small
  cov["samples"] = (cov.get("samples", [])[:2] + tot.get("samples", [])[:2])
  if tot.get("n_lookup", 0) == 0:
    rep.undecided_obligation("C13.exact_rows", "lookup_records contract was never exercised")
  return rep.finish()


if __name__ == "__main__":
  sys.exit(main())
