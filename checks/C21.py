"""C21 Generated identifiers are valid and unique — bounded run-time contract (tier B).

Contracts on the REAL identifiers.pick_table_ident / pick_col_ident / pick_col_ident_list and
useractions.UserActions._pick_col_name (imported from common.REPO), evaluated over
  * every string of length <= 4 (quick: <= 3 plus a length-4 slice) over an 11-symbol alphabet,
    every Python keyword in several spellings, seeded random Unicode strings, None;
  * for each name an adaptive chain of `avoid` sets built from the function's own earlier answers
    (so the suffixing paths are forced), plus fixed sets;
  * every batch of <= 3 names over a 14-name pool for pick_col_ident_list;
  * an engine-level invariant on tableId / colId after seeded histories that rename and add
    tables and columns with awkward names, create summary tables over columns whose ids join to the
    same encoded name ("A","B" / "A_B" / "a_b"), rename several tables in one metadata batch, and
    must never die on an id the engine picked itself ("... already exists");
  * every pair of sibling summary tables (group-by sets of <= 2 columns over 3 small column pools
    chosen so that encoded summary-table names coincide, exactly or ignoring case), followed by
    renames of the source table / of group-by columns / of two tables in one batch: the ids picked
    for all tables touched by ONE rename must be valid, pairwise distinct ignoring case, and the
    rename must succeed.
The postcondition is the property statement; the reading of 'already valid' is DESIGN.md 5/C21
(ids are ASCII by design)."""
import itertools
import keyword
import os
import random
import re
import sys
import types

sys.path.insert(0, os.path.dirname(os.path.dirname(os.path.abspath(__file__))))
from vlib import common
from vlib.rtc import fn

common.setup_grist_path()
import identifiers                                    # noqa: E402  real module

ASCII_IDENT = re.compile(r"[A-Za-z][A-Za-z0-9_]*")      # always used with fullmatch
KELVIN = "K"
ALPHABET = ["a", "A", "1", "_", " ", "é", "ß", KELVIN, "-", "if", "é"]


def ci(s):
  """Case-insensitive key.  Existing names are ASCII ids (assumption), results must be ASCII, so
  upper(), lower() and casefold() agree; all three are compared to be safe."""
  return (s.upper(), s.lower(), s.casefold())


def ci_equal(a, b):
  return a.upper() == b.upper() or a.lower() == b.lower() or a.casefold() == b.casefold()


def already_valid(ident, table):
  return (isinstance(ident, str) and ASCII_IDENT.fullmatch(ident) is not None and
          not keyword.iskeyword(ident) and (not table or ident[0].isupper()))


def check_one(ident, avoid, result, table):
  """-> list of (clause, detail) for one answer of a picker."""
  fails = []
  if type(result) is not str:
    return [("C21.valid_identifier", "result %r is not a str" % (result,))]
  if not (result.isidentifier() and ASCII_IDENT.fullmatch(result)):
    fails.append(("C21.valid_identifier", "%r is not an (ASCII) Python identifier" % result))
  if keyword.iskeyword(result):
    fails.append(("C21.not_keyword", "%r is a Python keyword" % result))
  if result[:1] == "_" or result[:1].isdigit() or result == "":
    fails.append(("C21.no_leading_underscore_digit", "%r starts with '_' or a digit / is empty" % result))
  if table and not (result[:1].isupper() and result[:1].isalpha()):
    fails.append(("C21.table_capitalised", "table id %r does not start with an uppercase letter" % result))
  clash = [a for a in avoid if ci_equal(a, result)]
  if clash:
    fails.append(("C21.differs_from_existing_ci", "%r equals existing %r ignoring case" % (result, clash[0])))
  if already_valid(ident, table) and not any(ci_equal(a, ident) for a in avoid) and result != ident:
    fails.append(("C21.valid_unused_kept", "valid unused name %r was changed to %r" % (ident, result)))
  return fails


CLAUSES = ("C21.total", "C21.valid_identifier", "C21.not_keyword", "C21.no_leading_underscore_digit",
           "C21.table_capitalised", "C21.differs_from_existing_ci", "C21.valid_unused_kept",
           "C21.batch_distinct_ci", "C21.avoid_untouched")


def _describe(ident):
  if ident is None: return "none"
  if ident == "": return "empty"
  k = []
  if any(ord(c) > 127 for c in ident): k.append("non-ascii")
  if keyword.iskeyword(ident) or keyword.iskeyword(ident.lower()) or keyword.iskeyword(ident.capitalize()):
    k.append("keyword-like")
  if ident[:1].isdigit() or ident[:1] == "_": k.append("bad-start")
  if ASCII_IDENT.fullmatch(ident): k.append("ascii-ident")
  return "+".join(k) or "other"


# ---------------------------------------------------------------------------------------------
# single pickers: adaptive avoid chains
# ---------------------------------------------------------------------------------------------

FIXED_AVOID = [set(), {"id"}, {"A", "B", "C", "Table1", "a", "c", "T"},
               {"TABLE1", "table2", "Table3", "a2", "A3", "C2", "c_2", "T2"}]


def _call_chain(a):
  """Calls the real picker on a["ident"] with: each fixed avoid set; then a chain in which the
  previous answers (in varying case) are added to avoid.  -> {"calls": [(avoid, result)],
  "fails": [...]}"""
  table = a["fn"] == "pick_table_ident"
  f = getattr(identifiers, a["fn"])
  ident = a["ident"]
  calls, fails = [], []

  def one(avoid):
    before = set(avoid)
    try:
      r = f(ident, avoid=avoid)
    except Exception as e:
      fails.append(("C21.total", "%s(%r, avoid=%r) raised %r" % (a["fn"], ident, sorted(before), e)))
      return None
    if avoid != before:
      fails.append(("C21.avoid_untouched", "avoid set changed from %r to %r" % (sorted(before), sorted(avoid))))
    calls.append((sorted(before), r))
    for c, d in check_one(ident, before, r, table):
      fails.append((c, "%s(%r, avoid=%r) -> %r: %s" % (a["fn"], ident, sorted(before), r, d)))
    return r

  for av in FIXED_AVOID:
    one(set(av))
  try:
    r_default = f(ident)                 # default argument (a shared mutable set in the source)
    calls.append(([], r_default))
    for c, d in check_one(ident, set(), r_default, table):
      fails.append((c, "%s(%r) -> %r: %s" % (a["fn"], ident, r_default, d)))
  except Exception as e:
    fails.append(("C21.total", "%s(%r) raised %r" % (a["fn"], ident, e)))
  chain = set()
  for step in range(4):
    r = one(set(chain))
    if not isinstance(r, str):
      break
    chain.add([r, r.swapcase(), r.lower(), r.upper()][step])
  return {"calls": calls, "fails": fails}


def _clause(name):
  def pred(a, r):
    for c, d in r["fails"]:
      if c == name:
        return d
    return True
  return pred


def _classify_single(a, clause, detail):
  return "%s:%s:%s" % (a.get("fn", "?"), clause.split(".", 1)[1], _describe(a.get("ident")))


def names(tier, seed):
  """The stated name space (deterministic for a given tier and seed)."""
  out = [None]
  maxlen = 3 if tier == "quick" else 4
  for n in range(0, maxlen + 1):
    for t in itertools.product(ALPHABET, repeat=n):
      out.append("".join(t))
  if tier == "quick":                       # a slice of length 4: every 7th string
    for i, t in enumerate(itertools.product(ALPHABET, repeat=4)):
      if i % 7 == seed % 7:
        out.append("".join(t))
  for kw in keyword.kwlist + keyword.softkwlist:
    for v in (kw, kw.upper(), kw.capitalize(), kw.lower(), " " + kw, kw + " ", "_" + kw, "1" + kw,
              kw + "1", kw[0].swapcase() + kw[1:], "T" + kw, "c" + kw, "é" + kw, kw + "́",
              kw[:1] + "́" + kw[1:]):
      out.append(v)
  for s in ["Table", "Table1", "table1", "TABLE", "A", "a", "id", "ID", "manualSort", "gristHelper_Display",
            "c", "T", "c1", "T1", "a1", "a_1", "a1_", "a 1", "ＡＢ", "①", "ﬁx", "x٣",
            "\U0001f600", "a\U0001f600b", "Ångström", "Å", "\ud800", "a\x00b", "\n", "a\tb",
            "New Column", "$x", "x.y", "a" * 70, "é" * 40, "_" * 5 + "a", "9" * 30, "ı", "İ",
            "ſ", "ǅ", "SS", "ss", "ß2", "K2", KELVIN + "2", "k"]:
    out.append(s)
  rng = random.Random(7700 + seed)
  ranges = [(0x20, 0x7e), (0x20, 0x7e), (0xa0, 0x17f), (0x300, 0x36f), (0x370, 0x3ff), (0x660, 0x669),
            (0xff10, 0xff5a), (0x2100, 0x214f), (0x2460, 0x2473), (0x4e00, 0x4e40), (0x1f600, 0x1f640),
            (0x0, 0x1f), (0xfb00, 0xfb06), (0x1d400, 0x1d433), (0xd800, 0xd805), (0x1c4, 0x1cc)]
  for _ in range(2500 if tier == "quick" else 20000):
    n = rng.randint(0, 8)
    chars = []
    for _ in range(n):
      lo, hi = rng.choice(ranges)
      chars.append(chr(rng.randint(lo, hi)))
    out.append("".join(chars))
  return out


def single_cases(tier, seed):
  for s in names(tier, seed):
    for f in ("pick_col_ident", "pick_table_ident"):
      yield {"fn": f, "ident": s}


def _nontrivial_single(a, r, exc):
  """non-trivial = the requested name is not already a valid id (sanitising or generation had to
  act) ; every case also runs the suffixing chain."""
  return not already_valid(a["ident"], a["fn"] == "pick_table_ident")


# ---------------------------------------------------------------------------------------------
# batches
# ---------------------------------------------------------------------------------------------

BATCH_POOL = ["a", "A", "a2", "a_2", "A2", "", None, "class", "é", "1", "_", "b", "a 2", "Class"]
BATCH_AVOID = [set(), {"id"}, {"A", "a2", "B", "c"}]


def batch_cases(tier, seed):
  maxn = 3
  for n in range(0, maxn + 1):
    for t in itertools.product(BATCH_POOL, repeat=n):
      for i, av in enumerate(BATCH_AVOID):
        yield {"idents": list(t), "avoid": sorted(av)}
  rng = random.Random(8800 + seed)
  pool = names("quick", seed)
  for _ in range(3000 if tier == "quick" else 60000):
    n = rng.randint(2, 6)
    base = rng.choice(pool)
    t = [rng.choice([base, base, rng.choice(pool), (base or "").swapcase(), None]) for _ in range(n)]
    yield {"idents": t, "avoid": sorted(rng.choice(FIXED_AVOID))}


def _call_batch(a):
  avoid = set(a["avoid"])
  before = set(avoid)
  fails = []
  try:
    res = identifiers.pick_col_ident_list(list(a["idents"]), avoid=avoid)
  except Exception as e:
    return {"fails": [("C21.total", "pick_col_ident_list(%r, avoid=%r) raised %r" % (a["idents"], sorted(before), e))]}
  pre = "pick_col_ident_list(%r, avoid=%r) -> %r: " % (a["idents"], sorted(before), res)
  if avoid != before:
    fails.append(("C21.avoid_untouched", pre + "avoid set changed to %r" % sorted(avoid)))
  if not isinstance(res, list) or len(res) != len(a["idents"]):
    return {"fails": fails + [("C21.valid_identifier", pre + "not a list of %d ids" % len(a["idents"]))]}
  for i, (ident, r) in enumerate(zip(a["idents"], res)):
    for c, d in check_one(ident, before, r, False):
      if c == "C21.valid_unused_kept":
        # in a batch the name may have been taken by another id of the same batch
        if any(j != i and isinstance(res[j], str) and ci_equal(res[j], ident) for j in range(len(res))):
          continue
      fails.append((c, pre + "[%d] %s" % (i, d)))
  ok = all(isinstance(r, str) for r in res)
  if ok:
    for i in range(len(res)):
      for j in range(i + 1, len(res)):
        if ci_equal(res[i], res[j]):
          fails.append(("C21.batch_distinct_ci", pre + "ids %d and %d are equal ignoring case" % (i, j)))
          break
      else:
        continue
      break
  return {"res": res, "fails": fails}


def _classify_batch(a, clause, detail):
  return "pick_col_ident_list:%s" % clause.split(".", 1)[1]


# ---------------------------------------------------------------------------------------------
# UserActions._pick_col_name (classmethod; table records are modelled by plain namespaces that
# offer exactly the attributes it reads: .columns[*].colId, .summaryTables[*].columns[*].colId)
# ---------------------------------------------------------------------------------------------

def _table_rec(cols, summary_cols):
  ns = types.SimpleNamespace
  return ns(columns=[ns(colId=c) for c in cols], summarySourceTable=None,
            summaryTables=[ns(columns=[ns(colId=c) for c in sc]) for sc in summary_cols])


PCN_TABLES = [([], []), (["a", "B", "manualSort"], []), (["a", "b"], [["a", "group", "count"]]),
              (["A", "a2", "c"], [["A", "group"], ["a2", "count", "D"]])]
PCN_NAMES = ["a", "A", "b", "B2", "a2", "group", "Count", "id", "ID", "", None, "class", "1", "_x", "é", "d",
             "a b", "D", "manualsort", "c"]


def pcn_cases(tier, seed):
  for ti in range(len(PCN_TABLES)):
    for name in PCN_NAMES:
      cols = PCN_TABLES[ti][0]
      for old in [None] + cols:
        for extra in (None, [], ["c", "E"], ["B2", "a3"]):
          yield {"table": ti, "col_id": name, "old": old, "extra": extra}


def _call_pcn(a):
  import useractions
  cols, scols = PCN_TABLES[a["table"]]
  rec = _table_rec(cols, scols)
  extra = set(a["extra"]) if a["extra"] is not None else None
  extra_before = set(extra) if extra is not None else None
  try:
    r = useractions.UserActions._pick_col_name(rec, a["col_id"], old_col_id=a["old"], avoid_extra=extra)
  except Exception as e:
    return {"fails": [("C21.total", "_pick_col_name raised %r" % (e,))]}
  existing = set(cols) | {"id"} | set(c for sc in scols for c in sc) | set(a["extra"] or [])
  if a["old"]:
    existing.discard(a["old"])          # a rename may keep (a re-spelling of) the column's own id
  fails = [(c, "_pick_col_name(cols=%r, summary=%r, %r, old=%r, extra=%r) -> %r: %s"
            % (cols, scols, a["col_id"], a["old"], a["extra"], r, d))
           for c, d in check_one(a["col_id"], existing, r, False)]
  if extra != extra_before:
    fails.append(("C21.avoid_untouched", "avoid_extra changed to %r" % (extra,)))
  return {"res": r, "fails": fails}


# ---------------------------------------------------------------------------------------------
# engine level: ids in the metadata after histories
# ---------------------------------------------------------------------------------------------

def doc_id_failures(e):
  """-> [(clause, detail)]: every tableId / colId recorded in the metadata is a valid id, ids are
  pairwise distinct ignoring case among tables and among the columns of one table, and the
  metadata's table ids are exactly the engine's user tables."""
  from vlib.rtc import eng
  tables = eng.meta_records(e, "_grist_Tables")
  columns = eng.meta_records(e, "_grist_Tables_column")
  out = []
  tids = [t["tableId"] for t in tables]
  src_of = {t["tableId"]: t.get("summarySourceTable") for t in tables}
  for i, t in enumerate(tids):
    for c, d in check_one(None, [x for j, x in enumerate(tids) if j != i and isinstance(x, str)], t, True):
      clash = [x for j, x in enumerate(tids) if j != i and isinstance(x, str) and isinstance(t, str)
               and ci_equal(x, t)]
      sib = bool(clash) and bool(src_of.get(t)) and any(src_of.get(x) == src_of.get(t) for x in clash)
      out.append((c, {"what": "tableId", "id": t, "why": d, "all": tids,
                      "sibling_summary_tables": sib}))
  if sorted(x for x in tids if isinstance(x, str)) != eng.user_tables(e):
    out.append(("C21.metadata_ids_are_engine_tables",
                {"what": "tableId", "metadata": tids, "engine": eng.user_tables(e)}))
  for t in tables:
    cids = [c["colId"] for c in columns if c["parentId"] == t["id"]]
    for i, cid in enumerate(cids):
      others = [x for j, x in enumerate(cids) if j != i and isinstance(x, str)] + ["id"]
      for c, d in check_one(None, others, cid, False):
        # is the clashing id a formula column that has same-named sister columns in other summary
        # tables of the same source table (those are renamed together)?
        sister = False
        src = t.get("summarySourceTable")
        if src and c == "C21.differs_from_existing_ci":
          sibs = [x["id"] for x in tables if x.get("summarySourceTable") == src and x["id"] != t["id"]]
          clash = [x for x in cids if isinstance(x, str) and ci_equal(x, cid)]
          sister = any(cc["parentId"] in sibs and cc["isFormula"] and cc["colId"] in clash
                       for cc in columns)
        out.append((c, {"what": "colId", "table": t["tableId"], "id": cid, "why": d, "all": cids,
                        "summary_table": bool(src), "sister_formula_column": sister}))
  return out


def already_exists_failure(exc):
  """The engine's doc actions assert that the id they are given is unused ('Table X already
  exists' / 'Column X already exists in T').  User actions never pass a requested name through
  unchanged: every id reaching a doc action was produced by one of the pickers, so this assertion
  failing means a picker returned an id that was in use (or two ids picked in one batch are
  equal).  -> (clause, detail) or None."""
  if exc is None:
    return None
  m = re.search(r"(Table|Column) (\S+) already exists", str(exc))
  if not m:
    return None
  return ("C21.picked_id_is_unused",
          {"what": "tableId" if m.group(1) == "Table" else "colId", "id": m.group(2),
           "raised": repr(exc)[:300]})


# ---------------------------------------------------------------------------------------------
# sibling summary tables: ids picked in ONE batch (exhaustive over a small stated space)
# ---------------------------------------------------------------------------------------------

# column pools in which '_'.join(sorted(group-by ids)) of different group-by sets coincide exactly
# (A,B / A_B), ignoring case (A,B / a_b ; a,c / A_c), or not at all (controls)
SIB_POOLS = (("A", "B", "A_B"), ("A", "B", "a_b"), ("a", "c", "A_c", "D"))
SIB_OPS = ("rename_source", "rename_source_case_only", "rename_source_via_metadata",
           "rename_two_tables_one_batch", "rename_groupby_cols")


def sibling_cases(tier, seed):
  """One case = one document (pool, group-by sets of the sibling summary tables) + the order in
  which the renames are chained on it."""
  for pi, pool in enumerate(SIB_POOLS):
    cols = pool[:3] if tier == "quick" else pool      # quick: group-by sets over the first 3 columns
    subsets = [g for k in (1, 2) for g in itertools.combinations(cols, k)]
    groups = list(itertools.combinations(subsets, 2))
    if tier == "thorough":
      groups += list(itertools.combinations(subsets, 3))
    for gi, gs in enumerate(groups):
      # quick: the chain as listed for every document, and started at the two-table batch for
      # every third document (which third depends on the seed)
      for rot in (((0, 3) if gi % 3 == seed % 3 else (0,)) if tier == "quick" else range(len(SIB_OPS))):
        yield {"pool": pi, "groupbys": [list(g) for g in gs], "ops": list(SIB_OPS[rot:] + SIB_OPS[:rot])}


def _call_siblings(a):
  """Builds Src(<pool>) + Other(x) with one summary table of Src per group-by set, then applies the
  renames of a["ops"] one after the other through the real engine; after each, every id of the
  document is examined.  Stops at the first rename with a failure."""
  from vlib.rtc import eng
  pool = SIB_POOLS[a["pool"]]
  e = eng.new_engine()
  col = lambda c: {"id": c, "type": "Text", "isFormula": False, "formula": ""}
  eng.apply(e, [["AddTable", "Src", [col(c) for c in pool]],
                ["AddTable", "Other", [col("x")]],
                ["BulkAddRecord", "Src", [None, None], {pool[0]: ["u", "v"], pool[1]: ["u", "u"]}]])
  got = [c[0] for c in eng.schema_columns(e, "Src")]
  if not all(c in got for c in pool):
    return {"fails": [("C21.harness", "pool %r became %r" % (pool, got))], "steps": 0, "batches": 0}
  src, other = eng.table_ref(e, "Src"), eng.table_ref(e, "Other")
  for g in a["groupbys"]:
    eng.apply(e, [["CreateViewSection", src, 0, "record", [eng.col_ref(e, "Src", c) for c in g], None]])
  fails = [(c, "after building the document: %r" % (d,)) for c, d in doc_id_failures(e)]
  res = {"fails": fails, "steps": 0, "batches": 0, "history": []}
  if fails:
    return res
  fresh = iter(["Dst", "Src", "Tab", "Dst", "Src", "Tab"])
  gcols = sorted(set(c for g in a["groupbys"] for c in g))
  for op in a["ops"]:
    tabs = {t["id"]: t["tableId"] for t in eng.meta_records(e, "_grist_Tables")}
    cur = tabs[src]
    steps = []
    if op == "rename_source":
      n = next(fresh)
      steps.append(([["RenameTable", cur, n]], {src: n}))
    elif op == "rename_source_case_only":
      n = cur.swapcase()
      n = n if n[:1].isupper() else cur.upper()
      steps.append(([["RenameTable", cur, n]], {src: n} if n != cur else {}))
    elif op == "rename_source_via_metadata":
      n = next(fresh)
      steps.append(([["UpdateRecord", "_grist_Tables", src, {"tableId": n}]], {src: n}))
    elif op == "rename_two_tables_one_batch":
      n = next(fresh)
      steps.append(([["BulkUpdateRecord", "_grist_Tables", [src, other], {"tableId": [n, n.lower()]}]],
                    {src: n}))
    else:
      for i, c in enumerate(gcols):          # every group-by column, to a fresh id and onto a neighbour's
        steps.append(([["RenameColumn", "<src>", c, "Q%d" % i]], {}))
      if len(gcols) >= 2:
        steps.append(([["RenameColumn", "<src>", "Q0", "q1"]], {}))
    for bundle, want in steps:
      before = {t["id"]: t["tableId"] for t in eng.meta_records(e, "_grist_Tables")}
      bundle = [[before[src] if x == "<src>" else x for x in act] for act in bundle]
      exc = None
      try:
        eng.apply(e, bundle)
      except Exception as ex:
        exc = ex
      after = {t["id"]: t["tableId"] for t in eng.meta_records(e, "_grist_Tables")}
      res["steps"] += 1
      res["history"].append(bundle)
      if len([r for r in after if after[r] != before.get(r)]) >= 2:
        res["batches"] += 1
      pre = "[%s] %r on tables %r -> %r: " % (op, bundle, sorted(before.values()), sorted(after.values()))
      if exc is not None:
        ae = already_exists_failure(exc)
        if ae: fails.append((ae[0], pre + repr(ae[1])))
        fails.append(("C21.total", pre + "a valid rename raised %r" % (exc,)))
      else:
        for ref, name in want.items():
          if after.get(ref) != name:
            fails.append(("C21.valid_unused_kept", pre + "valid unused table id %r was changed to %r"
                          % (name, after.get(ref))))
      fails += [(c, pre + repr(d)) for c, d in doc_id_failures(e)]
      if fails:
        res["op"] = op
        return res
  return res


def _classify_siblings(a, clause, detail):
  d = str(detail)
  op = d[1:d.index("]")] if d.startswith("[") and "]" in d else "build"
  return "sibling-summary-tables:%s:%s" % (op, clause.split(".", 1)[1])


def _siblings_nontrivial(a, r, exc):
  """non-trivial = at least one rename of the chain changed the ids of two or more tables (a
  batch of picks)."""
  return r is not None and r.get("batches", 0) >= 1


def _monitor_base():
  from vlib.rtc import explore
  return explore.Monitor


AWKWARD = ["n", "N", "s", "S", "class", "Class", "None", "none", "id", "ID", "1a", "_u", "é", "E", "e",
           "New Col", "new_col", "NEW COL", "", "a", "A", "a2", "A2", "manualSort", "MANUALSORT", "group",
           "Table1", "table1", "if", "If", KELVIN, "k", "ß", "x y", "x_y", "X  Y", "True", "T", "c",
           "cat", "CAT", "Tags", "count", "COUNT", "A_B", "a_b", "B", "b", "A_b", "B_C", "n_s", "cat_n"]


def _seed_docs():
  """Seed document with sibling summary tables whose encoded names coincide: Src(A, B, A_B, C) with
  summaries by {A,B} and {A_B}; Low(a, c, A_c) with summaries by {a,c} and {A_c} (coincide ignoring
  case)."""
  from vlib.rtc import gen
  col = lambda c: {"id": c, "type": "Text", "isFormula": False, "formula": ""}
  gen.SEEDS["c21_joined"] = [
    [["AddTable", "Src", [col("A"), col("B"), col("A_B"), col("C")]],
     ["AddTable", "Low", [col("a"), col("c"), col("A_c")]]],
    [["BulkAddRecord", "Src", [None, None, None], {"A": ["x", "y", "x"], "B": ["u", "u", "v"], "A_B": ["1", "2", "1"]}],
     ["BulkAddRecord", "Low", [None, None], {"a": ["x", "y"], "c": ["u", "u"]}]],
    [["CreateViewSection", 1, 0, "record", [2, 3], None]],        # Src by A, B
    [["CreateViewSection", 1, 0, "record", [4], None]],           # Src by A_B
    [["CreateViewSection", 2, 0, "record", [7, 8], None]],        # Low by a, c
    [["CreateViewSection", 2, 0, "record", [9], None]],           # Low by A_c
  ]


_seed_docs()


class IdentMonitor(_monitor_base()):
  """invariant after every bundle: every tableId and colId recorded in the metadata is a valid id
  (C21.valid_identifier / not_keyword / no_leading_underscore_digit / table_capitalised) and ids are
  pairwise distinct ignoring case among tables, and among the columns of one table
  (C21.differs_from_existing_ci)."""
  seeds = ("basic", "refs", "summary", "c21_joined")
  length = 6

  def gen_bundle(self, st, e, g):
    from vlib.rtc import eng
    rng = g.rng
    tabs = eng.user_tables(e)
    summ = set(t["tableId"] for t in eng.meta_records(e, "_grist_Tables") if t.get("summarySourceTable"))
    data = [t for t in tabs if t not in summ]
    r = rng.random()
    r2 = rng.random()
    if data and r2 < 0.10:
      # a summary table of a data table by 1-2 of its columns (sibling summary tables whose encoded
      # names join to the same string are what the batch renames below have to keep apart)
      t = rng.choice(data)
      cs = [c[0] for c in eng.schema_columns(e, t) if c[0] not in ("id", "manualSort") and not c[2]]
      if cs:
        refs = [eng.col_ref(e, t, c) for c in rng.sample(cs, min(len(cs), rng.randint(1, 2)))]
        if all(refs):
          return [["CreateViewSection", eng.table_ref(e, t), 0, "record", refs, None]]
    elif len(data) >= 2 and r2 < 0.16:
      # several tables renamed by ONE metadata action (ids picked in one batch)
      ts = rng.sample(data, 2)
      refs = [eng.table_ref(e, t) for t in ts]
      n1 = rng.choice(AWKWARD)
      n2 = rng.choice([n1, n1.swapcase(), n1.upper(), rng.choice(AWKWARD), ts[0]])
      if all(refs):
        return [["BulkUpdateRecord", "_grist_Tables", refs, {"tableId": [n1, n2]}]]
    elif data and r2 < 0.20:
      # a source table that has summary tables is renamed (all its summary tables get new ids)
      recs = eng.meta_records(e, "_grist_Tables")
      has = set(t["summarySourceTable"] for t in recs if t.get("summarySourceTable"))
      srcs = [t["tableId"] for t in recs if t["id"] in has and t["tableId"] in data]
      if srcs:
        return [["RenameTable", rng.choice(srcs), rng.choice(AWKWARD + ["Dst", "Src", "SRC"])]]
    if not data or r < 0.15:
      if r < 0.08 and data:
        return g.bundle(e)
      cols = [{"id": rng.choice(AWKWARD), "type": "Text", "isFormula": False}
              for _ in range(rng.randint(0, 3))]
      return [["AddTable", rng.choice(AWKWARD + [None]), cols]]
    t = rng.choice(tabs if rng.random() < 0.35 else data)
    cols = [c[0] for c in eng.schema_columns(e, t) if c[0] not in ("id", "manualSort")]
    if r < 0.40:
      return [["AddColumn", t, rng.choice(AWKWARD + [None]),
               {"type": "Text", "isFormula": rng.random() < 0.3, "formula": ""}]]
    if r < 0.60 and cols:
      return [["RenameColumn", t, rng.choice(cols), rng.choice(AWKWARD)]]
    if r < 0.70:
      return [["RenameTable", t, rng.choice(AWKWARD)]]
    if r < 0.80 and cols:
      ref = eng.col_ref(e, t, rng.choice(cols))
      if ref:
        if rng.random() < 0.5:
          return [["UpdateRecord", "_grist_Tables_column", ref, {"colId": rng.choice(AWKWARD)}]]
        return [["UpdateRecord", "_grist_Tables_column", ref,
                 {"label": rng.choice(AWKWARD), "untieColIdFromLabel": False}]]
    if r < 0.88 and len(cols) >= 2:
      refs = [eng.col_ref(e, t, c) for c in rng.sample(cols, 2)]
      if all(refs):
        return [["BulkUpdateRecord", "_grist_Tables_column", refs,
                 {"colId": [rng.choice(AWKWARD), rng.choice(AWKWARD)]}]]
    if r < 0.93:
      tr = eng.table_ref(e, t)
      if tr:
        return [["UpdateRecord", "_grist_Tables", tr, {"tableId": rng.choice(AWKWARD)}]]
    return g.bundle(e)

  def after(self, st, e, bundle, group, exc):
    out = []
    ae = already_exists_failure(exc)
    if ae:
      ae[1]["actions"] = sorted(set(str(a[0]) for a in bundle))
      ae[1]["sister_formula_column"] = self._sister_rename(e, bundle, exc)
      out.append(ae)
    out += doc_id_failures(e)
    return out[:1]

  @staticmethod
  def _sister_rename(e, bundle, exc):
    """The bundle failed with 'Column X already exists in T' (so the document is back in its
    pre-bundle state).  True when the bundle renames a formula column `old` of a summary table S,
    and T is ANOTHER summary table of the same source table that has a same-named formula column
    `old` (its 'sister', renamed together with it) and already has a column X."""
    from vlib.rtc import eng
    m = re.search(r"Column (\S+) already exists in (\S+)", str(exc))
    if not m:
      return False
    X, T = m.group(1), m.group(2)
    tables = eng.meta_records(e, "_grist_Tables")
    columns = eng.meta_records(e, "_grist_Tables_column")
    by_id = {t["tableId"]: t for t in tables}
    by_ref = {t["id"]: t for t in tables}
    trec = by_id.get(T)
    if not trec or not trec.get("summarySourceTable"):
      return False
    tcols = {c["colId"]: c for c in columns if c["parentId"] == trec["id"]}
    if X not in tcols:
      return False
    targets = []                               # (table record, old col id) renamed by the bundle
    for a in bundle:
      if a[0] == "RenameColumn" and a[1] in by_id:
        targets.append((by_id[a[1]], a[2]))
      elif a[0] in ("UpdateRecord", "BulkUpdateRecord") and a[1] == "_grist_Tables_column" and \
          isinstance(a[3], dict) and ("colId" in a[3] or "label" in a[3]):
        for ref in (a[2] if isinstance(a[2], (list, tuple)) else [a[2]]):
          for c in columns:
            if c["id"] == ref and c["parentId"] in by_ref:
              targets.append((by_ref[c["parentId"]], c["colId"]))
    for srec, old in targets:
      if (srec["id"] != trec["id"] and srec.get("summarySourceTable") and
          srec["summarySourceTable"] == trec["summarySourceTable"] and
          old in tcols and tcols[old]["isFormula"] and
          any(c["parentId"] == srec["id"] and c["colId"] == old and c["isFormula"] for c in columns)):
        return True
    return False

  def classify(self, clause, detail, bundle, history):
    if clause == "C21.picked_id_is_unused" and detail.get("what") == "colId" and \
        detail.get("sister_formula_column"):
      return "engine:colId:summary-sister-column-renamed-onto-sibling-table-id"
    if detail.get("summary_table") and detail.get("sister_formula_column"):
      return "engine:colId:summary-sister-column-renamed-onto-sibling-table-id"
    if clause == "C21.picked_id_is_unused":
      return "engine:%s:picked-id-already-exists:%s" % (detail.get("what"), "+".join(detail.get("actions") or []))
    return "engine:%s:%s" % (detail.get("what"), clause.split(".", 1)[1])

  def nontrivial(self, st, bundle, group, exc):
    if exc is not None or not group: return exc is not None
    return any(type(a).__name__ in ("AddTable", "AddColumn", "RenameColumn", "RenameTable")
               for a in group.stored)


def main():
  rep = common.Report("C21", "exploration")
  tier = common.tier()
  rep.assumptions += [
    "bounded: exhaustive small strings + keywords + seeded random Unicode + adaptive avoid chains; "
    "not a proof",
    "ids are ASCII by design (identifiers._sanitize_ident): 'valid Python identifier' is checked as "
    "str.isidentifier() AND ^[A-Za-z][A-Za-z0-9_]*$; a requested name is 'already valid' when it "
    "matches that pattern (uppercase first for tables) and is not a Python keyword "
    "(keyword.iskeyword; soft keywords such as 'match' are legal identifiers)",
    "existing names (avoid sets) are ASCII strings, as produced by these same functions; "
    "case-insensitive equality is checked with upper(), lower() and casefold()",
    "requested names are str or None",
    "in a batch, a valid unused name must be kept unless another id of the same batch took it",
    "frame clause C21.avoid_untouched (the caller's avoid set is not modified) comes from the code's "
    "call sites, not from the statement",
    "engine level, C21.picked_id_is_unused: every id that reaches a schema doc action was produced by "
    "a picker (user actions never pass a requested name through), so a bundle dying with the doc "
    "action's own assertion 'Table/Column X already exists' means a picked id was in use",
    "sibling-summary contract, C21.total: the renames applied there are valid requests (existing "
    "non-summary table / existing column, str name), so they must not raise",
    "_pick_col_name is called with namespaces offering .columns[*].colId / .summaryTables[*].columns "
    "/ .summarySourceTable=None (a non-summary table); summary tables are covered at engine level",
    common.SHIM_ASSUMPTION,
  ]
  nn = len(names(tier, common.seed()))
  rep.coverage["rule"] = (
    "one evaluation = one requested name given to one real picker with 4 fixed avoid sets, the "
    "default argument, and a chain of 4 avoid sets built from the picker's previous answers in "
    "swapped/lower/upper case (9 calls), every answer checked; or one batch given to "
    "pick_col_ident_list; or one _pick_col_name call; or one document with sibling summary tables + "
    "one rename; or one engine bundle followed by the metadata "
    "id invariant. Non-trivial = the requested name is not already a valid id (single), the batch "
    "has >= 2 names (batch), the request is not already valid and unused (_pick_col_name), the "
    "bundle stored an AddTable/AddColumn/Rename* action or raised (engine); distinct by repr.")
  rep.coverage["bound"] = {
    "alphabet": ALPHABET, "names": nn,
    "strings": ("all strings of length <= 3 over the alphabet + every 7th of length 4"
                if tier == "quick" else "all strings of length <= 4 over the alphabet"),
    "keywords": "%d keywords and soft keywords x 15 spellings" % len(keyword.kwlist + keyword.softkwlist),
    "random_unicode": 2500 if tier == "quick" else 20000,
    "batches": "all batches of <= 3 names over %d names x %d avoid sets + %d random batches of 2-6 related names"
               % (len(BATCH_POOL), len(BATCH_AVOID), 3000 if tier == "quick" else 60000),
    "pick_col_name": "%d tables x %d names x old ids x 4 avoid_extra" % (len(PCN_TABLES), len(PCN_NAMES)),
    "sibling_summary_tables": "column pools %r; every %s of distinct group-by sets of 1-2 columns of a pool "
                              "(quick: of its first 3 columns) "
                              "as summary tables of one source table; then a chain of renames, every id "
                              "examined after each: RenameTable source to a new name, RenameTable source "
                              "changing only case, UpdateRecord _grist_Tables tableId, BulkUpdateRecord "
                              "_grist_Tables renaming the source and a second table to 'X','x', RenameColumn "
                              "of every group-by column (to fresh ids, then one onto another ignoring case); "
                              "chain started at %s"
                              % (SIB_POOLS, "pair" if tier == "quick" else "pair and triple",
                                 "op 0 (every document) and op 3 (every third document)" if tier == "quick" else "every op (5 rotations)"),
    "engine": "seed docs basic, refs, summary, c21_joined (two source tables with sibling summary tables "
              "whose encoded names coincide exactly / ignoring case); histories of 6 bundles: awkward "
              "AddTable / AddColumn / RenameColumn / RenameTable / metadata colId, label, tableId updates, "
              "summary tables by 1-2 random columns, two tables renamed by one _grist_Tables action, "
              "renames of source tables that have summary tables"}

  single = fn.FnContract(
    name="identifiers.pick_col_ident / pick_table_ident", call=_call_chain,
    ensures={c: _clause(c) for c in CLAUSES if c != "C21.batch_distinct_ci"},
    classify=_classify_single, nontrivial=_nontrivial_single)
  fn.check(rep, single, single_cases, exhaustive=False, limit_quick_s=15)

  batch = fn.FnContract(
    name="identifiers.pick_col_ident_list", call=_call_batch,
    ensures={c: _clause(c) for c in CLAUSES}, classify=_classify_batch,
    nontrivial=lambda a, r, exc: len(a["idents"]) >= 2)
  fn.check(rep, batch, batch_cases, exhaustive=False, limit_quick_s=10)

  pcn = fn.FnContract(
    name="useractions.UserActions._pick_col_name", call=_call_pcn,
    ensures={c: _clause(c) for c in CLAUSES if c != "C21.batch_distinct_ci"},
    classify=lambda a, clause, detail: "_pick_col_name:%s" % clause.split(".", 1)[1],
    nontrivial=lambda a, r, exc: r is not None and r.get("res") != a["col_id"])
  fn.check(rep, pcn, pcn_cases, exhaustive=False, limit_quick_s=6)

  sib = fn.FnContract(
    name="Engine.apply_user_actions (renames that re-pick the ids of sibling summary tables in one batch)",
    call=_call_siblings,
    ensures={c: _clause(c) for c in CLAUSES + ("C21.picked_id_is_unused", "C21.metadata_ids_are_engine_tables",
                                               "C21.harness")},
    classify=_classify_siblings, nontrivial=_siblings_nontrivial)
  # (4 worker processes: engine-heavy cases scale badly beyond that in forked pool workers)
  fn.check(rep, sib, sibling_cases, exhaustive=True, limit_quick_s=30, limit_thorough_s=400,
           warm_engine=True, procs=4)

  from vlib.rtc import explore
  explore.explore(rep, "checks.C21", "IdentMonitor", n_quick=32, n_thorough=4000,
                  budget_quick_s=6, budget_thorough_s=300)
  # directed histories (fixed; found by the thorough tier, kept so that every run re-examines them)
  directed = [("summary", [[["RenameColumn", "A_summary", "count", "CAT"]]]),
              ("summary", [[["RenameColumn", "A_summary", "count", "cat"]]]),
              ("c21_joined", [[["RenameTable", "Src", "Dst"]], [["RenameTable", "Low", "LOW"]],
                              [["BulkUpdateRecord", "_grist_Tables", [1, 2], {"tableId": ["Tab", "tab"]}]]]),
              ("summary", [[["RenameColumn", "A", "tags", "New Col"]],
                           [["UpdateRecord", "_grist_Tables_column", 14, {"colId": "new_col"}]]])]
  mon = IdentMonitor()
  for seed_name, hist in directed:
    try:
      failures, stats, history = explore.run_history(mon, seed_name, hist)
    except Exception as e:
      rep.crash("directed history failed to run: %r" % (e,))
      continue
    rep.coverage["evaluations"] = rep.coverage.get("evaluations", 0) + stats["bundles"]
    for f in failures:
      rep.violation(f["clause"], {"obligation": f["clause"], "class": f["class"], "seed_doc": seed_name,
                                  "history": history, "detail": f["detail"], "tier": "bounded",
                                  "how_to_replay": "apply SEEDS[seed_doc] then `history` on a fresh engine"})
  rep.coverage["directed_histories"] = len(directed)
  rep.coverage["exhaustive"] = False
  rep.coverage["exhaustive_part"] = ("the small-string space, the keyword spellings, the <=3 batches "
                                     "and the _pick_col_name grid are enumerated completely; random "
                                     "Unicode strings, random batches and engine histories are seeded samples; the "
                                     "sibling-summary-table space stated in bound.sibling_summary_tables is "
                                     "enumerated completely")
  return rep.finish()


if __name__ == "__main__":
  sys.exit(main())
