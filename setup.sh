#!/bin/bash
# Builds the overlay venv /verif/.venv offline (idempotent, file-locked).
set -e
cd "$(dirname "$0")"
exec 9>.venv.lock
flock 9
if [ -x .venv/bin/python ] && .venv/bin/python -c "
import z3, jsonschema, sortedcontainers, astroid, asttokens, sys
# the repository's own dependencies must come from /venv, not from the overlay
sys.exit(0 if asttokens.__file__.startswith('/venv/') else 1)" 2>/dev/null; then
  exit 0
fi
rm -rf .venv
/venv/bin/python -m venv .venv
SP=$(.venv/bin/python -c "import site; print(site.getsitepackages()[0])")
echo "import site; site.addsitedir('/venv/lib/python3.12/site-packages')" > "$SP/verif_overlay.pth"
PIP_NO_INDEX=1 .venv/bin/python -m pip install -q --no-index --find-links /opt/veriftools/wheels \
  z3-solver cvc5 crosshair-tool icontract deal hypothesis jsonschema >/dev/null 2>&1 || \
PIP_NO_INDEX=1 .venv/bin/python -m pip install -q --no-index --find-links /opt/veriftools/wheels z3-solver jsonschema
# Packages that the wheelhouse pulled in but that /venv already provides (asttokens) would shadow
# the versions the repository pins: remove them from the overlay so /venv's copies are used.
.venv/bin/python - <<'PY'
import importlib.metadata as md, subprocess, sys
ov = [p for p in sys.path if "/.venv/" in p and p.endswith("site-packages")][0]
norm = lambda d: d.metadata["Name"].lower().replace("_", "-")
mine = {norm(d) for d in md.distributions(path=[ov])}
theirs = {norm(d) for d in md.distributions(path=["/venv/lib/python3.12/site-packages"])}
dup = sorted((mine & theirs) - {"pip", "setuptools", "wheel"})
if dup:
  subprocess.check_call([sys.executable, "-m", "pip", "uninstall", "-q", "-y"] + dup)
PY
.venv/bin/python -c "import z3, jsonschema, sortedcontainers, astroid, asttokens; assert asttokens.__file__.startswith('/venv/'), asttokens.__file__; print('venv ok', z3.get_version_string(), 'asttokens', asttokens.__version__ if hasattr(asttokens, '__version__') else '')"
