#!/bin/bash
# Builds the overlay venv /verif/.venv offline (idempotent, file-locked).
set -e
cd "$(dirname "$0")"
exec 9>.venv.lock
flock 9
if [ -x .venv/bin/python ] && .venv/bin/python -c "import z3, jsonschema, sortedcontainers, astroid, asttokens" 2>/dev/null; then
  exit 0
fi
rm -rf .venv
/venv/bin/python -m venv .venv
SP=$(.venv/bin/python -c "import site; print(site.getsitepackages()[0])")
echo "import site; site.addsitedir('/venv/lib/python3.12/site-packages')" > "$SP/verif_overlay.pth"
PIP_NO_INDEX=1 .venv/bin/python -m pip install -q --no-index --find-links /opt/veriftools/wheels \
  z3-solver cvc5 crosshair-tool icontract deal hypothesis jsonschema >/dev/null 2>&1 || \
PIP_NO_INDEX=1 .venv/bin/python -m pip install -q --no-index --find-links /opt/veriftools/wheels z3-solver jsonschema
.venv/bin/python -c "import z3, jsonschema, sortedcontainers, astroid, asttokens; print('venv ok', z3.get_version_string())"
