"""Shared plumbing for every check: paths, tiers, evidence files, known findings, exit codes."""
import json
import os
import sys
import time
import hashlib

VERIF = os.path.dirname(os.path.dirname(os.path.abspath(__file__)))
REPO = os.environ.get("VERIF_REPO", "/repo")
GRIST = os.path.join(REPO, "sandbox", "grist")
EVIDENCE_DIR = os.environ.get("VERIF_EVIDENCE_DIR") or os.path.join(VERIF, "evidence")
REPLAY_DIR = os.environ.get("VERIF_REPLAY_DIR") or os.path.join(VERIF, "replays")
SCHEMA = "/root/.vp/EVIDENCE.schema.json"

EXIT_OK, EXIT_VIOLATION, EXIT_UNDECIDED, EXIT_CRASH = 0, 1, 2, 3

SHIM_ASSUMPTION = ("friendly_traceback is stubbed (shims/friendly_traceback): error message "
                   "texts differ from production, error type names do not")


def tier():
  t = os.environ.get("VERIF_TIER", "quick")
  return t if t in ("quick", "thorough") else "quick"


def seed():
  try:
    return int(os.environ.get("VERIF_SEED", "0"))
  except ValueError:
    return 0


def setup_grist_path():
  """Puts the real engine sources (working tree of /repo) and the shim on sys.path."""
  for p in (os.path.join(VERIF, "shims"), GRIST):
    if p not in sys.path:
      sys.path.insert(0, p)


def sha256_text(s):
  return hashlib.sha256(s.encode("utf8")).hexdigest()


def load_known_findings(prop):
  """Known findings live in known_findings.json and known_findings.d/*.json (committed; never
  written at run time).  Entry: {"id", "property", "what", "match": {...}, "status"?}.  Entries
  whose "status" starts with "fixed" suppress nothing."""
  import glob
  paths = [os.path.join(VERIF, "known_findings.json")] + \
      sorted(glob.glob(os.path.join(VERIF, "known_findings.d", "*.json")))
  out = []
  for path in paths:
    if not os.path.exists(path):
      continue
    with open(path) as f:
      data = json.load(f)
    for e in data.get("findings", []):
      if e.get("property") == prop and not str(e.get("status", "")).startswith("fixed"):
        out.append(e)
  return out


def _jsonable(x, depth=0):
  if depth > 12:
    return repr(x)
  if isinstance(x, (str, int, bool)) or x is None:
    return x
  if isinstance(x, float):
    if x != x or x in (float("inf"), float("-inf")):
      return repr(x)
    return x
  if isinstance(x, (list, tuple, set, frozenset)):
    return [_jsonable(v, depth + 1) for v in x]
  if isinstance(x, dict):
    return {str(k): _jsonable(v, depth + 1) for k, v in x.items()}
  return repr(x)


def write_replay(prop, name, record):
  os.makedirs(REPLAY_DIR, exist_ok=True)
  safe = "".join(c if c.isalnum() or c in "-_." else "_" for c in name)[:120]
  path = os.path.join(REPLAY_DIR, "%s-%s.json" % (prop, safe))
  record = dict(record)
  record.setdefault("property", prop)
  record.setdefault("obligation", name)
  with open(path, "w") as f:
    json.dump(_jsonable(record), f, indent=1, sort_keys=True)
  return path


class Report(object):
  """Collects what one run of one property covered, prints VIOLATION / KNOWN-FINDING lines and
  writes the evidence file.  A check builds one Report, calls .violation(...) for each failing
  obligation or failing input, and ends with sys.exit(report.finish())."""

  def __init__(self, prop, level):
    self.prop = prop
    self.level = level
    self.t0 = time.time()
    self.coverage = {}
    self.assumptions = []
    self.violations = []      # (name, replay_path, has_input)
    self.known_hits = []
    self.undecided = []       # obligation names left open
    self.crashed = []
    self.known = load_known_findings(prop)

  # -- findings ---------------------------------------------------------------------------
  def match_known(self, record):
    """A known finding is matched by its 'match' dict: every key must be equal in the record
    (after JSON normalisation).  Returns the entry or None."""
    rec = _jsonable(record)
    for e in self.known:
      m = e.get("match", {})
      if m and all(rec.get(k) == v for k, v in m.items()):
        return e
    return None

  def violation(self, name, record, has_input=True):
    """record: JSON-able dict describing the failing input / obligation; it may carry 'class'
    (a canonical failure class used to match known findings)."""
    e = self.match_known(record)
    if e is not None:
      if e["id"] not in [k["id"] for k in self.known_hits]:
        self.known_hits.append(e)
      e.setdefault("_count", 0)
      e["_count"] += 1
      dump = os.environ.get("VERIF_DUMP_KNOWN")   # debugging aid: keep the first matched record
      if dump and e["_count"] == 1:
        os.makedirs(dump, exist_ok=True)
        with open(os.path.join(dump, "%s.json" % e["id"]), "w") as f:
          json.dump(_jsonable(record), f, indent=1, default=repr)
      return False
    path = write_replay(self.prop, name, record)
    self.violations.append((name, path, has_input))
    return True

  def undecided_obligation(self, name, why=""):
    self.undecided.append("%s%s" % (name, (": " + why) if why else ""))

  def crash(self, what):
    self.crashed.append(what)

  # -- evidence ---------------------------------------------------------------------------
  def finish(self):
    for e in self.known_hits:
      print("KNOWN-FINDING: property=%s %s" % (self.prop, e["what"]))
    seen = set()
    for name, path, has_input in self.violations:
      if path in seen:
        continue
      seen.add(path)
      print("VIOLATION property=%s replay=%s%s" % (
        self.prop, path, "" if has_input else " no-failing-input-found"))
    for u in self.undecided:
      print("UNDECIDED property=%s %s" % (self.prop, u))
    for c in self.crashed:
      print("CHECKER-ERROR property=%s %s" % (self.prop, c))
    ev = {
      "property_id": self.prop,
      "tier": tier(),
      "seed": seed(),
      "level": self.level,
      "coverage": _jsonable(self.coverage),
      "assumptions": [str(a) for a in self.assumptions],
      "wall_s": round(time.time() - self.t0, 3),
      "violations": len(seen),
    }
    cov = ev["coverage"]
    if self.level == "proof" and not (cov.get("obligations", 0) >= 1 and cov.get("discharged", 0) >= 1):
      # nothing was generated/discharged on this tree (e.g. the code left the supported subset):
      # do not present proof-style counts; the exploration-style keys of the bounded twin remain
      cov["obligations_generated"] = cov.pop("obligations", 0)
      cov["obligations_discharged"] = cov.pop("discharged", 0)
    ev["coverage"]["known_findings_matched"] = [
      {"id": e["id"], "what": e["what"], "count": e.get("_count", 0)} for e in self.known_hits]
    ev["coverage"]["undecided"] = list(self.undecided)
    os.makedirs(EVIDENCE_DIR, exist_ok=True)
    path = os.path.join(EVIDENCE_DIR, "%s.json" % self.prop)
    ok_schema = True
    try:
      import jsonschema
      with open(SCHEMA) as f:
        schema = json.load(f)
      jsonschema.validate(ev, schema)
    except ImportError:
      pass
    except Exception as e:     # invalid evidence is a checker error
      ok_schema = False
      print("CHECKER-ERROR property=%s evidence does not validate: %s" % (
        self.prop, str(e).splitlines()[0]))
    with open(path, "w") as f:
      json.dump(ev, f, indent=1, sort_keys=True)
    if seen and any(has_input for _n, _p, has_input in self.violations):
      code = EXIT_VIOLATION        # a failing input replayed on the real code outranks the rest
    elif self.crashed or not ok_schema:
      code = EXIT_CRASH
    elif seen:
      code = EXIT_VIOLATION
    elif self.undecided:
      code = EXIT_UNDECIDED
    else:
      code = EXIT_OK
    print("%s %s tier=%s level=%s wall=%.1fs exit=%d" % (
      self.prop, "OK" if code == 0 else "NOT-OK", tier(), self.level, time.time() - self.t0, code))
    return code
