from .values import (Int, Bool, Str, Opaque, Tup, Obj, Opt, Seq, SetOf, MapOf, Unsupported,
                     SInt, SBool, SStr, SOpq, SSeq, SSet, SMap, SOpt, ObjVal)
from .contract import Contract, LoopSpec, verify_contract, NativeOutcome
from .interp import Model, SelfModel
