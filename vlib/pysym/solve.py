"""Discharging obligations: z3 in-process first, then /usr/bin/cvc5 and /usr/bin/z3 (4.8.12) on the
SMT-LIB2 text for anything z3 5.x leaves `unknown`."""
import os
import subprocess
import tempfile
import time
import z3


class Result(object):
  def __init__(self, status, backend, time_s, model=None, detail=""):
    self.status, self.backend, self.time_s, self.model, self.detail = \
        status, backend, time_s, model, detail


def _cli(cmd, text, timeout_s):
  with tempfile.NamedTemporaryFile("w", suffix=".smt2", delete=False, dir="/dev/shm"
                                   if os.path.isdir("/dev/shm") else None) as f:
    f.write(text)
    path = f.name
  try:
    p = subprocess.run(cmd + [path], capture_output=True, text=True, timeout=timeout_s + 5)
    out = (p.stdout or "").strip().splitlines()
    return out[0].strip() if out else "unknown"
  except subprocess.TimeoutExpired:
    return "unknown"
  finally:
    os.unlink(path)


def discharge(ob, timeout_ms=10000, cli_fallback=True):
  """unsat => proved; sat => counter-model (only trusted from the in-process solver, and
  re-validated by replay); unknown => undecided."""
  t0 = time.time()
  # pass 1: pure E-matching (no model-based quantifier instantiation): proofs by instantiation of
  # the invariants come out in milliseconds here, and "unknown" comes back quickly otherwise.
  s1 = z3.Solver()
  s1.set("timeout", min(timeout_ms, 2000))
  s1.set("smt.mbqi", False)
  s1.set("smt.auto_config", False)
  s1.add(*ob.assumptions)
  s1.add(z3.Not(ob.goal))
  if s1.check() == z3.unsat:
    return Result("unsat", "z3-%s(ematching)" % z3.get_version_string(), time.time() - t0)
  # pass 2: leave-one-out over the quantified assumptions.  Dropping an assumption can only make
  # the query weaker, so an `unsat` here is still a proof of the obligation; it removes the
  # instantiation noise (matching loops) that made the full query diverge.
  quant = [i for i, a in enumerate(ob.assumptions) if _has_quantifier(a)]
  if 1 < len(quant) <= 24:
    for i in reversed(quant):
      rest = ob.assumptions[:i] + ob.assumptions[i + 1:]
      for mbqi in (False,):
        s3 = z3.Solver()
        s3.set("timeout", 1000)
        if not mbqi:
          s3.set("smt.mbqi", False); s3.set("smt.auto_config", False)
        s3.add(*rest)
        s3.add(z3.Not(ob.goal))
        if s3.check() == z3.unsat:
          return Result("unsat", "z3-%s(leave-one-out)" % z3.get_version_string(),
                        time.time() - t0)
  s = z3.Solver()
  s.set("timeout", timeout_ms)
  s.add(*ob.assumptions)
  s.add(z3.Not(ob.goal))
  r = s.check()
  if r == z3.unsat:
    return Result("unsat", "z3-%s" % z3.get_version_string(), time.time() - t0)
  if r == z3.sat:
    return Result("sat", "z3-%s" % z3.get_version_string(), time.time() - t0, s.model())
  reason = s.reason_unknown()
  if cli_fallback:
    text = "(set-logic ALL)\n" + s.to_smt2()
    if "(set-logic ALL)\n(set-logic" in text:
      text = s.to_smt2()
    for name, cmd in (("cvc5-1.0.3", ["/usr/bin/cvc5", "--tlimit=%d" % timeout_ms, "--strings-exp"]),
                      ("z3-4.8.12", ["/usr/bin/z3", "-T:%d" % max(1, timeout_ms // 1000)])):
      if not os.path.exists(cmd[0]):
        continue
      out = _cli(cmd, text, timeout_ms / 1000.0)
      if out == "unsat":
        return Result("unsat", name, time.time() - t0)
      if out == "sat":
        # a model from the CLI is not reconstructed: report as sat without model
        return Result("sat", name, time.time() - t0, None, "sat from CLI back end (no model)")
  return Result("unknown", "z3-%s" % z3.get_version_string(), time.time() - t0, None, reason)


def _has_quantifier(t):
  seen = set()
  stack = [t]
  while stack:
    x = stack.pop()
    if x.get_id() in seen: continue
    seen.add(x.get_id())
    if z3.is_quantifier(x): return True
    stack.extend(x.children())
  return False


def satisfiable(assumptions, timeout_ms=3000):
  """Cover query for vacuity: 'unsat' means the assumptions contradict each other."""
  s = z3.Solver()
  s.set("timeout", timeout_ms)
  s.add(*assumptions)
  return str(s.check())


def small_model(ob, length_terms, int_terms, timeout_ms=2500):
  """After a `sat`: look for a counter-model with short sequences and small integers, which is
  what a readable replay needs.  Returns a model or None (the original model is kept then)."""
  for bound, ibound in ((2, 6), (3, 20), (6, 1000), (30, None)):
    s = z3.Solver()
    s.set("timeout", timeout_ms)
    s.add(*ob.assumptions)
    s.add(z3.Not(ob.goal))
    for t in length_terms:
      s.add(t <= bound)
    if ibound is not None:
      for t in int_terms:
        s.add(z3.And(t >= -ibound, t <= ibound))
    if s.check() == z3.sat:
      return s.model()
  return None
