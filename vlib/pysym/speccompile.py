"""Compiles spec clauses (the same texts pysym translates to SMT) to native Python predicates.

Used for (a) replaying solver counterexamples against the real code, (b) the bounded tier, where a
contract's `ensures` are evaluated on the real function's result for every enumerated input.

  forall(v.., cond, body)  ->  all(body for v in R if c1 ... )     (conjuncts of cond placed as early
  exists(v.., cond, body)  ->  any(...)                              as their variables are bound)
  implies(a, b) -> (not a) or b ;  ite(c, a, b) -> a if c else b ;  old(e) -> e in the entry env.

The range R of a bound variable is read off the comparison chains of `cond` (nearest operand on
each side, inclusive; `cond` is still evaluated, so over-approximation is harmless).  A variable
with no such chain ranges over `_universe`: the integers occurring in the arguments and the result,
their neighbours, and -1/0/1 - stated in the evidence as the bounded twin of an unbounded
quantifier."""
import ast

_FORMS = ("forall", "exists", "implies", "ite", "old")


def _names(e):
  return {n.id for n in ast.walk(e) if isinstance(n, ast.Name)}


def _conjuncts(e):
  if isinstance(e, ast.BoolOp) and isinstance(e.op, ast.And):
    out = []
    for v in e.values: out.extend(_conjuncts(v))
    return out
  return [e]


class _Tx(ast.NodeTransformer):
  def __init__(self):
    self.olds = []

  def visit_Call(self, node):
    if isinstance(node.func, ast.Name) and node.func.id in _FORMS:
      return getattr(self, "f_" + node.func.id)(node)
    return self.generic_visit(node)

  def f_implies(self, node):
    a, b = [self.visit(x) for x in node.args]
    return ast.BoolOp(op=ast.Or(), values=[ast.UnaryOp(op=ast.Not(), operand=a), b])

  def f_ite(self, node):
    c, a, b = [self.visit(x) for x in node.args]
    return ast.IfExp(test=c, body=a, orelse=b)

  def f_old(self, node):
    inner = self.visit(node.args[0])
    self.olds.append(inner)
    return ast.Call(func=ast.Name(id="_old", ctx=ast.Load()),
                    args=[ast.Constant(value=len(self.olds) - 1)], keywords=[])

  def f_forall(self, node): return self.quant(node, "all")
  def f_exists(self, node): return self.quant(node, "any")

  def quant(self, node, fn):
    *vars_, cond, body = node.args
    names = [v.id for v in vars_]
    conj = _conjuncts(cond)
    chains = [n for n in _walk_outside_quantifiers(cond) if isinstance(n, ast.Compare) and
              all(isinstance(o, (ast.Lt, ast.LtE, ast.Eq)) for o in n.ops)]
    gens = []
    placed = set()
    for i, name in enumerate(names):
      bound_later = set(names[i:])
      los, his = [], []
      for ch in chains:
        ops = [ch.left] + list(ch.comparators)
        for p, e in enumerate(ops):
          if not (isinstance(e, ast.Name) and e.id == name): continue
          for q in range(p - 1, -1, -1):
            if not (_names(ops[q]) & bound_later):
              strict = any(isinstance(o, ast.Lt) for o in ch.ops[q:p])
              v = self.visit(_copy(ops[q]))
              los.append(ast.BinOp(left=v, op=ast.Add(), right=ast.Constant(value=1))
                         if strict else v)
              break
          for q in range(p + 1, len(ops)):
            if not (_names(ops[q]) & bound_later):
              strict = any(isinstance(o, ast.Lt) for o in ch.ops[p:q])
              v = self.visit(_copy(ops[q]))
              his.append(v if strict else
                         ast.BinOp(left=v, op=ast.Add(), right=ast.Constant(value=1)))
              break
      if los and his:
        lo = los[0] if len(los) == 1 else ast.Call(func=ast.Name(id="max", ctx=ast.Load()),
                                                  args=los, keywords=[])
        hi = his[0] if len(his) == 1 else ast.Call(func=ast.Name(id="min", ctx=ast.Load()),
                                                  args=his, keywords=[])
        it = ast.Call(func=ast.Name(id="range", ctx=ast.Load()), args=[lo, hi], keywords=[])
      else:
        it = ast.Name(id="_universe", ctx=ast.Load())
      ifs = []
      done = set(names[:i + 1])
      for ci, c in enumerate(conj):
        if ci in placed: continue
        if not ((_names(c) & set(names)) - done):
          placed.add(ci)
          ifs.append(self.visit(_copy(c)))
      gens.append(ast.comprehension(target=ast.Name(id=name, ctx=ast.Store()), iter=it, ifs=ifs,
                                    is_async=0))
    b = self.visit(body)
    if fn == "all":
      elt = b
    else:
      elt = b
    return ast.Call(func=ast.Name(id=fn, ctx=ast.Load()),
                    args=[ast.GeneratorExp(elt=elt, generators=gens)], keywords=[])


def _walk_outside_quantifiers(e):
  stack = [e]
  while stack:
    n = stack.pop()
    yield n
    if isinstance(n, ast.Call) and isinstance(n.func, ast.Name) and n.func.id in ("forall", "exists"):
      continue
    stack.extend(ast.iter_child_nodes(n))


def _copy(e):
  import copy
  return copy.deepcopy(e)


class Compiled(object):
  def __init__(self, text):
    self.text = text
    tree = ast.parse(text.strip(), mode="eval")
    tx = _Tx()
    body = tx.visit(tree.body)
    expr = ast.Expression(body=body)
    ast.fix_missing_locations(expr)
    self.code = compile(expr, "<spec>", "eval")
    self.olds = []
    for o in tx.olds:
      e = ast.Expression(body=o)
      ast.fix_missing_locations(e)
      self.olds.append(compile(e, "<spec-old>", "eval"))


_cache = {}

def compiled(text):
  c = _cache.get(text)
  if c is None:
    c = _cache[text] = Compiled(text)
  return c


def int_universe(*envs):
  seen = set()
  def walk(x, d=0):
    if d > 6 or isinstance(x, bool): return
    if isinstance(x, int): seen.add(x)
    elif isinstance(x, (list, tuple, set, frozenset)):
      for y in x: walk(y, d + 1)
    elif isinstance(x, dict):
      for k, y in x.items(): walk(k, d + 1); walk(y, d + 1)
    elif hasattr(x, "__dict__") and not callable(x):
      for y in vars(x).values(): walk(y, d + 1)
  for env in envs:
    for v in env.values(): walk(v)
  for v in list(seen): seen.update((v - 1, v + 1))
  seen.update((-1, 0, 1))
  return sorted(seen)


class _Missing(object):
  def __repr__(self): return "<absent>"
_MISSING = _Missing()


class TotalDict(dict):
  """dict read the way the specs read maps: total (an absent key reads as one fixed token)."""
  def __missing__(self, key): return _MISSING


def totalize(v, depth=0):
  import types
  if depth > 8: return v
  if isinstance(v, TotalDict): return v
  if isinstance(v, dict): return TotalDict((k, totalize(x, depth + 1)) for k, x in v.items())
  if isinstance(v, types.SimpleNamespace):
    return types.SimpleNamespace(**{k: totalize(x, depth + 1) for k, x in vars(v).items()})
  return v


class SpecEnv(object):
  """Namespace for evaluating the clauses of one contract on one concrete case."""
  def __init__(self, contract, env, old_env):
    self.g = {"__builtins__": __builtins__}
    self.old_g = {"__builtins__": __builtins__}
    uni = int_universe(env, old_env)
    for g, e in ((self.g, env), (self.old_g, old_env)):
      g.update({k: totalize(v) for k, v in e.items()})
      g["_universe"] = uni
      for name, text in contract.defs.items():
        if callable(text):
          nat = getattr(text, "native", None)
          if nat is not None: g[name] = nat
          # otherwise the environment itself must supply the concrete meaning
        else:
          c = compiled(text)
          g[name] = eval(c.code, g)        # a lambda closing over this namespace (dynamic names)
    self._cur_old = None
    self.g["_old"] = self._old

  def _old(self, i):
    return eval(self._cur_old[i], self.old_g)

  def eval(self, text):
    c = compiled(text)
    self._cur_old = c.olds
    return bool(eval(c.code, self.g))
