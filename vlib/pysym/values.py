"""Shapes and symbolic values for pysym.

A *shape* is the declared "is_valid()" type of a value (DESIGN.md 2.1).  A symbolic value of a
shape is a tree whose leaves are z3 terms.  A sequence of elements of shape T is stored as one z3
array Int->leaf per leaf of T plus an Int length ("struct of arrays"), which keeps quantified
invariants in the array/linear-arithmetic fragment that z3 and cvc5 decide quickly.

Integers are mathematical (exact for Python int).  Python tuples/lists of *concrete* length are
ordinary Python tuples/lists whose members may be symbolic.
"""
import itertools
import z3


class Unsupported(Exception):
  """The code (or a spec) left the supported subset: the obligation is undecided, never passed."""


# ------------------------------------------------------------------------------------------
# Symbolic values
# ------------------------------------------------------------------------------------------

class Sym(object):
  __slots__ = ()
  def __bool__(self):
    raise Unsupported("implicit truth value of a symbolic value used by the interpreter itself")
  __hash__ = object.__hash__


class SInt(Sym):
  __slots__ = ("t",)
  def __init__(self, t): self.t = t
  def __repr__(self): return "SInt(%s)" % self.t


class SBool(Sym):
  __slots__ = ("t",)
  def __init__(self, t): self.t = t
  def __repr__(self): return "SBool(%s)" % self.t


class SStr(Sym):
  """A Python str as a z3 String."""
  __slots__ = ("t",)
  def __init__(self, t): self.t = t
  def __repr__(self): return "SStr(%s)" % self.t


class SOpq(Sym):
  """A value only touched through uninterpreted operations; `kind` names its z3 sort."""
  __slots__ = ("t", "kind")
  def __init__(self, t, kind): self.t, self.kind = t, kind
  def __repr__(self): return "SOpq[%s](%s)" % (self.kind, self.t)


class SOpt(Sym):
  """T | None :  `isnone` is a z3 Bool, `val` a value of shape T (meaningless when isnone)."""
  __slots__ = ("isnone", "val", "shape")
  def __init__(self, isnone, val, shape): self.isnone, self.val, self.shape = isnone, val, shape
  def __repr__(self): return "SOpt(%s,%r)" % (self.isnone, self.val)


class SSeq(Sym):
  """list/tuple of symbolic length: arrays (one per leaf of `elem`) + length."""
  __slots__ = ("elem", "arrs", "length", "kind")
  def __init__(self, elem, arrs, length, kind="list"):
    self.elem, self.arrs, self.length, self.kind = elem, list(arrs), length, kind
  def __repr__(self): return "SSeq[%r](len=%s)" % (self.elem, self.length)
  def at(self, idx):
    return self.elem.build([z3.Select(a, idx) for a in self.arrs])
  def store(self, idx, value):
    lv = self.elem.leaves(value)
    return SSeq(self.elem, [z3.Store(a, idx, l) for a, l in zip(self.arrs, lv)], self.length,
                self.kind)
  def append(self, value):
    s = self.store(self.length, value)
    s.length = self.length + 1
    return s


class SSet(Sym):
  """set/frozenset/any container only used through `in`: characteristic array key->Bool."""
  __slots__ = ("key", "arr")
  def __init__(self, key, arr): self.key, self.arr = key, arr
  def __repr__(self): return "SSet[%r]" % (self.key,)
  def has(self, k):
    (kl,) = self.key.leaves(k)
    return z3.Select(self.arr, kl)
  def add(self, k):
    (kl,) = self.key.leaves(k)
    return SSet(self.key, z3.Store(self.arr, kl, z3.BoolVal(True)))


class SMap(Sym):
  """dict with scalar keys: presence array + one value array per leaf of `val`."""
  __slots__ = ("key", "val", "present", "arrs")
  def __init__(self, key, val, present, arrs):
    self.key, self.val, self.present, self.arrs = key, val, present, list(arrs)
  def __repr__(self): return "SMap[%r->%r]" % (self.key, self.val)
  def has(self, k):
    (kl,) = self.key.leaves(k)
    return z3.Select(self.present, kl)
  def at(self, k):
    (kl,) = self.key.leaves(k)
    return self.val.build([z3.Select(a, kl) for a in self.arrs])
  def store(self, k, v):
    (kl,) = self.key.leaves(k)
    lv = self.val.leaves(v)
    return SMap(self.key, self.val, z3.Store(self.present, kl, z3.BoolVal(True)),
                [z3.Store(a, kl, l) for a, l in zip(self.arrs, lv)])
  def remove(self, k):
    (kl,) = self.key.leaves(k)
    return SMap(self.key, self.val, z3.Store(self.present, kl, z3.BoolVal(False)), self.arrs)


class ObjVal(object):
  """A modelled instance: class name (and optionally the real class) + named fields.  Identity
  semantics like a Python object; fields may hold symbolic values."""
  def __init__(self, cls_name, fields, real_cls=None):
    self.cls_name, self.fields, self.real_cls = cls_name, dict(fields), real_cls
  def __repr__(self): return "ObjVal<%s>(%s)" % (self.cls_name, ", ".join(
      "%s=%r" % kv for kv in self.fields.items()))


# ------------------------------------------------------------------------------------------
# Shapes
# ------------------------------------------------------------------------------------------

_sorts = {}
def opaque_sort(name):
  if name not in _sorts:
    _sorts[name] = z3.DeclareSort(name)
  return _sorts[name]


class Shape(object):
  def sorts(self): raise NotImplementedError      # z3 sorts of the leaves
  def leaves(self, v): raise NotImplementedError  # value -> list of z3 terms
  def build(self, ls): raise NotImplementedError  # list of z3 terms -> value
  def fresh(self, name, ctx):
    return self.build([ctx.const(name + s, srt) for s, srt in zip(self.suffixes(), self.sorts())])
  def suffixes(self):
    n = len(self.sorts())
    return [""] if n == 1 else [".%d" % i for i in range(n)]
  def wf(self, v):
    """Well-formedness facts that hold of every value of this shape (e.g. len >= 0)."""
    return []
  def concretize(self, v, model, ev):
    """value + model -> plain Python value."""
    raise NotImplementedError


class _Int(Shape):
  def __repr__(self): return "Int"
  def sorts(self): return [z3.IntSort()]
  def leaves(self, v):
    if isinstance(v, SInt): return [v.t]
    if isinstance(v, SBool): return [z3.If(v.t, z3.IntVal(1), z3.IntVal(0))]
    if isinstance(v, bool): return [z3.IntVal(int(v))]
    if isinstance(v, int): return [z3.IntVal(v)]
    if isinstance(v, float) and v == int(v): return [z3.IntVal(int(v))]
    raise Unsupported("value %r where Int expected" % (v,))
  def build(self, ls): return SInt(ls[0])
  def concretize(self, v, model, ev):
    if isinstance(v, Sym): return ev(self.leaves(v)[0]).as_long()
    return v


class _Bool(Shape):
  def __repr__(self): return "Bool"
  def sorts(self): return [z3.BoolSort()]
  def leaves(self, v):
    if isinstance(v, SBool): return [v.t]
    if isinstance(v, bool): return [z3.BoolVal(v)]
    raise Unsupported("value %r where Bool expected" % (v,))
  def build(self, ls): return SBool(ls[0])
  def concretize(self, v, model, ev):
    if isinstance(v, Sym): return z3.is_true(ev(v.t))
    return v


class _Str(Shape):
  def __repr__(self): return "Str"
  def sorts(self): return [z3.StringSort()]
  def leaves(self, v):
    if isinstance(v, SStr): return [v.t]
    if isinstance(v, str): return [z3.StringVal(v)]
    raise Unsupported("value %r where Str expected" % (v,))
  def build(self, ls): return SStr(ls[0])
  def concretize(self, v, model, ev):
    if isinstance(v, Sym): return ev(v.t).as_string()
    return v


class Opaque(Shape):
  coercions = {}      # kind -> fn(plain python value) -> z3 term of that sort, or None
  def __init__(self, kind): self.kind = kind
  def __repr__(self): return "Opaque(%s)" % self.kind
  def __eq__(self, o): return isinstance(o, Opaque) and o.kind == self.kind
  def __hash__(self): return hash(("Opaque", self.kind))
  def sorts(self): return [opaque_sort(self.kind)]
  def leaves(self, v):
    if isinstance(v, SOpq) and v.kind == self.kind: return [v.t]
    f = Opaque.coercions.get(self.kind)
    if f is not None and not isinstance(v, Sym):
      t = f(v)
      if t is not None: return [t]
    raise Unsupported("value %r where %r expected" % (v, self))
  def build(self, ls): return SOpq(ls[0], self.kind)
  def concretize(self, v, model, ev):
    return OpaqueToken(self.kind, str(ev(v.t)))


class OpaqueToken(object):
  """Concrete stand-in for an opaque value in a replay: equal iff same model element."""
  def __init__(self, kind, name): self.kind, self.name = kind, name
  def __eq__(self, o): return isinstance(o, OpaqueToken) and (o.kind, o.name) == (self.kind, self.name)
  def __ne__(self, o): return not self.__eq__(o)
  def __hash__(self): return hash((self.kind, self.name))
  def __repr__(self): return "<%s %s>" % (self.kind, self.name)


class Tup(Shape):
  def __init__(self, *items): self.items = items
  def __repr__(self): return "Tup(%s)" % ", ".join(map(repr, self.items))
  def sorts(self): return [s for it in self.items for s in it.sorts()]
  def leaves(self, v):
    if not isinstance(v, tuple) or len(v) != len(self.items):
      raise Unsupported("value %r where %r expected" % (v, self))
    return [l for it, x in zip(self.items, v) for l in it.leaves(x)]
  def build(self, ls):
    out, i = [], 0
    for it in self.items:
      n = len(it.sorts())
      out.append(it.build(ls[i:i + n])); i += n
    return tuple(out)
  def wf(self, v): return [f for it, x in zip(self.items, v) for f in it.wf(x)]
  def concretize(self, v, model, ev):
    return tuple(it.concretize(x, model, ev) for it, x in zip(self.items, v))


class Obj(Shape):
  """Instance with named fields.  `make` (optional) builds a real Python object for replays from
  a dict of concrete field values; the default is a SimpleNamespace."""
  def __init__(self, cls_name, make=None, real_cls=None, consts=None, **fields):
    self.cls_name, self.fields, self.make, self.real_cls = cls_name, fields, make, real_cls
    self.consts = dict(consts or {})     # fields holding fixed (non-symbolic) values / models
  def __repr__(self): return "Obj(%s)" % self.cls_name
  def sorts(self): return [s for f in self.fields.values() for s in f.sorts()]
  def suffixes(self):
    return [".%s%s" % (k, s if s else "") for k, f in self.fields.items() for s in f.suffixes()]
  def leaves(self, v):
    if not isinstance(v, ObjVal):
      raise Unsupported("value %r where %r expected" % (v, self))
    return [l for k, f in self.fields.items() for l in f.leaves(v.fields[k])]
  def build(self, ls):
    out, i = {}, 0
    for k, f in self.fields.items():
      n = len(f.sorts())
      out[k] = f.build(ls[i:i + n]); i += n
    out.update(self.consts)
    return ObjVal(self.cls_name, out, self.real_cls)
  def wf(self, v): return [x for k, f in self.fields.items() for x in f.wf(v.fields[k])]
  def concretize(self, v, model, ev):
    d = {k: f.concretize(v.fields[k], model, ev) for k, f in self.fields.items()}
    if self.make: return self.make(d)
    import types
    return types.SimpleNamespace(**d)


class Opt(Shape):
  def __init__(self, inner): self.inner = inner
  def __repr__(self): return "Opt(%r)" % self.inner
  def sorts(self): return [z3.BoolSort()] + self.inner.sorts()
  def suffixes(self): return [".isnone"] + [".v" + s for s in self.inner.suffixes()]
  def leaves(self, v):
    if v is None:
      return [z3.BoolVal(True)] + [default_of_sort(s) for s in self.inner.sorts()]
    if isinstance(v, SOpt): return [v.isnone] + self.inner.leaves(v.val)
    return [z3.BoolVal(False)] + self.inner.leaves(v)
  def build(self, ls): return SOpt(ls[0], self.inner.build(ls[1:]), self.inner)
  def wf(self, v): return []
  def concretize(self, v, model, ev):
    if v is None: return None
    if isinstance(v, SOpt):
      if z3.is_true(ev(v.isnone)): return None
      return self.inner.concretize(v.val, model, ev)
    return self.inner.concretize(v, model, ev)


def default_of_sort(s):
  if s == z3.IntSort(): return z3.IntVal(0)
  if s == z3.BoolSort(): return z3.BoolVal(False)
  if s == z3.StringSort(): return z3.StringVal("")
  return z3.Const("default!%s" % s, s)


class Seq(Shape):
  MAX_REPLAY_LEN = 40
  def __init__(self, elem, kind="list"): self.elem, self.kind = elem, kind
  def __repr__(self): return "Seq(%r)" % self.elem
  def sorts(self): return [z3.ArraySort(z3.IntSort(), s) for s in self.elem.sorts()] + [z3.IntSort()]
  def suffixes(self): return ["[]" + s for s in self.elem.suffixes()] + [".len"]
  def leaves(self, v):
    if isinstance(v, (list, tuple)):
      v = seq_from_concrete(self.elem, v, self.kind)
    if isinstance(v, SSeq): return list(v.arrs) + [v.length]
    raise Unsupported("value %r where %r expected" % (v, self))
  def build(self, ls): return SSeq(self.elem, ls[:-1], ls[-1], self.kind)
  def wf(self, v):
    if isinstance(v, SSeq):
      out = [v.length >= 0]
      i = z3.Int("wf!i")
      inner = self.elem.wf(v.at(i))
      if inner:
        out.append(z3.ForAll([i], z3.Implies(z3.And(i >= 0, i < v.length), z3.And(*inner))))
      return out
    return []
  def concretize(self, v, model, ev):
    if isinstance(v, (list, tuple)):
      out = [self.elem.concretize(x, model, ev) for x in v]
    else:
      n = ev(v.length).as_long()
      if n > self.MAX_REPLAY_LEN:
        raise Unsupported("model sequence too long to replay (%d)" % n)
      out = [self.elem.concretize(v.at(z3.IntVal(i)), model, ev) for i in range(n)]
    return tuple(out) if self.kind == "tuple" else out


def seq_from_concrete(elem, items, kind="list"):
  arrs = [z3.K(z3.IntSort(), default_of_sort(s)) for s in elem.sorts()]
  s = SSeq(elem, arrs, z3.IntVal(0), kind)
  for x in items:
    s = s.append(x)
  s.length = z3.IntVal(len(items))
  return s


# candidates for the members of sets / keys of maps nested inside other shapes when a counter-model
# is turned into plain Python values (set by contract.concretize_args for each replay)
REPLAY_UNIVERSE = ()


class SetOf(Shape):
  """Anything used only through `x in s`.  For a replay the members are taken among `universe`
  candidates computed from the other arguments (see Contract.replay_universe)."""
  def __init__(self, key): self.key = key
  def __repr__(self): return "SetOf(%r)" % self.key
  def sorts(self): return [z3.ArraySort(self.key.sorts()[0], z3.BoolSort())]
  def leaves(self, v):
    if isinstance(v, SSet): return [v.arr]
    if isinstance(v, (set, frozenset)) or (isinstance(v, (tuple, list)) and len(v) == 0):
      # an empty tuple/list standing where a set is merged in (`d.get(k, ())`): as a collection of
      # members it is the empty set - the only uses the subset allows of it are `in`, iteration
      # and set.update, which do not distinguish the two
      s = SSet(self.key, z3.K(self.key.sorts()[0], z3.BoolVal(False)))
      for x in v: s = s.add(x)
      return [s.arr]
    raise Unsupported("value %r where %r expected" % (v, self))
  def build(self, ls): return SSet(self.key, ls[0])
  def concretize(self, v, model, ev, universe=()):
    if isinstance(v, (set, frozenset)): return v
    universe = universe or REPLAY_UNIVERSE
    out = set()
    for c in universe:
      try:
        if z3.is_true(ev(v.has(c))): out.add(c)
      except Exception:       # candidate of the wrong sort
        pass
    return out


class MapOf(Shape):
  def __init__(self, key, val): self.key, self.val = key, val
  def __repr__(self): return "MapOf(%r, %r)" % (self.key, self.val)
  def sorts(self):
    k = self.key.sorts()[0]
    return [z3.ArraySort(k, z3.BoolSort())] + [z3.ArraySort(k, s) for s in self.val.sorts()]
  def suffixes(self): return [".has"] + [".val" + s for s in self.val.suffixes()]
  def leaves(self, v):
    if isinstance(v, dict):
      m = SMap(self.key, self.val, z3.K(self.key.sorts()[0], z3.BoolVal(False)),
               [z3.K(self.key.sorts()[0], default_of_sort(s)) for s in self.val.sorts()])
      for k, x in v.items(): m = m.store(k, x)
      v = m
    if isinstance(v, SMap): return [v.present] + list(v.arrs)
    raise Unsupported("value %r where %r expected" % (v, self))
  def build(self, ls): return SMap(self.key, self.val, ls[0], ls[1:])
  def concretize(self, v, model, ev, universe=()):
    if isinstance(v, dict): return v
    universe = universe or REPLAY_UNIVERSE
    out = {}
    for c in universe:
      try:
        if z3.is_true(ev(v.has(c))):
          out[c] = self.val.concretize(v.at(c), model, ev)
      except Exception:
        pass
    return out


Int, Bool, Str = _Int(), _Bool(), _Str()


def shape_of(v):
  """Shape of a value already in hand (used to havoc loop-modified locals)."""
  if isinstance(v, bool) or isinstance(v, SBool): return Bool
  if isinstance(v, int) or isinstance(v, SInt): return Int
  if isinstance(v, str) or isinstance(v, SStr): return Str
  if isinstance(v, SOpq): return Opaque(v.kind)
  if isinstance(v, SSeq): return Seq(v.elem, v.kind)
  if isinstance(v, SSet): return SetOf(v.key)
  if isinstance(v, SMap): return MapOf(v.key, v.val)
  if isinstance(v, SOpt): return Opt(v.shape)
  if isinstance(v, tuple): return Tup(*[shape_of(x) for x in v])
  return None


def is_symbolic(v):
  if isinstance(v, Sym): return True
  if isinstance(v, (tuple, list)): return any(is_symbolic(x) for x in v)
  if isinstance(v, ObjVal): return any(is_symbolic(x) for x in v.fields.values())
  if isinstance(v, dict): return any(is_symbolic(x) for x in v.values())
  return False
