"""Runs the deductive tier (and the bounded twin of the same contracts) for one property and
fills in a Report.  Proof work is distributed over processes by contract, bounded enumeration by
stride."""
import importlib
import itertools
import multiprocessing as mp
import os
import sys
import time
import traceback

from .. import common


def _load(modname, index):
  mod = importlib.import_module(modname)
  return mod.CONTRACTS[index]


def _prove_worker(task):
  modname, index, timeout_ms = task
  try:
    common.setup_grist_path()
    from . import contract as C
    c = _load(modname, index)
    registry = {}
    mod = importlib.import_module(modname)
    for k in mod.CONTRACTS:
      registry[k.qualname] = k
    run = C.verify_contract(c, registry, timeout_ms)
    out = {
      "contract": c.target, "prefix": c.prefix, "file": c.file, "sha256": run.sha,
      "code_sha": run.code_sha, "inlined": run.inlined, "lines": run.segment_lines,
      "slice": c.slice_desc or "whole function", "paths": run.paths,
      "unsupported": run.unsupported, "assumed": sorted(run.assumed), "vacuous": run.vacuous,
      "time_s": run.time_s, "results": [], "notes": c.notes,
    }
    for r in run.results:
      d = {"name": r.ob.name, "kind": r.ob.kind, "line": r.ob.where,
           "path": "".join("T" if x else "F" for x in r.ob.decisions),
           "status": r.res.status, "backend": r.res.backend, "time_s": round(r.res.time_s, 4),
           "detail": r.res.detail, "replay": r.replay}
      if r.res.status != "unsat" or len(out["results"]) < 2:
        try:
          import z3
          s = z3.Solver(); s.add(*r.ob.assumptions); s.add(z3.Not(r.ob.goal))
          d["smt2_head"] = s.to_smt2()[:1500]
        except Exception:
          pass
      out["results"].append(d)
    return out
  except Exception:
    return {"contract": "%s[%d]" % (modname, index), "crash": traceback.format_exc(limit=8),
            "results": [], "unsupported": [], "assumed": [], "vacuous": [], "paths": 0,
            "time_s": 0.0}


def _bounded_worker(task):
  modname, index, tier, seed, w, W, limit_s = task
  common.setup_grist_path()
  from .speccompile import SpecEnv
  import copy
  c = _load(modname, index)
  n = nontrivial = skipped = 0
  failures = []
  samples = []
  t0 = time.time()
  distinct = set()
  try:
    for i, args in enumerate(c.enum(tier, seed)):
      if i % W != w: continue
      if limit_s and time.time() - t0 > limit_s: break
      old = copy.deepcopy(args)
      env0 = SpecEnv(c, dict(old), dict(old))
      try:
        if not all(env0.eval(cl) for cl in c.requires.values()):
          skipped += 1
          continue
      except Exception as e:
        return {"crash": "requires not evaluable on %r: %r" % (args, e)}
      try:
        result, raised = c.native(args), None
      except Exception as e:
        result, raised = None, e
      n += 1
      if len(samples) < 3: samples.append({"args": repr(old), "result": repr(result),
                                           "raised": repr(raised)})
      key = repr((old, result, repr(raised)))
      distinct.add(hash(key))
      if raised is not None:
        clause = None
        for k in type(raised).__mro__:
          if k.__name__ in c.raises:
            clause = c.raises[k.__name__]; break
        ok = clause is not None and (not isinstance(clause, str) or env0.eval(clause))
        if not ok and len(failures) < 20:
          failures.append({"clause": "raises_only_declared", "args": repr(old),
                           "raised": repr(raised), "class": c.classify(old, None, raised)
                           if getattr(c, "classify", None) else None})
        continue
      env = dict(args); env["result"] = result
      se = SpecEnv(c, env, dict(old))
      if c.nontrivial is None or c.nontrivial(old, result): nontrivial += 1
      for name, cl in c.ensures.items():
        try:
          ok = se.eval(cl)
        except Exception as e:
          return {"crash": "clause %s not evaluable on %r: %s" % (name, old, traceback.format_exc(limit=4))}
        if not ok and len(failures) < 20:
          failures.append({"clause": name, "args": repr(old), "result": repr(result),
                           "class": c.classify(old, name, None)
                           if getattr(c, "classify", None) else None})
  except Exception:
    return {"crash": traceback.format_exc(limit=8)}
  return {"n": n, "nontrivial": nontrivial, "skipped": skipped, "failures": failures,
          "samples": samples, "distinct": len(distinct)}


def semantics_selfcheck(report):
  """Runs selftest/pysym_semantics.py (pysym's model of Python's reference semantics: each case's
  true contract must be proved and its value-semantics counterpart refuted) in a subprocess; a
  failure is a checker error - proofs that rest on that model must not be reported then."""
  import subprocess
  p = subprocess.run([sys.executable, os.path.join(common.VERIF, "selftest", "pysym_semantics.py")],
                     capture_output=True, text=True)
  ok = p.returncode == 0 and "self-test: OK" in p.stdout
  report.coverage["pysym_semantics_selftest"] = "OK (%d expectations)" % p.stdout.count("\n") if ok \
      else "FAILED"
  if not ok:
    report.crash("pysym semantics self-test failed: %s" % (p.stdout + p.stderr)[-600:])
  return ok


_BASELINE = []
def _baseline():
  """proved_baseline.json (committed; written by tools/gen_proved_baseline.py, never at check
  time): per contract, the hash of the code its obligations were generated from and the
  obligations discharged then."""
  if not _BASELINE:
    import json
    try:
      with open(os.path.join(common.VERIF, "proved_baseline.json")) as f:
        _BASELINE.append(json.load(f))
    except Exception:
      _BASELINE.append({})
  return _BASELINE[0]


def run_property(report, modname, timeout_ms=None, bounded=True, procs=None,
                 bounded_limit_s=None, only=None):
  """Fills `report` (a common.Report).  Returns the list of per-contract summaries."""
  tier = common.tier()
  if timeout_ms is None:
    timeout_ms = 10000 if tier == "quick" else 60000
  procs = procs or min(16, os.cpu_count() or 4)
  mod = importlib.import_module(modname)
  n = len(mod.CONTRACTS)
  idxs = [i for i in range(n) if only is None or
          any(mod.CONTRACTS[i].prefix.startswith(p) for p in only)]
  # contracts whose obligations need tens of seconds of solver time are discharged in the thorough
  # tier only (a verdict must not flip with the load of the machine)
  skipped = [mod.CONTRACTS[i].prefix for i in idxs
             if getattr(mod.CONTRACTS[i], "only_tier", None) not in (None, tier)]
  idxs = [i for i in idxs if mod.CONTRACTS[i].prefix not in skipped]
  if skipped:
    report.coverage.setdefault("contracts_left_to_the_thorough_tier", []).extend(skipped)
  ctxm = mp.get_context("fork")
  with ctxm.Pool(min(procs, max(1, len(idxs)))) as pool:
    proofs = pool.map(_prove_worker, [(modname, i, timeout_ms) for i in idxs])
  selected = [mod.CONTRACTS[i] for i in idxs]
  bounded_out = {}
  if bounded:
    tasks = []
    for i, c in enumerate(mod.CONTRACTS):
      if i not in idxs: continue
      if getattr(c, "enum", None) is None: continue
      W = max(1, procs // max(1, sum(1 for k in mod.CONTRACTS if getattr(k, "enum", None))))
      for w in range(W):
        tasks.append((modname, i, tier, common.seed(), w, W, bounded_limit_s))
    if tasks:
      with ctxm.Pool(min(procs, len(tasks))) as pool:
        outs = pool.map(_bounded_worker, tasks)
      for t, o in zip(tasks, outs):
        bounded_out.setdefault(t[1], []).append(o)

  cov = report.coverage
  cov.setdefault("functions", [])
  cov.setdefault("obligation_list", [])
  n_ob = n_dis = 0
  solver_time = 0.0
  backends = {}
  assumed = set()
  samples = []
  for i, (c, p) in zip(idxs, zip(selected, proofs)):
    if p.get("crash"):
      report.crash("pysym crashed on %s: %s" % (p["contract"], p["crash"]))
      continue
    cov["functions"].append({"target": p["contract"], "file": p["file"], "sha256": p["sha256"],
                             "code_sha256_with_inlined_callees": p.get("code_sha"),
                             "inlined_callees": p.get("inlined", []),
                             "lines": p["lines"], "slice": p["slice"], "paths": p["paths"],
                             "time_s": round(p["time_s"], 2), "notes": p.get("notes", "")})
    assumed |= set(p["assumed"])
    for u in p["unsupported"]:
      report.undecided_obligation("%s: %s" % (p["contract"], u), "outside the supported subset")
    for v in p["vacuous"]:
      report.crash("vacuous assumptions behind %s in %s" % (v, p["contract"]))
    if not p["results"] and not p["unsupported"]:
      report.crash("no obligations generated for %s" % p["contract"])
    bfails = [f for o in bounded_out.get(i, []) for f in o.get("failures", [])]
    for r in p["results"]:
      n_ob += 1
      solver_time += r["time_s"]
      cov["obligation_list"].append("%s [%s%s] %s %s %.3fs" % (
        r["name"], r["kind"], (" path " + r["path"]) if r["path"] else "", r["status"],
        r["backend"], r["time_s"]))
      if r["status"] == "unsat":
        n_dis += 1
        backends[r["backend"]] = backends.get(r["backend"], 0) + 1
        if len(samples) < 2 and r.get("smt2_head"):
          samples.append({"obligation": r["name"], "kind": r["kind"], "smt2_head": r["smt2_head"]})
      elif r["status"] == "unknown":
        base = _baseline().get(p.get("prefix") or "", {})
        key = "%s|%s" % (r["name"], r["kind"].split(":")[0])
        if key in base.get("proved", ()) and base.get("code_sha") and p.get("code_sha") and \
            base["code_sha"] != p["code_sha"]:
          # the obligation was discharged on the tree the baseline was taken from, the code it is
          # generated from has changed since, and it is no longer discharged: a failed obligation
          # without a counter-model (the solver's answer is attached)
          rec = {"obligation": r["name"], "kind": r["kind"], "function": p["contract"],
                 "line": r["line"], "path": r["path"], "solver": r["backend"],
                 "verifier_output": "unknown (%s) - discharged on the baseline tree, the code under "
                                    "contract changed since" % (r["detail"] or "no reason given"),
                 "baseline_code_sha": base["code_sha"], "current_code_sha": p["code_sha"],
                 "smt2_head": r.get("smt2_head"), "class": r["name"]}
          report.violation(r["name"], rec, has_input=False)
        else:
          report.undecided_obligation("%s [%s]" % (r["name"], r["kind"]),
                                      "solver: %s" % (r["detail"] or "unknown"))
      else:
        rp = r.get("replay") or {}
        rec = {"obligation": r["name"], "kind": r["kind"], "function": p["contract"],
               "line": r["line"], "path": r["path"], "solver": r["backend"],
               "verifier_output": "sat (counter-model found)", "model_args": rp.get("args"),
               "replay": rp, "smt2_head": r.get("smt2_head")}
        if rp.get("replayed"):
          rec["failing_input"] = rp.get("args")
          rec["class"] = "%s" % r["name"]
          report.violation(r["name"], rec, has_input=True)
        elif bfails:
          rec["failing_input"] = bfails[0]
          rec["class"] = bfails[0].get("class") or bfails[0]["clause"]
          report.violation(r["name"], rec, has_input=True)
        else:
          rec["class"] = r["name"]
          report.violation(r["name"], rec, has_input=False)
  # bounded twin
  b_eval = b_nontriv = b_distinct = 0
  b_samples = []
  for i, outs in bounded_out.items():
    c = mod.CONTRACTS[i]
    for o in outs:
      if o.get("crash"):
        report.crash("bounded twin of %s: %s" % (c.target, o["crash"]))
        continue
      b_eval += o["n"]; b_nontriv += o["nontrivial"]; b_distinct += o["distinct"]
      b_samples.extend(o["samples"][:1])
      for f in o["failures"]:
        rec = {"obligation": "%s.%s" % (c.prefix, f["clause"]), "function": c.target,
               "failing_input": f, "class": f.get("class") or f["clause"], "tier": "bounded"}
        report.violation("%s.%s-bounded" % (c.prefix, f["clause"]), rec, has_input=True)
  cov["obligations"] = cov.get("obligations", 0) + n_ob
  cov["discharged"] = cov.get("discharged", 0) + n_dis
  cov["solver_time_s"] = round(cov.get("solver_time_s", 0) + solver_time, 3)
  cov["backends"] = backends
  cov["checker_cmd"] = "./check %s  (pysym: AST of /repo sources -> VCs -> z3 5.1 in-process, " \
                       "cvc5 1.0.3 / z3 4.8.12 CLI on unknown)" % report.prop
  cov["trusted_base"] = sorted(set(cov.get("trusted_base", [])) | {
    "pysym VC generator (vlib/pysym, ~2.5 kLOC) and its Python semantics (DESIGN.md 3)",
    "z3 5.1.0 / cvc5 1.0.3 / z3 4.8.12", "CPython 3.12 builtins as modelled in vlib/pysym/models.py",
  } | {"assumed contract: " + a for a in assumed})
  cov.setdefault("samples", [])
  cov["samples"].extend(samples)
  if bounded_out:
    cov["bounded_twin"] = {"evaluations": b_eval, "nontrivial": b_nontriv,
                           "distinct": b_distinct, "samples": b_samples[:3],
                           "label": "bounded (never counted as proved)"}
    cov["evaluations"] = cov.get("evaluations", 0) + b_eval
    cov["distinct_nontrivial"] = cov.get("distinct_nontrivial", 0) + min(b_nontriv, b_distinct)
    cov["samples"].extend(b_samples[:2])
  return proofs
