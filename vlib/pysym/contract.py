"""Sidecar contracts and the per-contract verification driver (DESIGN.md 2.1 / 2.2)."""
import ast
import copy
import time
import traceback
import z3

from .values import *       # noqa
from . import values as V
from .interp import (Ctx, Interp, Frame, FuncVal, PyExc, PathEnd, _Return, Model, Obligation,
                     ExcVal)
from . import extract, solve


class LoopSpec(object):
  def __init__(self, name, invariants, index=None, ghost=None, ghost_step=None, locals=None,
               decreases=None, ghost_pre=None):
    self.name = name
    self.invariants = dict(invariants)
    self.index = index
    self.ghost_init = dict(ghost or {})      # name -> (shape, init expression text | None)
    self.ghost_step = ghost_step
    self.ghost_pre = ghost_pre
    self.locals = dict(locals or {})
    self.decreases = decreases


class Contract(object):
  """Contract of one real function.  All clause texts are Python expressions over the parameters,
  `result`, `old(...)`, ghost variables and the names in `defs`."""
  def __init__(self, prefix, target, file, params, requires=None, ensures=None, raises=None,
               loops=None, returns=None, modular=False, defs=None, axioms=None, classes=None,
               body_slice=None, slice_desc=None, native=None, universe=None, locals=None,
               stubs=None, kwargs_call=None, self_param=None, notes=None, post_env=None,
               enum=None, nontrivial=None, classify=None):
    self.prefix, self.target, self.file = prefix, target, file
    self.params = dict(params)
    self.requires = dict(requires or {})
    self.ensures = dict(ensures or {})
    self.raises = dict(raises or {})       # exception class name -> clause text (when it may)
    self.loops = dict(loops or {})         # loop ordinal (source order) -> LoopSpec
    self.returns = returns
    self.modular = modular
    self.defs = dict(defs or {})           # name -> lambda text (spec macros)
    self.axioms = dict(axioms or {})       # name -> clause assumed (validated in concrete mode)
    self.classes = dict(classes or {})
    self.body_slice = body_slice
    self.slice_desc = slice_desc
    self.native = native                   # callable(args dict) -> result, runs the REAL code
    self.universe = universe               # callable(args dict so far) -> candidates for sets/maps
    self.locals = dict(locals or {})
    self.stubs = dict(stubs or {})         # global name -> Model / value overriding module globals
    self.notes = notes or ""
    self.post_env = post_env               # callable(frame env) -> extra names for ensures
    self.enum = enum                       # callable(tier, seed) -> iterator of concrete args dicts
    self.nontrivial = nontrivial           # callable(args, result) -> bool
    self.classify = classify               # callable(args, clause, raised) -> failure class
    # hooks for opaque kinds
    self.opq_eq, self.opq_eq_const, self.opq_lt = {}, {}, {}
    self.opq_isinstance, self.opq_methods, self.str_methods, self.map_shapes = {}, {}, {}, {}
    self.uf = {}
    self.obj_lt = {}
    self.hooks = {}                        # ("in"|"set"|"attr"|"method", kind[, name]) -> fn
    self.closure_env = None                # callable(args) -> {name: value} for closure variables
    self.custom_concretize = None          # callable(contract, ob, model, ev) -> args dict
    self.raw_axioms = None                 # callable(interp) -> [z3 Bool] assumed
    self._loc = None
    self._def_asts = {}

  @property
  def qualname(self): return self.target.split(":")[1]

  def locate(self):
    if self._loc is None:
      self._loc = extract.locate(self.target, self.file)
    return self._loc

  def loop_spec(self, func, node):
    loc = self.locate()
    if loc is None or func.node is not loc[0]:
      # loops of inlined callees: keyed by "qualname#ordinal"
      ordn = _loop_ordinal(func.node, node)
      return self.loops.get("%s#%d" % (func.qualname, ordn))
    return self.loops.get(_loop_ordinal(func.node, node))

  def spec_env(self, interp, frame):
    """Spec macros (dynamically scoped: they see the names of the clause being evaluated)."""
    env = {}
    for name, text in self.defs.items():
      if callable(text):
        env[name] = Model("spec:" + name, text)
      else:
        node = self._def_asts.get(name)
        if node is None:
          node = self._def_asts[name] = ast.parse(text.strip(), mode="eval").body
        if not isinstance(node, ast.Lambda):
          raise Unsupported("def %s is not a lambda" % name)
        env[name] = FuncVal(node, None, frame, name)
    return env


def _loop_ordinal(fn_node, loop_node):
  loops = [n for n in ast.walk(fn_node) if isinstance(n, (ast.For, ast.While))]
  loops.sort(key=lambda n: (n.lineno, n.col_offset))
  return loops.index(loop_node)


# ------------------------------------------------------------------------------------------

class NativeOutcome(object):
  """What a native runner may return: the real result plus the post-state names the clauses read
  (e.g. `self` rebuilt from the real object after the call)."""
  def __init__(self, result, env): self.result, self.env = result, dict(env)


class ObResult(object):
  def __init__(self, ob, res, replay=None):
    self.ob, self.res, self.replay = ob, res, replay


class ContractRun(object):
  def __init__(self, contract):
    self.contract = contract
    self.results = []          # ObResult
    self.unsupported = []      # messages
    self.paths = 0
    self.assumed = set()
    self.sha = None
    self.segment_lines = 0
    self.time_s = 0.0
    self.vacuous = []
    self.code_sha = None       # target + inlined callees
    self.inlined = []


def _snapshot(v, memo=None):
  """Entry-state copy for old(): modelled objects and concrete containers are mutable."""
  memo = {} if memo is None else memo
  if id(v) in memo: return memo[id(v)]
  if isinstance(v, ObjVal):
    c = ObjVal(v.cls_name, {}, v.real_cls)
    memo[id(v)] = c
    c.fields = {k: _snapshot(x, memo) for k, x in v.fields.items()}
    return c
  if isinstance(v, list): return [_snapshot(x, memo) for x in v]
  if isinstance(v, dict): return {k: _snapshot(x, memo) for k, x in v.items()}
  if isinstance(v, tuple) and not hasattr(v, "_fields"): return tuple(_snapshot(x, memo) for x in v)
  return v


def _function_frame(ip, contract, fv, argvals):
  fr = Frame(fv, ip)
  a = fv.node.args
  kw = dict(argvals)
  direct = {}
  for special in (a.vararg, a.kwarg):
    if special is not None and special.arg in kw:
      direct[special.arg] = kw.pop(special.arg)
  formal = {p.arg for p in a.posonlyargs + a.args + a.kwonlyargs}
  for k in list(kw):
    if k not in formal:
      direct[k] = kw.pop(k)         # ghost parameter: visible to the spec only
  fr.bind_args(a, [], kw, ip)
  fr.env.update(direct)
  for k, v in contract.stubs.items():
    fr.env.setdefault(k, v)
  return fr


def run_paths(contract, registry=None, concrete_args=None, max_paths=4000, timeout_ms=400):
  """Enumerates the paths of the real function under the contract; returns
  (obligations, unsupported messages, number of paths, assumed-contract names)."""
  loc = contract.locate()
  if loc is None:
    return [], ["target %s not found in %s" % (contract.target, contract.file)], 0, set()
  node, module, seg, sha = loc
  cls = None
  fv = FuncVal(node, module, None, contract.qualname, cls)
  work = [[]]
  seen_presets = set()
  obligations, unsupported, assumed = [], [], set()
  covers = {}
  npaths = 0
  while work:
    preset = work.pop()
    if tuple(preset) in seen_presets: continue
    seen_presets.add(tuple(preset))
    npaths += 1
    if npaths > max_paths:
      unsupported.append("more than %d paths" % max_paths)
      break
    ctx = Ctx(preset, concrete=False, solver_timeout_ms=timeout_ms)
    ip = Interp(ctx, contract, registry or {})
    try:
      args = {}
      for name, shape in contract.params.items():
        args[name] = ctx.fresh(shape, name) if isinstance(shape, Shape) else shape
      ip.old_env = {k: _snapshot(v) for k, v in args.items()}
      for k, v in contract.stubs.items():
        ip.old_env.setdefault(k, v)
      for name, clause in contract.axioms.items():
        ctx.assume(ip._bt(ip.eval_spec(clause, dict(ip.old_env))))
      if contract.raw_axioms is not None:
        for ax in contract.raw_axioms(ip):
          ctx.assume(ax)
      for name, clause in contract.requires.items():
        ctx.assume(ip._bt(ip.eval_spec(clause, dict(ip.old_env))))
      covers.setdefault("%s.precondition" % contract.prefix, []).append(list(ctx.assumptions))
      fr = _function_frame(ip, contract, fv, args)
      if contract.closure_env is not None:      # names the function reads from enclosing scopes
        for k, v in contract.closure_env(args).items():
          fr.env.setdefault(k, v)
      # the ENTRY state of the arguments (modelled objects are mutated in place by the body)
      witness = {k: ip.old_env[k] for k in args}
      result, exc = None, None
      try:
        body = node.body if contract.body_slice is None else contract.body_slice(node)
        if body is None:
          raise Unsupported("structural slice selector no longer matches the function")
        from .interp import _is_generator
        is_gen = _is_generator(node)
        if is_gen: fr.env["__yielded__"] = []
        try:
          ip.exec_block(body, fr)
        except _Return as r:
          result = r.value
        if is_gen: result = fr.env["__yielded__"]
      except PyExc as e:
        exc = e
      if exc is None:
        env = fr.flat_env()
        env["result"] = result
        if contract.post_env: env.update(contract.post_env(ip, env))
        for name, clause in contract.ensures.items():
          g = ip.eval_spec(clause, env)
          ctx.oblige("%s.%s" % (contract.prefix, name), ip._bt(g), "post", None, witness)
      else:
        ename = exc.exc_cls.__name__
        clause = None
        for k in exc.exc_cls.__mro__:
          if k.__name__ in contract.raises:
            clause = contract.raises[k.__name__]
            break
        if clause is None:
          ctx.oblige("%s.raises_only_declared" % contract.prefix, z3.BoolVal(False),
                     "no-raise:%s@%s" % (ename, exc.where), exc.where, witness)
        else:
          env = dict(ip.old_env)
          env["exc_args"] = exc.exc_args
          g = ip.eval_spec(clause, env) if isinstance(clause, str) else clause
          ctx.oblige("%s.raises.%s" % (contract.prefix, ename), ip._bt(g),
                     "raise-when:%s@%s" % (ename, exc.where), exc.where, witness)
    except PathEnd:
      pass
    except Unsupported as e:
      unsupported.append(str(e))
      import os
      if os.environ.get("PYSYM_TRACE"): traceback.print_exc()
    for ob in ctx.obligations:
      if ob.witness_env is None:
        ob.witness_env = {k: ip.old_env.get(k, v) for k, v in args.items()} \
            if getattr(ip, "old_env", None) else dict(args)
    obligations.extend(ctx.obligations)
    for name, assm in ctx.covers:
      covers.setdefault(name, []).append(assm)
    assumed |= ctx.assumed_contracts
    work.extend(ctx.pending)
  run_paths.last_covers = covers
  return obligations, unsupported, npaths, assumed


def concretize_args(contract, ob, model):
  """Builds plain Python arguments from a counter-model (for replay on the real code).  Members of
  sets / keys of maps are looked for among a universe of candidates, which is grown with the
  integers found in the values built so far (two more rounds), so that e.g. a key that only occurs
  as a VALUE of another map is found too."""
  ev = lambda t: model.eval(t, model_completion=True)
  if contract.custom_concretize is not None:
    return contract.custom_concretize(contract, ob, model, ev)
  ints = set(range(-2, 7))
  for t in _int_terms(ob.witness_env):
    try:
      n = ev(t).as_long()
      ints.update((n - 1, n, n + 1))
    except Exception:
      pass
  # ... and with the indices at which the model's arrays (sets, maps) differ from their default
  for v in _walk_values(ob.witness_env or {}):
    arrs = [v.arr] if isinstance(v, SSet) else ([v.present] + list(v.arrs)) if isinstance(v, SMap) \
        else list(v.arrs) if isinstance(v, SSeq) else []
    for a in arrs:
      try:
        ints |= _array_indices(ev(a))
      except Exception:
        pass
  out = {}
  for _round in range(3):
    V.REPLAY_UNIVERSE = tuple(sorted(ints))
    out = {}
    later = []
    for name, shape in contract.params.items():
      if not isinstance(shape, Shape):
        out[name] = shape
        continue
      v = ob.witness_env.get(name)
      if isinstance(shape, (V.SetOf, V.MapOf)):
        later.append((name, shape, v))
        continue
      out[name] = shape.concretize(v, model, ev)
    for name, shape, v in later:
      uni = contract.universe(out) if contract.universe else \
          sorted(set(_default_universe(out)) | set(V.REPLAY_UNIVERSE), key=repr)
      out[name] = shape.concretize(v, model, ev, universe=uni)
    found = {x for x in _default_universe(out) if isinstance(x, int) and not isinstance(x, bool)}
    if found <= ints or len(ints) > 400: break
    ints |= found
  return out


def _array_indices(e, depth=0):
  """Integer indices occurring in Store(...) chains of a model's array value (nested arrays too)."""
  out = set()
  if depth > 6 or not z3.is_expr(e): return out
  if z3.is_store(e):
    a, i, v = e.children()
    if z3.is_int_value(i): out.add(i.as_long())
    out |= _array_indices(a, depth) | _array_indices(v, depth + 1)
  elif z3.is_const_array(e):
    out |= _array_indices(e.children()[0], depth + 1)
  return out


def _default_universe(args):
  seen = set()
  def walk(x, d=0):
    if d > 6: return
    if isinstance(x, bool): return
    if isinstance(x, (int, str)): seen.add(x)
    elif isinstance(x, (list, tuple, set)):
      for y in x: walk(y, d + 1)
    elif isinstance(x, dict):
      for k, y in x.items(): walk(k, d + 1); walk(y, d + 1)
    elif hasattr(x, "__dict__"):
      for y in vars(x).values(): walk(y, d + 1)
  walk(args)
  for i in list(seen):
    if isinstance(i, int): seen.update((i - 1, i + 1))
  seen.update((0, 1, -1))
  return sorted(seen, key=repr)


def _walk_values(env):
  stack = list(env.values())
  seen = set()
  while stack:
    v = stack.pop()
    if id(v) in seen: continue
    seen.add(id(v))
    yield v
    if isinstance(v, ObjVal): stack.extend(v.fields.values())
    elif isinstance(v, (list, tuple)): stack.extend(v)
    elif isinstance(v, dict): stack.extend(v.values())
    elif isinstance(v, SOpt): stack.append(v.val)


def _length_terms(env):
  return [v.length for v in _walk_values(env or {}) if isinstance(v, SSeq)]


def _int_terms(env):
  return [v.t for v in _walk_values(env or {}) if isinstance(v, SInt)]


def eval_concrete(contract, clause, env, old_env):
  """Evaluates a clause natively (compiled to plain Python, see speccompile)."""
  from .speccompile import SpecEnv
  return SpecEnv(contract, env, old_env).eval(clause)


def replay(contract, ob, model):
  """Runs the REAL function natively on the model's arguments and evaluates the failed clause.
  -> dict(replayed=bool, args=..., outcome=...)"""
  rec = {"obligation": ob.name, "kind": ob.kind, "line": ob.where}
  try:
    args = concretize_args(contract, ob, model)
  except Exception as e:
    rec.update(replayed=False, why="could not build arguments from the model: %s" % e)
    return rec
  rec["args"] = repr(args)
  if contract.native is None:
    rec.update(replayed=False, why="no native runner for this contract")
    return rec
  mkenv = getattr(contract, "native_env", None) or (lambda a: dict(a))
  old = copy.deepcopy(args)
  try:
    env0 = mkenv(old)
    for name, clause in list(contract.requires.items()) + list(contract.axioms.items()):
      if not eval_concrete(contract, clause, dict(env0), dict(env0)):
        rec.update(replayed=False, why="model arguments violate requires/axiom %s "
                   "(quantifier instantiation incomplete)" % name)
        return rec
  except Exception as e:
    rec.update(replayed=False, why="could not evaluate requires natively: %r" % (e,))
    return rec
  env_updates = {}
  try:
    result = contract.native(args)
    if isinstance(result, NativeOutcome):
      result, env_updates = result.result, result.env
    raised = None
  except Exception as e:          # the real code raised
    result, raised = None, e
  rec["result"] = repr(result)
  rec["raised"] = repr(raised)
  kind = ob.kind.split(":")[0]
  try:
    if raised is not None:
      declared = None
      for k in type(raised).__mro__:
        if k.__name__ in contract.raises:
          declared = contract.raises[k.__name__]
          break
      if declared is None:
        rec.update(replayed=True, why="real code raised an undeclared exception: %r" % (raised,))
      else:
        ok = eval_concrete(contract, declared, dict(env0), dict(env0)) \
            if isinstance(declared, str) else True
        rec.update(replayed=not ok, why="raise condition evaluated natively: %s" % ok)
      return rec
    if kind == "raise-when" or kind == "no-raise":
      rec.update(replayed=False, why="real code did not raise on the model's arguments")
      return rec
    env = mkenv(args); env["result"] = result
    env.update(env_updates)
    for alias in getattr(contract, "result_aliases", ()): env[alias] = result
    failed = []
    for cname, clause in contract.ensures.items():
      if not eval_concrete(contract, clause, dict(env), dict(env0)):
        failed.append(cname)
    rec["clauses_false_natively"] = failed
    if kind == "post":
      cname = ob.name[len(contract.prefix) + 1:]
      rec.update(replayed=cname in failed or bool(failed),
                 why="clauses evaluated natively on the real result; false: %s" % failed)
    else:
      rec.update(replayed=bool(failed),
                 why="intermediate obligation (%s); real result on the model's arguments makes "
                     "these clauses false: %s" % (kind, failed))
  except Exception as e:
    rec.update(replayed=False, why="native evaluation of the clause failed: %r" % (e,))
  return rec


def verify_contract(contract, registry=None, timeout_ms=10000):
  run = ContractRun(contract)
  t0 = time.time()
  loc = contract.locate()
  if loc is not None:
    run.sha = loc[3]
    run.segment_lines = loc[2].count("\n") + 1
  from . import interp as _interp
  _interp.INTERPRETED.clear()
  try:
    obs, unsupported, npaths, assumed = run_paths(contract, registry)
    # hash of ALL the code the obligations were generated from: the target and every inlined callee
    # (AST dump: insensitive to comments and layout)
    import hashlib
    parts = sorted((q, hashlib.sha256(ast.dump(n).encode()).hexdigest())
                   for q, n in _interp.INTERPRETED.items())
    if loc is not None:
      parts.append(("<target>", hashlib.sha256(ast.dump(loc[0]).encode()).hexdigest()))
    run.code_sha = hashlib.sha256(repr(parts).encode()).hexdigest()
    run.inlined = [q for q, _ in parts if q != "<target>"]
  except Exception as e:
    run.unsupported.append("internal error: %s" % traceback.format_exc(limit=6))
    run.time_s = time.time() - t0
    return run
  run.unsupported = unsupported
  run.paths = npaths
  run.assumed = assumed
  seen = set()
  vac_checked = set()
  for ob in obs:
    k = ob.key()
    if k in seen: continue
    seen.add(k)
    res = solve.discharge(ob, timeout_ms)
    rp = None
    if res.status == "sat":
      small = solve.small_model(ob, _length_terms(ob.witness_env), _int_terms(ob.witness_env))
      if small is not None:
        res.model = small
    if res.status == "sat" and res.model is not None:
      rp = replay(contract, ob, res.model)
    elif res.status == "sat":
      rp = {"obligation": ob.name, "replayed": False, "why": res.detail}
    run.results.append(ObResult(ob, res, rp))
  # vacuity guard: the precondition, and each loop's "invariant and guard", must be satisfiable
  # on at least one path (a cover query); `unknown` counts as reachable.
  for name, alts in getattr(run_paths, "last_covers", {}).items():
    if all(solve.satisfiable(a, 300) == "unsat" for a in alts[:6]):
      run.vacuous.append(name)
  run.time_s = time.time() - t0
  return run
