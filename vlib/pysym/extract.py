"""Mechanical extraction of the verified text from /repo's working tree (re-read on every run).

Nothing is copied into /verif: functions are located by qualified name in the parsed source file
and their source segment is hashed into the evidence.  What extraction drops is listed in
DESIGN.md 2.2 (docstrings, comments, log.* statements)."""
import ast
import hashlib
import importlib
import os
import sys

from ..common import REPO, GRIST, setup_grist_path

_parsed = {}


def parse_file(path):
  path = os.path.abspath(path)
  if path not in _parsed:
    with open(path) as f:
      src = f.read()
    _parsed[path] = (ast.parse(src, filename=path), src)
  return _parsed[path]


def in_repo(f):
  """Functions whose source is interpreted (inlined): everything under the repository - and the
  small case functions of pysym's own semantics self-test."""
  code = getattr(f, "__code__", None)
  if code is None: return False
  path = os.path.abspath(code.co_filename)
  return path.startswith(os.path.abspath(REPO)) or path.endswith("/selftest/pysym_cases.py")


def find_def(tree, qualname):
  """FunctionDef/ClassDef for a dotted qualname ('Class.method', 'func', 'outer.<locals>.inner'
  is written 'outer.inner')."""
  parts = [p for p in qualname.split(".") if p != "<locals>"]
  body = tree.body
  node = None
  for p in parts:
    node = None
    for n in _defs(body):
      if n.name == p:
        node = n
        break
    if node is None:
      return None
    body = node.body
  return node


def _defs(body):
  """definitions directly in this body, looking through if/try/with at the same level"""
  for n in body:
    if isinstance(n, (ast.FunctionDef, ast.ClassDef, ast.AsyncFunctionDef)):
      yield n
    elif isinstance(n, (ast.If, ast.Try, ast.With)):
      for sub in (getattr(n, "body", []), getattr(n, "orelse", []), getattr(n, "finalbody", [])):
        for m in _defs(sub):
          yield m
      for h in getattr(n, "handlers", []):
        for m in _defs(h.body):
          yield m


def import_module(modname):
  setup_grist_path()
  return importlib.import_module(modname)


def funcdef_for(f):
  """(ast node, module) for a real function object defined under /repo."""
  path = f.__code__.co_filename
  tree, _ = parse_file(path)
  node = find_def(tree, f.__qualname__)
  if node is None:
    # fall back on the line number (functions created inside other functions)
    for n in ast.walk(tree):
      if isinstance(n, (ast.FunctionDef, ast.Lambda)) and getattr(n, "name", "<lambda>") == \
          f.__name__ and n.lineno <= f.__code__.co_firstlineno <= getattr(n, "end_lineno", n.lineno):
        node = n
        break
  if node is None:
    from .values import Unsupported
    raise Unsupported("source of %s not found" % f.__qualname__)
  return node, sys.modules.get(f.__module__)


def locate(target, file):
  """target 'module:Qual.name', file relative to REPO -> (node, module, segment text, sha256)."""
  modname, qual = target.split(":")
  path = os.path.join(REPO, file)
  tree, src = parse_file(path)
  node = find_def(tree, qual)
  if node is None:
    return None
  module = import_module(modname)
  seg = ast.get_source_segment(src, node) or ""
  return node, module, seg, hashlib.sha256(seg.encode("utf8")).hexdigest()


def reset_cache():
  _parsed.clear()
